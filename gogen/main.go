// gogen: the translator that ties Coq models to /repo's current source (tie 1 of DESIGN §2.3.1).
//
// stdin: JSON {"module": "...", "imports": [...], "items": [item...]} ; stdout: a Coq file.
// item kinds:
//
//	const  {file, name, as}            package-level const/var initialiser -> Definition as : Z / Q / string
//	func   {file, name, as, recv, bools, calls, lens}   GoLite function -> Definition as (params) := ...
//	strs   {file, name, as}            []string / map literal keys -> list string
//	chain  {file, func, call, as}      identifiers of the arguments of the first call `call(...)` inside func -> list string
//	calls  {file, func, as}            ordered list of called function names inside func (sync skeleton) -> list string
//	cases  {file, func, as}            the case-clause constants of the first switch in func -> list string
//
// Anything it cannot translate makes it exit 2 with a message: the caller turns that into a
// broken proof obligation.
package main

import (
	"encoding/json"
	"flag"
	"fmt"
	"go/ast"
	"go/parser"
	"go/token"
	"io"
	"math/big"
	"os"
	"path/filepath"
	"sort"
	"strconv"
	"strings"
)

type Item struct {
	Kind  string            `json:"kind"`
	File  string            `json:"file"`
	Name  string            `json:"name"`
	Func  string            `json:"func"`
	Call  string            `json:"call"`
	As    string            `json:"as"`
	Recv  string            `json:"recv"`
	Bools []string          `json:"bools"`
	Calls map[string]string `json:"calls"`
	Typ   string            `json:"type"`
}

type Req struct {
	Module  string   `json:"module"`
	Imports []string `json:"imports"`
	Items   []Item   `json:"items"`
}

var repo = flag.String("repo", "/repo", "repository root")

type pkgInfo struct {
	fset  *token.FileSet
	files map[string]*ast.File
	// package-level value specs by name
	vals  map[string]ast.Expr
	iotas map[string]int
	// for const groups with implicit repetition
}

var pkgs = map[string]*pkgInfo{}

func loadPkg(dir string) *pkgInfo {
	if p, ok := pkgs[dir]; ok {
		return p
	}
	p := &pkgInfo{fset: token.NewFileSet(), files: map[string]*ast.File{}, vals: map[string]ast.Expr{}, iotas: map[string]int{}}
	ents, err := os.ReadDir(filepath.Join(*repo, dir))
	if err != nil {
		die("read dir %s: %v", dir, err)
	}
	for _, e := range ents {
		n := e.Name()
		if !strings.HasSuffix(n, ".go") || strings.HasSuffix(n, "_test.go") {
			continue
		}
		f, err := parser.ParseFile(p.fset, filepath.Join(*repo, dir, n), nil, parser.ParseComments)
		if err != nil {
			die("parse %s: %v", n, err)
		}
		p.files[n] = f
		for _, d := range f.Decls {
			gd, ok := d.(*ast.GenDecl)
			if !ok || (gd.Tok != token.CONST && gd.Tok != token.VAR) {
				continue
			}
			var last []ast.Expr
			for i, s := range gd.Specs {
				vs := s.(*ast.ValueSpec)
				vals := vs.Values
				if len(vals) == 0 && gd.Tok == token.CONST {
					vals = last
				} else {
					last = vals
				}
				for j, nm := range vs.Names {
					if j < len(vals) {
						p.vals[nm.Name] = vals[j]
						p.iotas[nm.Name] = i
					}
				}
			}
		}
	}
	pkgs[dir] = p
	return p
}

func die(f string, a ...any) {
	fmt.Fprintf(os.Stderr, "gogen: "+f+"\n", a...)
	os.Exit(2)
}

// ---------------------------------------------------------------- constant evaluation

type cval struct {
	r     *big.Rat
	isInt bool
	s     string
	isStr bool
}

var timeConsts = map[string]int64{
	"Nanosecond": 1, "Microsecond": 1000, "Millisecond": 1000000, "Second": 1000000000,
	"Minute": 60000000000, "Hour": 3600000000000,
}

var httpConsts = map[string]int64{
	"StatusOK": 200, "StatusBadRequest": 400, "StatusUnauthorized": 401, "StatusForbidden": 403, "StatusNotFound": 404,
	"StatusMethodNotAllowed": 405, "StatusRequestEntityTooLarge": 413, "StatusInternalServerError": 500,
	"StatusServiceUnavailable": 503, "StatusNotAcceptable": 406, "StatusTooManyRequests": 429, "StatusGatewayTimeout": 504,
}

func evalConst(p *pkgInfo, e ast.Expr, iota int, depth int) cval {
	if depth > 50 {
		die("constant recursion too deep")
	}
	switch x := e.(type) {
	case *ast.BasicLit:
		switch x.Kind {
		case token.INT:
			n, ok := new(big.Int).SetString(strings.ReplaceAll(x.Value, "_", ""), 0)
			if !ok {
				die("bad int %s", x.Value)
			}
			return cval{r: new(big.Rat).SetInt(n), isInt: true}
		case token.FLOAT:
			r, ok := new(big.Rat).SetString(strings.ReplaceAll(x.Value, "_", ""))
			if !ok {
				die("bad float %s", x.Value)
			}
			return cval{r: r}
		case token.STRING:
			s, err := strconv.Unquote(x.Value)
			if err != nil {
				die("bad string %s", x.Value)
			}
			return cval{s: s, isStr: true}
		case token.CHAR:
			s, err := strconv.Unquote(x.Value)
			if err != nil {
				die("bad char %s", x.Value)
			}
			return cval{r: new(big.Rat).SetInt64(int64([]rune(s)[0])), isInt: true}
		}
	case *ast.ParenExpr:
		return evalConst(p, x.X, iota, depth+1)
	case *ast.Ident:
		if x.Name == "iota" {
			return cval{r: new(big.Rat).SetInt64(int64(iota)), isInt: true}
		}
		if v, ok := p.vals[x.Name]; ok {
			return evalConst(p, v, p.iotas[x.Name], depth+1)
		}
		die("unknown identifier %s in constant expression", x.Name)
	case *ast.SelectorExpr:
		if id, ok := x.X.(*ast.Ident); ok {
			if id.Name == "time" {
				if v, ok := timeConsts[x.Sel.Name]; ok {
					return cval{r: new(big.Rat).SetInt64(v), isInt: true}
				}
			}
			if id.Name == "http" {
				if v, ok := httpConsts[x.Sel.Name]; ok {
					return cval{r: new(big.Rat).SetInt64(v), isInt: true}
				}
			}
			if id.Name == "math" && x.Sel.Name == "MaxInt64" {
				return cval{r: new(big.Rat).SetInt64(1<<63 - 1), isInt: true}
			}
		}
		die("unsupported selector %s in constant expression", exprStr(x))
	case *ast.UnaryExpr:
		v := evalConst(p, x.X, iota, depth+1)
		switch x.Op {
		case token.SUB:
			return cval{r: new(big.Rat).Neg(v.r), isInt: v.isInt}
		case token.ADD:
			return v
		}
	case *ast.CallExpr:
		// conversions float64(x), time.Duration(x), int64(x) ...
		if len(x.Args) == 1 {
			fn := exprStr(x.Fun)
			v := evalConst(p, x.Args[0], iota, depth+1)
			switch fn {
			case "float64", "float32":
				return cval{r: v.r}
			case "int", "int64", "int32", "uint64", "uint32", "uint", "time.Duration":
				if !v.r.IsInt() {
					die("non-integer converted to %s", fn)
				}
				return cval{r: v.r, isInt: true}
			}
		}
		die("unsupported call %s in constant expression", exprStr(x))
	case *ast.BinaryExpr:
		a := evalConst(p, x.X, iota, depth+1)
		b := evalConst(p, x.Y, iota, depth+1)
		if a.isStr && b.isStr && x.Op == token.ADD {
			return cval{s: a.s + b.s, isStr: true}
		}
		if a.isStr || b.isStr {
			die("string in arithmetic")
		}
		both := a.isInt && b.isInt
		switch x.Op {
		case token.ADD:
			return cval{r: new(big.Rat).Add(a.r, b.r), isInt: both}
		case token.SUB:
			return cval{r: new(big.Rat).Sub(a.r, b.r), isInt: both}
		case token.MUL:
			return cval{r: new(big.Rat).Mul(a.r, b.r), isInt: both}
		case token.QUO:
			if b.r.Sign() == 0 {
				die("division by zero")
			}
			if both {
				q := new(big.Int).Quo(a.r.Num(), b.r.Num())
				return cval{r: new(big.Rat).SetInt(q), isInt: true}
			}
			return cval{r: new(big.Rat).Quo(a.r, b.r)}
		case token.REM:
			if both {
				q := new(big.Int).Rem(a.r.Num(), b.r.Num())
				return cval{r: new(big.Rat).SetInt(q), isInt: true}
			}
		case token.SHL:
			if both {
				q := new(big.Int).Lsh(a.r.Num(), uint(b.r.Num().Int64()))
				return cval{r: new(big.Rat).SetInt(q), isInt: true}
			}
		}
	}
	die("unsupported constant expression %s", exprStr(e))
	return cval{}
}

func exprStr(e ast.Expr) string {
	switch x := e.(type) {
	case *ast.Ident:
		return x.Name
	case *ast.SelectorExpr:
		return exprStr(x.X) + "." + x.Sel.Name
	case *ast.BasicLit:
		return x.Value
	case *ast.CallExpr:
		a := []string{}
		for _, y := range x.Args {
			a = append(a, exprStr(y))
		}
		return exprStr(x.Fun) + "(" + strings.Join(a, ",") + ")"
	case *ast.ParenExpr:
		return "(" + exprStr(x.X) + ")"
	case *ast.BinaryExpr:
		return exprStr(x.X) + x.Op.String() + exprStr(x.Y)
	case *ast.UnaryExpr:
		return x.Op.String() + exprStr(x.X)
	case *ast.StarExpr:
		return "*" + exprStr(x.X)
	case *ast.IndexExpr:
		return exprStr(x.X) + "[" + exprStr(x.Index) + "]"
	case *ast.FuncLit:
		return "func"
	case *ast.CompositeLit:
		return "lit"
	}
	return fmt.Sprintf("<%T>", e)
}

func coqString(s string) string {
	var b strings.Builder
	b.WriteString("\"")
	for _, c := range []byte(s) {
		if c == '"' {
			b.WriteString("\"\"")
		} else if c >= 32 && c < 127 {
			b.WriteByte(c)
		} else if c == '\n' {
			b.WriteString("\\n")
		} else if c == '\t' {
			b.WriteString("\\t")
		} else {
			fmt.Fprintf(&b, "\\x%02x", c)
		}
	}
	b.WriteString("\"%string")
	return b.String()
}

func coqZ(n *big.Int) string { return "(" + n.String() + ")%Z" }

// ---------------------------------------------------------------- GoLite functions

type fnTr struct {
	p      *pkgInfo
	it     Item
	recv   string
	extra  []string // receiver fields used, in order of first use
	seen   map[string]bool
	bools  map[string]bool
	locals map[string]bool
	named  []string
}

func findFunc(p *pkgInfo, file, name string) *ast.FuncDecl {
	for fn, f := range p.files {
		if file != "" && fn != file {
			continue
		}
		for _, d := range f.Decls {
			if fd, ok := d.(*ast.FuncDecl); ok && fd.Name.Name == name {
				return fd
			}
		}
	}
	// methods may be asked as Type.method
	if i := strings.Index(name, "."); i > 0 {
		tn, mn := name[:i], name[i+1:]
		for fn, f := range p.files {
			if file != "" && fn != file {
				continue
			}
			for _, d := range f.Decls {
				if fd, ok := d.(*ast.FuncDecl); ok && fd.Name.Name == mn && fd.Recv != nil && len(fd.Recv.List) == 1 {
					t := exprStr(fd.Recv.List[0].Type)
					t = strings.TrimPrefix(t, "*")
					if t == tn {
						return fd
					}
				}
			}
		}
	}
	die("function %s not found in %s", name, file)
	return nil
}

func (t *fnTr) isBoolType(e ast.Expr) bool { return exprStr(e) == "bool" }

func (t *fnTr) expr(e ast.Expr) string {
	switch x := e.(type) {
	case *ast.BasicLit:
		v := evalConst(t.p, x, 0, 0)
		if v.isStr {
			return coqString(v.s)
		}
		if !v.r.IsInt() {
			die("non-integer literal %s in GoLite function %s", x.Value, t.it.Name)
		}
		return coqZ(v.r.Num())
	case *ast.ParenExpr:
		return t.expr(x.X)
	case *ast.Ident:
		switch x.Name {
		case "true", "false":
			return x.Name
		case "nil":
			return "go_nil"
		}
		if t.locals[x.Name] {
			return "v_" + x.Name
		}
		if _, ok := t.p.vals[x.Name]; ok {
			v := evalConst(t.p, x, 0, 0)
			if v.isStr {
				return coqString(v.s)
			}
			if v.r.IsInt() {
				return coqZ(v.r.Num())
			}
			die("non-integer constant %s used in GoLite function %s", x.Name, t.it.Name)
		}
		return "ext_" + x.Name
	case *ast.SelectorExpr:
		if id, ok := x.X.(*ast.Ident); ok {
			if id.Name == t.recv && t.recv != "" {
				n := "f_" + x.Sel.Name
				if !t.seen[n] {
					t.seen[n] = true
					t.extra = append(t.extra, n)
				}
				return n
			}
			if id.Name == "time" {
				if v, ok := timeConsts[x.Sel.Name]; ok {
					return coqZ(big.NewInt(v))
				}
			}
			if id.Name == "http" {
				if v, ok := httpConsts[x.Sel.Name]; ok {
					return coqZ(big.NewInt(v))
				}
			}
			return id.Name + "_" + x.Sel.Name
		}
		die("unsupported selector %s in %s", exprStr(x), t.it.Name)
	case *ast.UnaryExpr:
		switch x.Op {
		case token.NOT:
			return "(negb " + t.expr(x.X) + ")"
		case token.SUB:
			return "(Z.opp " + t.expr(x.X) + ")"
		}
	case *ast.CallExpr:
		fn := exprStr(x.Fun)
		switch fn {
		case "int", "int64", "int32", "time.Duration":
			if len(x.Args) == 1 {
				return t.expr(x.Args[0])
			}
		}
		if c, ok := t.it.Calls[fn]; ok {
			parts := []string{c}
			for _, a := range x.Args {
				parts = append(parts, t.expr(a))
			}
			return "(" + strings.Join(parts, " ") + ")"
		}
		die("unsupported call %s in %s", fn, t.it.Name)
	case *ast.BinaryExpr:
		a, b := t.expr(x.X), t.expr(x.Y)
		switch x.Op {
		case token.ADD:
			return "(" + a + " + " + b + ")%Z"
		case token.SUB:
			return "(" + a + " - " + b + ")%Z"
		case token.MUL:
			return "(" + a + " * " + b + ")%Z"
		case token.QUO:
			return "(Z.quot " + a + " " + b + ")"
		case token.REM:
			return "(Z.rem " + a + " " + b + ")"
		case token.LSS:
			return "(" + a + " <? " + b + ")%Z"
		case token.LEQ:
			return "(" + a + " <=? " + b + ")%Z"
		case token.GTR:
			return "(" + a + " >? " + b + ")%Z"
		case token.GEQ:
			return "(" + a + " >=? " + b + ")%Z"
		case token.EQL:
			return "(go_eqb " + a + " " + b + ")"
		case token.NEQ:
			return "(negb (go_eqb " + a + " " + b + "))"
		case token.LAND:
			return "(" + a + " && " + b + ")%bool"
		case token.LOR:
			return "(" + a + " || " + b + ")%bool"
		}
	}
	die("unsupported expression %s in %s", exprStr(e), t.it.Name)
	return ""
}

// stmts translates a statement list in continuation style; `rest` is what follows the list
// (nil = falls off the end, an error for value-returning functions).
func (t *fnTr) stmts(ss []ast.Stmt, rest func() string) string {
	if len(ss) == 0 {
		if rest == nil {
			die("control falls off the end of %s", t.it.Name)
		}
		return rest()
	}
	s := ss[0]
	tail := func() string { return t.stmts(ss[1:], rest) }
	switch x := s.(type) {
	case *ast.ReturnStmt:
		if len(x.Results) == 1 {
			return t.expr(x.Results[0])
		}
		if len(x.Results) == 0 && len(t.named) > 0 {
			parts := []string{}
			for _, n := range t.named {
				parts = append(parts, "v_"+n)
			}
			if len(parts) == 1 {
				return parts[0]
			}
			return "(" + strings.Join(parts, ", ") + ")"
		}
		parts := []string{}
		for _, r := range x.Results {
			parts = append(parts, t.expr(r))
		}
		return "(" + strings.Join(parts, ", ") + ")"
	case *ast.AssignStmt:
		if len(x.Lhs) == 1 && len(x.Rhs) == 1 {
			id, ok := x.Lhs[0].(*ast.Ident)
			if ok {
				var rhs string
				switch x.Tok {
				case token.DEFINE, token.ASSIGN:
					rhs = t.expr(x.Rhs[0])
				case token.ADD_ASSIGN:
					rhs = "(" + t.expr(id) + " + " + t.expr(x.Rhs[0]) + ")%Z"
				case token.SUB_ASSIGN:
					rhs = "(" + t.expr(id) + " - " + t.expr(x.Rhs[0]) + ")%Z"
				default:
					die("unsupported assignment op in %s", t.it.Name)
				}
				t.locals[id.Name] = true
				return "(let v_" + id.Name + " := " + rhs + " in " + tail() + ")"
			}
		}
		die("unsupported assignment in %s", t.it.Name)
	case *ast.IfStmt:
		if x.Init != nil {
			return t.stmts(append([]ast.Stmt{x.Init, &ast.IfStmt{Cond: x.Cond, Body: x.Body, Else: x.Else}}, ss[1:]...), rest)
		}
		c := t.expr(x.Cond)
		// locals assigned inside branches do not escape in our fragment unless they were
		// declared before; re-assignment inside a branch followed by code after the if is
		// handled by duplicating the continuation into both branches.
		saved := copyMap(t.locals)
		th := t.stmts(x.Body.List, tail)
		t.locals = copyMap(saved)
		var el string
		if x.Else == nil {
			el = tail()
		} else if blk, ok := x.Else.(*ast.BlockStmt); ok {
			el = t.stmts(blk.List, tail)
		} else {
			el = t.stmts([]ast.Stmt{x.Else}, tail)
		}
		t.locals = saved
		return "(if " + c + " then " + th + " else " + el + ")"
	case *ast.SwitchStmt:
		if x.Init != nil {
			die("switch init unsupported in %s", t.it.Name)
		}
		var tag string
		if x.Tag != nil {
			tag = t.expr(x.Tag)
		}
		var def []ast.Stmt
		hasDef := false
		type arm struct {
			cond string
			body []ast.Stmt
		}
		arms := []arm{}
		for _, c := range x.Body.List {
			cc := c.(*ast.CaseClause)
			if cc.List == nil {
				def = cc.Body
				hasDef = true
				continue
			}
			conds := []string{}
			for _, e := range cc.List {
				if x.Tag != nil {
					conds = append(conds, "(go_eqb "+tag+" "+t.expr(e)+")")
				} else {
					conds = append(conds, t.expr(e))
				}
			}
			arms = append(arms, arm{"(" + strings.Join(conds, " || ") + ")%bool", cc.Body})
		}
		out := ""
		if hasDef {
			out = t.stmts(def, tail)
		} else {
			out = tail()
		}
		for i := len(arms) - 1; i >= 0; i-- {
			saved := copyMap(t.locals)
			b := t.stmts(arms[i].body, tail)
			t.locals = saved
			out = "(if " + arms[i].cond + " then " + b + " else " + out + ")"
		}
		return out
	case *ast.BlockStmt:
		return t.stmts(append(append([]ast.Stmt{}, x.List...), ss[1:]...), rest)
	case *ast.DeclStmt:
		gd := x.Decl.(*ast.GenDecl)
		if gd.Tok == token.VAR && len(gd.Specs) == 1 {
			vs := gd.Specs[0].(*ast.ValueSpec)
			if len(vs.Names) == 1 {
				rhs := "0%Z"
				if len(vs.Values) == 1 {
					rhs = t.expr(vs.Values[0])
				} else if vs.Type != nil && t.isBoolType(vs.Type) {
					rhs = "false"
				}
				t.locals[vs.Names[0].Name] = true
				return "(let v_" + vs.Names[0].Name + " := " + rhs + " in " + tail() + ")"
			}
		}
	}
	die("unsupported statement %T in %s", s, t.it.Name)
	return ""
}

func copyMap(m map[string]bool) map[string]bool {
	o := map[string]bool{}
	for k, v := range m {
		o[k] = v
	}
	return o
}

func coqType(e ast.Expr, bools map[string]bool, name string) string {
	if e != nil && exprStr(e) == "bool" {
		return "bool"
	}
	if bools[name] {
		return "bool"
	}
	if e != nil {
		switch exprStr(e) {
		case "string":
			return "string"
		case "error", "any":
			return "go_value"
		}
	}
	return "Z"
}

func trFunc(p *pkgInfo, it Item, w io.Writer) {
	fd := findFunc(p, filepath.Base(it.File), it.Name)
	t := &fnTr{p: p, it: it, seen: map[string]bool{}, bools: map[string]bool{}, locals: map[string]bool{}}
	for _, b := range it.Bools {
		t.bools[b] = true
	}
	if fd.Recv != nil && len(fd.Recv.List) == 1 && len(fd.Recv.List[0].Names) == 1 {
		t.recv = fd.Recv.List[0].Names[0].Name
	}
	params := []string{}
	for _, f := range fd.Type.Params.List {
		for _, n := range f.Names {
			t.locals[n.Name] = true
			params = append(params, fmt.Sprintf("(v_%s : %s)", n.Name, coqType(f.Type, t.bools, n.Name)))
		}
	}
	// named results act as zero-initialised locals
	pre := ""
	post := ""
	if fd.Type.Results != nil {
		for _, f := range fd.Type.Results.List {
			for _, n := range f.Names {
				t.named = append(t.named, n.Name)
				t.locals[n.Name] = true
				z := "0%Z"
				if t.isBoolType(f.Type) {
					z = "false"
				}
				pre += "(let v_" + n.Name + " := " + z + " in "
				post += ")"
			}
		}
	}
	body := pre + t.stmts(fd.Body.List, nil) + post
	extra := []string{}
	for _, e := range t.extra {
		extra = append(extra, fmt.Sprintf("(%s : %s)", e, coqType(nil, t.bools, e)))
	}
	as := it.As
	if as == "" {
		as = strings.ReplaceAll(it.Name, ".", "_")
	}
	fmt.Fprintf(w, "(* GoLite translation of %s in %s *)\nDefinition %s %s :=\n  %s.\n\n", it.Name, it.File, as,
		strings.Join(append(extra, params...), " "), body)
}

// ---------------------------------------------------------------- tables

func funcBody(p *pkgInfo, it Item) *ast.FuncDecl { return findFunc(p, filepath.Base(it.File), it.Func) }

func trChain(p *pkgInfo, it Item, w io.Writer) {
	fd := funcBody(p, it)
	var found *ast.CallExpr
	ast.Inspect(fd.Body, func(n ast.Node) bool {
		if ce, ok := n.(*ast.CallExpr); ok && found == nil && exprStr(ce.Fun) == it.Call {
			found = ce
			return false
		}
		return true
	})
	if found == nil {
		die("call %s not found in %s", it.Call, it.Func)
	}
	names := []string{}
	for _, a := range found.Args {
		names = append(names, headName(a))
	}
	writeStrList(w, it, names, fmt.Sprintf("arguments of %s(...) in %s", it.Call, it.Func))
}

// headName gives a stable short name for a middleware/interceptor expression:
// handler.TracingHandler(a,b) -> handler.TracingHandler ; x.y -> x.y
func headName(e ast.Expr) string {
	switch x := e.(type) {
	case *ast.CallExpr:
		return headName(x.Fun)
	default:
		return exprStr(e)
	}
}

func trCalls(p *pkgInfo, it Item, w io.Writer) {
	fd := funcBody(p, it)
	names := []string{}
	var walk func(n ast.Node)
	walk = func(n ast.Node) {
		ast.Inspect(n, func(n ast.Node) bool {
			switch x := n.(type) {
			case *ast.DeferStmt:
				names = append(names, "defer:"+headName(x.Call.Fun))
				for _, a := range x.Call.Args {
					walk(a)
				}
				if fl, ok := x.Call.Fun.(*ast.FuncLit); ok {
					names = append(names, "{")
					walk(fl.Body)
					names = append(names, "}")
				}
				return false
			case *ast.GoStmt:
				names = append(names, "go:"+headName(x.Call.Fun))
				if fl, ok := x.Call.Fun.(*ast.FuncLit); ok {
					names = append(names, "{")
					walk(fl.Body)
					names = append(names, "}")
				}
				return false
			case *ast.CallExpr:
				// arguments first (evaluation order), then the call
				for _, a := range x.Args {
					walk(a)
				}
				if _, ok := x.Fun.(*ast.FuncLit); !ok {
					names = append(names, headName(x.Fun))
				} else {
					walk(x.Fun)
				}
				return false
			case *ast.SendStmt:
				walk(x.Value)
				names = append(names, "send:"+exprStr(x.Chan))
				return false
			case *ast.UnaryExpr:
				if x.Op == token.ARROW {
					names = append(names, "recv:"+exprStr(x.X))
					return false
				}
			case *ast.SelectStmt:
				names = append(names, "select")
			case *ast.CommClause:
				if x.Comm == nil {
					names = append(names, "default:")
				} else {
					names = append(names, "case:")
				}
			case *ast.ReturnStmt:
				for _, r := range x.Results {
					walk(r)
				}
				names = append(names, "return")
				return false
			}
			return true
		})
	}
	walk(fd.Body)
	writeStrList(w, it, names, "synchronisation/call skeleton of "+it.Func)
}

func trCases(p *pkgInfo, it Item, w io.Writer) {
	fd := funcBody(p, it)
	var sw *ast.SwitchStmt
	ast.Inspect(fd.Body, func(n ast.Node) bool {
		if s, ok := n.(*ast.SwitchStmt); ok && sw == nil {
			sw = s
			return false
		}
		return true
	})
	if sw == nil {
		die("no switch in %s", it.Func)
	}
	fmt.Fprintf(w, "(* case clauses of the first switch in %s (%s) *)\nDefinition %s : list (list string * string) := [\n", it.Func, it.File, it.As)
	rows := []string{}
	for _, c := range sw.Body.List {
		cc := c.(*ast.CaseClause)
		names := []string{}
		for _, e := range cc.List {
			names = append(names, coqString(exprStr(e)))
		}
		res := "?"
		if len(cc.Body) == 1 {
			if r, ok := cc.Body[0].(*ast.ReturnStmt); ok && len(r.Results) == 1 {
				res = exprStr(r.Results[0])
			}
		}
		rows = append(rows, fmt.Sprintf("  ([%s], %s)", strings.Join(names, "; "), coqString(res)))
	}
	fmt.Fprintf(w, "%s\n].\n\n", strings.Join(rows, ";\n"))
}

func trStrs(p *pkgInfo, it Item, w io.Writer) {
	v, ok := p.vals[it.Name]
	if !ok {
		die("value %s not found", it.Name)
	}
	cl, ok := v.(*ast.CompositeLit)
	if !ok {
		die("%s is not a composite literal", it.Name)
	}
	names := []string{}
	for _, e := range cl.Elts {
		if kv, ok := e.(*ast.KeyValueExpr); ok {
			e = kv.Key
		}
		if bl, ok := e.(*ast.BasicLit); ok && bl.Kind == token.STRING {
			s, _ := strconv.Unquote(bl.Value)
			names = append(names, s)
		} else {
			names = append(names, exprStr(e))
		}
	}
	if it.Typ == "sorted" {
		sort.Strings(names)
	}
	writeStrList(w, it, names, "elements of "+it.Name)
}

func writeStrList(w io.Writer, it Item, names []string, what string) {
	q := []string{}
	for _, n := range names {
		q = append(q, coqString(n))
	}
	fmt.Fprintf(w, "(* %s (%s) *)\nDefinition %s : list string := [\n  %s\n].\n\n", what, it.File, it.As, strings.Join(q, ";\n  "))
}

func main() {
	flag.Parse()
	var req Req
	data, err := io.ReadAll(os.Stdin)
	if err != nil {
		die("stdin: %v", err)
	}
	if err := json.Unmarshal(data, &req); err != nil {
		die("request: %v", err)
	}
	w := &strings.Builder{}
	fmt.Fprintf(w, "(* GENERATED by verif/gogen from %s's current working tree. Do not edit. *)\n", "/repo")
	fmt.Fprintf(w, "From Coq Require Import ZArith QArith String List Bool.\nImport ListNotations.\nLocal Open Scope Z_scope.\n")
	for _, im := range req.Imports {
		fmt.Fprintf(w, "%s\n", im)
	}
	fmt.Fprintln(w)
	for _, it := range req.Items {
		p := loadPkg(filepath.Dir(it.File))
		switch it.Kind {
		case "const":
			v, ok := p.vals[it.Name]
			if !ok {
				die("constant %s not found in %s", it.Name, filepath.Dir(it.File))
			}
			cv := evalConst(p, v, p.iotas[it.Name], 0)
			as := it.As
			if as == "" {
				as = it.Name
			}
			fmt.Fprintf(w, "(* %s in %s *)\n", it.Name, filepath.Dir(it.File))
			if cv.isStr {
				fmt.Fprintf(w, "Definition %s : string := %s.\n\n", as, coqString(cv.s))
			} else if cv.r.IsInt() && it.Typ != "Q" {
				fmt.Fprintf(w, "Definition %s : Z := %s.\n\n", as, coqZ(cv.r.Num()))
			} else {
				fmt.Fprintf(w, "Definition %s : Q := (%s # %s)%%Q.\n\n", as, cv.r.Num().String(), cv.r.Denom().String())
			}
		case "func":
			trFunc(p, it, w)
		case "chain":
			trChain(p, it, w)
		case "calls":
			trCalls(p, it, w)
		case "cases":
			trCases(p, it, w)
		case "strs":
			trStrs(p, it, w)
		default:
			die("unknown item kind %s", it.Kind)
		}
	}
	fmt.Print(w.String())
}
