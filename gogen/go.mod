module gogen

go 1.19
