// c12gen: translator for property C12 (tie 1).  Parses the CURRENT lib/store/redis/redis.go and
// lib/store/kv/store.go of the repository and prints GodGen.C12_Table: one row per method of
// *redis.Redis and kv.kvStore, in the vocabulary of coq/theories/C12/Table.v.
//
// A method whose body it cannot classify becomes an `Unknown "<reason>"` row (never a crash), which
// makes the table differ from the documented one => broken obligation c12_table_ok.
//
// stdlib only.  usage: c12gen -repo /path/to/repo > coq/gen/C12_Table.v
package main

import (
	"bytes"
	"flag"
	"fmt"
	"go/ast"
	"go/parser"
	"go/printer"
	"go/scanner"
	"go/token"
	"os"
	"path/filepath"
	"strconv"
	"strings"
)

var repo = flag.String("repo", "/repo", "repository root")

type param struct {
	name, typ string
	variadic  bool
}

type env struct {
	fset    *token.FileSet
	params  []param        // parameters after ctx (Ctx methods) or all parameters (plain methods)
	idx     map[string]int // name -> position
	ctxName string         // name of the context parameter ("" if none)
	elem    string         // loop variable (kv DelCtx)
	locals  map[string][]ast.Stmt
	consts  map[string]bool
	recv    string
}

// ---------------------------------------------------------------------------------- Coq output
func cstr(s string) string {
	var b strings.Builder
	b.WriteByte('"')
	for _, r := range s {
		switch {
		case r == '"':
			b.WriteString(`""`)
		case r >= 32 && r < 127:
			b.WriteRune(r)
		default:
			fmt.Fprintf(&b, "\\u%04X", r)
		}
	}
	b.WriteByte('"')
	return b.String()
}

func clist(xs []string) string { return "[" + strings.Join(xs, "; ") + "]" }

func cstrs(xs []string) string {
	out := make([]string, len(xs))
	for i, x := range xs {
		out[i] = cstr(x)
	}
	return clist(out)
}

// ------------------------------------------------------------------------------ canonical text
// canon prints a node, then re-tokenises it: tokens separated by one blank, parameters renamed to
// p0,p1,..., the ctx parameter to ctx, `sub` (if non-empty) to `$`.
func (e *env) canon(n ast.Node, sub string) string {
	var buf bytes.Buffer
	if err := printer.Fprint(&buf, e.fset, n); err != nil {
		return "<unprintable>"
	}
	var s scanner.Scanner
	fs := token.NewFileSet()
	src := buf.Bytes()
	f := fs.AddFile("", fs.Base(), len(src))
	s.Init(f, src, nil, 0)
	var toks []string
	prevDot := false
	for {
		_, tok, lit := s.Scan()
		if tok == token.EOF {
			break
		}
		if tok == token.SEMICOLON && lit == "\n" {
			toks = append(toks, ";")
			prevDot = false
			continue
		}
		t := lit
		if t == "" {
			t = tok.String()
		}
		if tok == token.IDENT && !prevDot {
			if sub != "" && t == sub {
				t = "$"
			} else if i, ok := e.idx[t]; ok {
				t = "p" + strconv.Itoa(i)
			} else if t == e.ctxName && t != "" {
				t = "ctx"
			}
		}
		prevDot = tok == token.PERIOD
		toks = append(toks, t)
	}
	for len(toks) > 0 && toks[len(toks)-1] == ";" {
		toks = toks[:len(toks)-1]
	}
	// selector dots are glued ("r.Addr"): a ". " inside a Coq string literal confuses coqdep's sentence lexer
	return strings.ReplaceAll(strings.Join(toks, " "), " . ", ".")
}

// --------------------------------------------------------------------------------- small matchers
func ident(e ast.Expr) string {
	if id, ok := e.(*ast.Ident); ok {
		return id.Name
	}
	return ""
}

func sel(e ast.Expr) (string, string) { // x.y with x an identifier
	if s, ok := e.(*ast.SelectorExpr); ok {
		if x := ident(s.X); x != "" {
			return x, s.Sel.Name
		}
	}
	return "", ""
}

func isSel(e ast.Expr, x, y string) bool { a, b := sel(e); return a == x && b == y }

func unparen(e ast.Expr) ast.Expr {
	for {
		p, ok := e.(*ast.ParenExpr)
		if !ok {
			return e
		}
		e = p.X
	}
}

func isZeroLit(e ast.Expr) bool {
	switch v := e.(type) {
	case *ast.BasicLit:
		return v.Value == "0" || v.Value == `""`
	case *ast.Ident:
		return v.Name == "nil" || v.Name == "false"
	}
	return false
}

// return <zero>..., <last>
func retZerosThen(s ast.Stmt, last func(ast.Expr) bool) bool {
	r, ok := s.(*ast.ReturnStmt)
	if !ok || len(r.Results) == 0 {
		return false
	}
	for _, z := range r.Results[:len(r.Results)-1] {
		if !isZeroLit(z) {
			return false
		}
	}
	return last(r.Results[len(r.Results)-1])
}

func retOne(s ast.Stmt, name string) bool {
	r, ok := s.(*ast.ReturnStmt)
	return ok && len(r.Results) == 1 && ident(r.Results[0]) == name
}

func bareReturn(s ast.Stmt) bool {
	r, ok := s.(*ast.ReturnStmt)
	return ok && len(r.Results) == 0
}

func binop(e ast.Expr, op token.Token) (ast.Expr, ast.Expr, bool) {
	b, ok := unparen(e).(*ast.BinaryExpr)
	if !ok || b.Op != op {
		return nil, nil, false
	}
	return b.X, b.Y, true
}

// if <errName> != nil { body }   (no init, no else)
func ifErrNotNil(s ast.Stmt, errName string) ([]ast.Stmt, bool) {
	i, ok := s.(*ast.IfStmt)
	if !ok || i.Init != nil || i.Else != nil {
		return nil, false
	}
	x, y, ok := binop(i.Cond, token.NEQ)
	if !ok || ident(x) != errName || ident(y) != "nil" {
		return nil, false
	}
	return i.Body.List, true
}

func callOn(e ast.Expr, recv string) (*ast.CallExpr, string) { // recv.M(...)
	c, ok := e.(*ast.CallExpr)
	if !ok {
		return nil, ""
	}
	x, m := sel(c.Fun)
	if x == recv && m != "" {
		return c, m
	}
	return nil, ""
}

func countCallsOn(n ast.Node, recv string) (cnt int, first *ast.CallExpr) {
	ast.Inspect(n, func(x ast.Node) bool {
		if c, ok := x.(*ast.CallExpr); ok {
			if cc, _ := callOn(c, recv); cc != nil {
				cnt++
				if first == nil {
					first = cc
				}
			}
		}
		return true
	})
	return
}

func mentions(n ast.Node, name string) bool {
	found := false
	ast.Inspect(n, func(x ast.Node) bool {
		if id, ok := x.(*ast.Ident); ok && id.Name == name {
			found = true
		}
		return !found
	})
	return found
}

// -------------------------------------------------------------------------- argument expressions
func (e *env) norm(x ast.Expr) string {
	x = unparen(x)
	switch v := x.(type) {
	case *ast.Ident:
		if v.Name == e.ctxName && v.Name != "" {
			return "Ctx"
		}
		if e.elem != "" && v.Name == e.elem {
			return "Elem"
		}
		if i, ok := e.idx[v.Name]; ok {
			return fmt.Sprintf("P %d", i)
		}
		if st, ok := e.locals[v.Name]; ok {
			return e.loc(v.Name, st)
		}
		if e.consts[v.Name] {
			return "Konst " + cstr(v.Name)
		}
	case *ast.BasicLit:
		return "Lit " + cstr(v.Value)
	case *ast.CallExpr:
		if isSel(v.Fun, "context", "Background") && len(v.Args) == 0 {
			return "Bg"
		}
		if f := ident(v.Fun); len(v.Args) == 1 && !v.Ellipsis.IsValid() {
			switch f {
			case "int64":
				return "I64 (" + e.norm(v.Args[0]) + ")"
			case "float64":
				return "F64 (" + e.norm(v.Args[0]) + ")"
			}
		}
		if isSel(v.Fun, "strconv", "FormatInt") && len(v.Args) == 2 {
			if b, ok := v.Args[1].(*ast.BasicLit); ok && b.Value == "10" {
				return "Itoa (" + e.norm(v.Args[0]) + ")"
			}
		}
		if isSel(v.Fun, "time", "Unix") && len(v.Args) == 2 {
			if b, ok := v.Args[1].(*ast.BasicLit); ok && b.Value == "0" {
				return "UnixS (" + e.norm(v.Args[0]) + ")"
			}
		}
	case *ast.BinaryExpr:
		if v.Op == token.MUL {
			if c, ok := unparen(v.X).(*ast.CallExpr); ok && isSel(c.Fun, "time", "Duration") && len(c.Args) == 1 && isSel(v.Y, "time", "Second") {
				return "DurS (" + e.norm(c.Args[0]) + ")"
			}
			return "Mul (" + e.norm(v.X) + ") (" + e.norm(v.Y) + ")"
		}
	case *ast.UnaryExpr:
		if v.Op == token.AND {
			if cl, ok := v.X.(*ast.CompositeLit); ok {
				if pk, ty := sel(cl.Type); pk == "red" {
					var fs []string
					okAll := true
					for _, el := range cl.Elts {
						kv, ok := el.(*ast.KeyValueExpr)
						if !ok || ident(kv.Key) == "" {
							okAll = false
							break
						}
						fs = append(fs, "("+cstr(ident(kv.Key))+", "+e.norm(kv.Value)+")")
					}
					if okAll {
						return "Rec " + cstr(ty) + " " + clist(fs)
					}
				}
			}
		}
	case *ast.CompositeLit:
		if at, ok := v.Type.(*ast.ArrayType); ok && at.Len == nil && ident(at.Elt) == "string" {
			var xs []string
			for _, el := range v.Elts {
				xs = append(xs, e.norm(el))
			}
			return "Strs " + clist(xs)
		}
	}
	return "Raw " + cstr(e.canon(x, ""))
}

func (e *env) loc(name string, st []ast.Stmt) string {
	var ds []string
	for _, s := range st {
		ds = append(ds, e.canon(s, ""))
	}
	return "Loc " + cstr(name) + " " + cstrs(ds)
}

// arguments of a call; `skipCtx`: the first one must be the ctx parameter and is dropped
func (e *env) args(c *ast.CallExpr, skipCtx bool) ([]string, string) {
	as := c.Args
	if skipCtx {
		if len(as) == 0 || ident(as[0]) != e.ctxName || e.ctxName == "" {
			return nil, "first argument of the go-redis call is not the ctx parameter"
		}
		as = as[1:]
	}
	var out []string
	for i, a := range as {
		if i == len(as)-1 && c.Ellipsis.IsValid() {
			n := ident(a)
			if j, ok := e.idx[n]; ok {
				out = append(out, fmt.Sprintf("PV %d", j))
			} else if st, ok := e.locals[n]; ok && n != "" {
				out = append(out, e.loc(n+"...", st))
			} else {
				out = append(out, "Raw "+cstr(e.canon(a, "")+" ..."))
			}
			continue
		}
		out = append(out, e.norm(a))
	}
	return out, ""
}

// ------------------------------------------------------------------------------------ signatures
func typeStr(fset *token.FileSet, t ast.Expr) string {
	var buf bytes.Buffer
	printer.Fprint(&buf, fset, t)
	return strings.Join(strings.Fields(buf.String()), " ")
}

func flatten(fset *token.FileSet, fl *ast.FieldList) []param {
	var out []param
	if fl == nil {
		return out
	}
	for _, f := range fl.List {
		_, variadic := f.Type.(*ast.Ellipsis)
		ts := typeStr(fset, f.Type)
		if len(f.Names) == 0 {
			out = append(out, param{"", ts, variadic})
		}
		for _, n := range f.Names {
			out = append(out, param{n.Name, ts, variadic})
		}
	}
	return out
}

func newEnv(fset *token.FileSet, fd *ast.FuncDecl, consts map[string]bool, dropCtx bool) (*env, string) {
	ps := flatten(fset, fd.Type.Params)
	e := &env{fset: fset, idx: map[string]int{}, locals: map[string][]ast.Stmt{}, consts: consts}
	if fd.Recv != nil && len(fd.Recv.List) == 1 && len(fd.Recv.List[0].Names) == 1 {
		e.recv = fd.Recv.List[0].Names[0].Name
	}
	if dropCtx {
		if len(ps) == 0 || ps[0].typ != "context.Context" {
			return e, "first parameter is not a context.Context"
		}
		e.ctxName = ps[0].name
		ps = ps[1:]
	}
	e.params = ps
	for i, p := range ps {
		e.idx[p.name] = i
	}
	return e, ""
}

func (e *env) ptypes() string {
	var ts []string
	for _, p := range e.params {
		ts = append(ts, p.typ)
	}
	return cstrs(ts)
}

func resultNames(fd *ast.FuncDecl) []string {
	var out []string
	for _, p := range flatten(token.NewFileSet(), fd.Type.Results) {
		out = append(out, p.name)
	}
	return out
}

// --------------------------------------------------------------------------------- delegation
// body == `return recv.Target(args...)`
func (e *env) delegation(fd *ast.FuncDecl) (target string, args []string, ok bool) {
	if len(fd.Body.List) != 1 {
		return
	}
	r, isRet := fd.Body.List[0].(*ast.ReturnStmt)
	if !isRet || len(r.Results) != 1 {
		return
	}
	c, m := callOn(r.Results[0], e.recv)
	if c == nil {
		return
	}
	as, _ := e.args(c, false)
	return m, as, true
}

// ------------------------------------------------------------------------------- redis Ctx rows
type unknown string

func fail(format string, a ...any) { panic(unknown(fmt.Sprintf(format, a...))) }

func redisCtxRow(fset *token.FileSet, fd *ast.FuncDecl, consts map[string]bool) (row string) {
	name := fd.Name.Name
	defer func() {
		if p := recover(); p != nil {
			if u, ok := p.(unknown); ok {
				row = "Unknown " + cstr(name) + " " + cstr(string(u))
			} else {
				row = "Unknown " + cstr(name) + " " + cstr(fmt.Sprint("translator panic: ", p))
			}
		}
	}()
	e, bad := newEnv(fset, fd, consts, true)
	if bad != "" {
		fail("%s", bad)
	}
	if t, as, ok := e.delegation(fd); ok {
		return fmt.Sprintf("Deleg %s %s %s %s", cstr(name), e.ptypes(), cstr(t), clist(as))
	}
	res := resultNames(fd)

	// ---- breaker wrapping
	body := fd.Body.List
	nbrk := 0
	var brkCall *ast.CallExpr
	ast.Inspect(fd.Body, func(x ast.Node) bool {
		if c, ok := x.(*ast.CallExpr); ok {
			if s, ok := c.Fun.(*ast.SelectorExpr); ok && isSel(s.X, e.recv, "brk") {
				nbrk++
				brkCall = c
			}
		}
		return true
	})
	wrapped := false
	outer := "" // "err=" | "return" | "_="
	core := body
	if nbrk > 1 {
		fail("more than one breaker call")
	}
	if nbrk == 1 {
		if brkCall.Fun.(*ast.SelectorExpr).Sel.Name != "DoWithAcceptable" || len(brkCall.Args) != 2 {
			fail("breaker call is not DoWithAcceptable(req, acceptable): %s", e.canon(brkCall.Fun, ""))
		}
		if ident(brkCall.Args[1]) != "acceptable" {
			fail("second argument of DoWithAcceptable is not `acceptable`: %s", e.canon(brkCall.Args[1], ""))
		}
		fl, ok := brkCall.Args[0].(*ast.FuncLit)
		if !ok || len(flatten(fset, fl.Type.Params)) != 0 || len(fl.Type.Results.List) != 1 || ident(fl.Type.Results.List[0].Type) != "error" {
			fail("first argument of DoWithAcceptable is not a func() error literal")
		}
		switch {
		case len(body) == 1:
			r, ok := body[0].(*ast.ReturnStmt)
			if !ok || len(r.Results) != 1 || r.Results[0] != ast.Expr(brkCall) {
				fail("breaker call is not returned directly")
			}
			outer = "return"
		case len(body) == 2 && bareReturn(body[1]):
			a, ok := body[0].(*ast.AssignStmt)
			if !ok || a.Tok != token.ASSIGN || len(a.Lhs) != 1 || len(a.Rhs) != 1 || a.Rhs[0] != ast.Expr(brkCall) {
				fail("unrecognised statement around the breaker call")
			}
			switch ident(a.Lhs[0]) {
			case "err":
				if len(res) == 0 || res[len(res)-1] != "err" {
					fail("breaker error assigned to err which is not the last named result")
				}
				outer = "err="
			case "_":
				outer = "_="
			default:
				fail("breaker error assigned to %s", e.canon(a.Lhs[0], ""))
			}
		default:
			fail("statements beside the breaker call")
		}
		wrapped = true
		core = fl.Body.List
	}

	// ---- guard
	i := 0
	guard := "NoGuard"
	if wrapped && len(core) > 0 {
		if ifs, ok := core[0].(*ast.IfStmt); ok && ifs.Init == nil && ifs.Else == nil && len(ifs.Body.List) == 1 &&
			retOne(ifs.Body.List[0], "nil") && !mentions(ifs.Cond, "err") {
			if x, y, ok := binop(ifs.Cond, token.LEQ); ok {
				if b, isLit := y.(*ast.BasicLit); isLit && b.Value == "0" {
					guard = "GLe0 (" + e.norm(x) + ")"
				}
			}
			if guard == "NoGuard" {
				guard = "GOther " + cstr(e.canon(ifs.Cond, ""))
			}
			i = 1
		}
	}

	// ---- node source
	nodeName := ""
	nodesrc := ""
	getSwallow := false // Ping: getRedis error => val=false; return nil
	if i < len(core) {
		if a, ok := core[i].(*ast.AssignStmt); ok && a.Tok == token.DEFINE && len(a.Lhs) == 2 && len(a.Rhs) == 1 && ident(a.Lhs[1]) == "err" {
			if c, ok := a.Rhs[0].(*ast.CallExpr); ok && ident(c.Fun) == "getRedis" && len(c.Args) == 1 && ident(c.Args[0]) == e.recv {
				nodeName = ident(a.Lhs[0])
				if i+1 >= len(core) {
					fail("getRedis error not checked")
				}
				b, ok := ifErrNotNil(core[i+1], "err")
				if !ok {
					fail("getRedis error not checked")
				}
				switch {
				case wrapped && len(b) == 1 && retOne(b[0], "err"):
				case !wrapped && len(b) == 1 && retZerosThen(b[0], func(x ast.Expr) bool { return ident(x) == "err" }):
				case wrapped && len(b) == 2 && e.canon(b[0], "") == res[0]+" = false" && retOne(b[1], "nil"):
					getSwallow = true
				default:
					fail("unrecognised getRedis error branch: %s", e.canon(core[i+1], ""))
				}
				nodesrc = "NodeGetRedis"
				i += 2
			}
		}
	}
	if nodeName == "" {
		for j, p := range e.params {
			if p.typ == "Node" {
				nodeName = p.name
				nodesrc = fmt.Sprintf("NodeParam %d", j)
			}
		}
		if nodeName == "" {
			fail("no getRedis(r) and no Node parameter")
		}
		ok := false
		if i < len(core) {
			if ifs, isIf := core[i].(*ast.IfStmt); isIf && ifs.Init == nil && ifs.Else == nil && len(ifs.Body.List) == 1 {
				if x, y, eq := binop(ifs.Cond, token.EQL); eq && ident(x) == nodeName && ident(y) == "nil" &&
					retZerosThen(ifs.Body.List[0], func(x ast.Expr) bool { return ident(x) == "ErrNilNode" }) {
					ok = true
				}
			}
		}
		if !ok {
			fail("Node parameter not checked against nil")
		}
		i++
	}

	// ---- pre statements (locals), command statement, tail
	j := i
	for j < len(core) {
		if n, _ := countCallsOn(core[j], nodeName); n > 0 {
			break
		}
		j++
	}
	if j == len(core) {
		fail("no call on the node")
	}
	for _, s := range core[i:j] {
		// a pre-statement defines/builds locals: remember it under every local name it mentions first
		switch v := s.(type) {
		case *ast.AssignStmt:
			if v.Tok == token.DEFINE {
				for _, l := range v.Lhs {
					if n := ident(l); n != "" && n != "_" {
						e.locals[n] = nil
					}
				}
			}
		case *ast.DeclStmt:
			if gd, ok := v.Decl.(*ast.GenDecl); ok {
				for _, sp := range gd.Specs {
					if vs, ok := sp.(*ast.ValueSpec); ok {
						for _, n := range vs.Names {
							e.locals[n.Name] = nil
						}
					}
				}
			}
		}
		hit := false
		for n := range e.locals {
			if mentions(s, n) {
				e.locals[n] = append(e.locals[n], s)
				hit = true
			}
		}
		if !hit {
			fail("statement before the command that builds no local: %s", e.canon(s, ""))
		}
	}
	cmdStmt, tail := core[j], core[j+1:]
	total := 0
	for _, s := range core[j:] {
		n, _ := countCallsOn(s, nodeName)
		total += n
	}
	if total != 1 {
		fail("%d calls on the node (want 1)", total)
	}
	_, call := countCallsOn(cmdStmt, nodeName)
	_, cmd := callOn(call, nodeName)
	args, bad := e.args(call, true)
	if bad != "" {
		fail("%s", bad)
	}

	// the expression that consumes the call: CMD.Result() / CMD.Err() / CMD
	fetchOf := func(x ast.Expr) string {
		if x == ast.Expr(call) {
			return "bare"
		}
		if c, ok := x.(*ast.CallExpr); ok && len(c.Args) == 0 {
			if s, ok := c.Fun.(*ast.SelectorExpr); ok && s.X == ast.Expr(call) {
				return s.Sel.Name
			}
		}
		return ""
	}
	lhsNames := func(a *ast.AssignStmt) []string {
		var out []string
		for _, l := range a.Lhs {
			out = append(out, ident(l))
		}
		return out
	}
	sameNames := func(a, b []string) bool {
		if len(a) != len(b) {
			return false
		}
		for k := range a {
			if a[k] != b[k] || a[k] == "" {
				return false
			}
		}
		return true
	}
	unrec := func() {
		var ts []string
		for _, s := range core[j:] {
			ts = append(ts, e.canon(s, ""))
		}
		fail("unrecognised result handling: %s", strings.Replace(strings.Join(ts, " ; "), e.canon(call, ""), "CMD", 1))
	}

	conv, nilpol := "", ""
	switch v := cmdStmt.(type) {
	case *ast.ReturnStmt:
		if len(v.Results) != 1 || len(tail) != 0 {
			unrec()
		}
		switch fetchOf(v.Results[0]) {
		case "Err": // shape C: return CMD.Err()
			if !wrapped {
				unrec()
			}
			conv, nilpol = "CNone", "NilReturned"
		case "Result": // shape G: return CMD.Result()   (unwrapped)
			if wrapped {
				unrec()
			}
			conv, nilpol = "CId", "NilReturned"
		default:
			unrec()
		}
	case *ast.AssignStmt:
		if len(v.Rhs) != 1 {
			unrec()
		}
		fetch := fetchOf(v.Rhs[0])
		lhs := lhsNames(v)
		switch {
		case v.Tok == token.ASSIGN && fetch == "Result" && wrapped && sameNames(lhs, res) && len(res) >= 2 && res[len(res)-1] == "err" &&
			len(tail) == 1 && retOne(tail[0], "err"):
			conv, nilpol = "CId", "NilReturned" // shape A
		case v.Tok == token.ASSIGN && (fetch == "Result" || fetch == "bare") && wrapped && len(lhs) == 2 && lhs[0] == "_" && lhs[1] == "err" &&
			len(tail) == 1 && retOne(tail[0], "err"):
			conv, nilpol = "CNone", "NilReturned" // shape D
		case v.Tok == token.DEFINE && fetch == "Result" && wrapped && len(lhs) == 2 && lhs[1] == "err" && lhs[0] != "" && lhs[0] != "_" && len(tail) == 3:
			// shapes B / B'
			b, ok := ifErrNotNil(tail[0], "err")
			if !ok || len(res) != 2 && !(len(res) == 1 && outer == "_=") {
				unrec()
			}
			as, ok2 := tail[1].(*ast.AssignStmt)
			if !ok2 || as.Tok != token.ASSIGN || len(as.Lhs) != 1 || len(as.Rhs) != 1 || ident(as.Lhs[0]) != res[0] || !retOne(tail[2], "nil") {
				unrec()
			}
			switch {
			case len(b) == 1 && retOne(b[0], "err"):
				nilpol = "NilReturned"
			case len(b) == 2 && e.canon(b[0], "") == res[0]+" = false" && retOne(b[1], "nil"):
				nilpol = "AllErrSwallowed"
			default:
				unrec()
			}
			conv = e.convOf(as.Rhs[0], lhs[0])
		case v.Tok == token.DEFINE && fetch == "Result" && !wrapped && len(lhs) == 2 && lhs[1] == "err" && lhs[0] != "" && len(tail) == 3:
			// shape H (BLPop): values, err := CMD.Result(); if err != nil { return "", err };
			//                  if len(values) < 2 { return "", fmt.Errorf(...) }; return values[1], nil
			vn := lhs[0]
			b, ok := ifErrNotNil(tail[0], "err")
			if !ok || len(b) != 1 || !retZerosThen(b[0], func(x ast.Expr) bool { return ident(x) == "err" }) {
				unrec()
			}
			ifs, ok := tail[1].(*ast.IfStmt)
			if !ok || ifs.Init != nil || ifs.Else != nil || len(ifs.Body.List) != 1 || e.canon(ifs.Cond, vn) != "len ( $ ) < 2" ||
				!retZerosThen(ifs.Body.List[0], func(x ast.Expr) bool { c, ok := x.(*ast.CallExpr); return ok && isSel(c.Fun, "fmt", "Errorf") }) {
				unrec()
			}
			switch e.canon(tail[2], vn) {
			case "return $ [ 1 ] , nil":
				conv = "CIdx1"
			case "return $ [ 1 ] , true , nil":
				conv = "CIdx1Ok"
			default:
				unrec()
			}
			nilpol = "NilReturned"
		default:
			unrec()
		}
	case *ast.IfStmt:
		// shapes E / F: if val, err = CMD.Result(); err == red.Nil { return nil } ...
		a, ok := v.Init.(*ast.AssignStmt)
		if !ok || !wrapped || a.Tok != token.ASSIGN || len(a.Rhs) != 1 || fetchOf(a.Rhs[0]) != "Result" || !sameNames(lhsNames(a), res) {
			unrec()
		}
		x, y, eq := binop(v.Cond, token.EQL)
		if !eq || ident(x) != "err" || !isSel(y, "red", "Nil") || len(v.Body.List) != 1 || !retOne(v.Body.List[0], "nil") {
			unrec()
		}
		switch el := v.Else.(type) {
		case nil:
			if len(tail) != 1 || !retOne(tail[0], "err") {
				unrec()
			}
		case *ast.IfStmt:
			x, y, ne := binop(el.Cond, token.NEQ)
			eb, isBlock := el.Else.(*ast.BlockStmt)
			if el.Init != nil || !ne || ident(x) != "err" || ident(y) != "nil" || len(el.Body.List) != 1 || !retOne(el.Body.List[0], "err") ||
				!isBlock || len(eb.List) != 1 || !retOne(eb.List[0], "nil") || len(tail) != 0 {
				unrec()
			}
		default:
			unrec()
		}
		conv, nilpol = "CId", "NilSwallowed"
	default:
		unrec()
	}
	if (nilpol == "AllErrSwallowed") != (outer == "_=") || (nilpol == "AllErrSwallowed") != getSwallow {
		fail("inconsistent error swallowing (outer %q, getRedis branch swallow=%v, command branch %s)", outer, getSwallow, nilpol)
	}
	return fmt.Sprintf("Cmd %s %s (mkcmd %v %s (%s) %s %s (%s) %s)", cstr(name), e.ptypes(),
		wrapped, paren(nodesrc), guard, cstr(cmd), clist(args), conv, nilpol)
}

func paren(s string) string {
	if strings.Contains(s, " ") {
		return "(" + s + ")"
	}
	return s
}

func (e *env) convOf(x ast.Expr, v string) string {
	x = unparen(x)
	if ident(x) == v {
		return "CId"
	}
	switch t := x.(type) {
	case *ast.CallExpr:
		if len(t.Args) == 1 && !t.Ellipsis.IsValid() {
			f := ident(t.Fun)
			a := unparen(t.Args[0])
			if ident(a) == v {
				switch f {
				case "int":
					return "CInt"
				case "int64":
					return "CI64"
				case "toStrings":
					return "CToStrings"
				case "toPairs":
					return "CToPairs"
				}
			}
			if f == "int" {
				if l, r, ok := binop(a, token.QUO); ok && ident(l) == v && isSel(r, "time", "Second") {
					return "CDurSec"
				}
			}
		}
	case *ast.BinaryExpr:
		if ident(t.X) == v {
			if b, ok := t.Y.(*ast.BasicLit); ok {
				switch {
				case t.Op == token.EQL && b.Value == "1":
					return "CEq1"
				case t.Op == token.GEQ && b.Value == "1":
					return "CGe1"
				case t.Op == token.EQL && b.Kind == token.STRING:
					if s, err := strconv.Unquote(b.Value); err == nil {
						return "CEqStr " + cstr(s)
					}
				}
			}
		}
	}
	return "COther " + cstr(e.canon(x, v))
}

// ----------------------------------------------------------------------------- redis plain rows
func plainRow(fset *token.FileSet, fd *ast.FuncDecl, consts map[string]bool) (row string) {
	name := fd.Name.Name
	defer func() {
		if p := recover(); p != nil {
			row = "Unknown " + cstr(name) + " " + cstr(fmt.Sprint("translator panic: ", p))
		}
	}()
	e, _ := newEnv(fset, fd, consts, false)
	if t, as, ok := e.delegation(fd); ok {
		return fmt.Sprintf("Deleg %s %s %s %s", cstr(name), e.ptypes(), cstr(t), clist(as))
	}
	if n, _ := countCallsOn(fd.Body, e.recv); n == 0 && len(e.params) == 0 {
		var ts []string
		for _, s := range fd.Body.List {
			ts = append(ts, e.canon(s, ""))
		}
		return "Other " + cstr(name) + " " + cstr(strings.Join(ts, " ; "))
	}
	return "Unknown " + cstr(name) + " " + cstr("plain method is not `return r.Target(args...)`")
}

// ---------------------------------------------------------------------------------------- kv rows
func kvRow(fset *token.FileSet, fd *ast.FuncDecl) (row string) {
	name := fd.Name.Name
	defer func() {
		if p := recover(); p != nil {
			if u, ok := p.(unknown); ok {
				row = "KVUnknown " + cstr(name) + " " + cstr(string(u))
			} else {
				row = "KVUnknown " + cstr(name) + " " + cstr(fmt.Sprint("translator panic: ", p))
			}
		}
	}()
	isCtx := strings.HasSuffix(name, "Ctx")
	e, bad := newEnv(fset, fd, nil, isCtx)
	if bad != "" {
		fail("%s", bad)
	}
	if t, as, ok := e.delegation(fd); ok {
		return fmt.Sprintf("KVDeleg %s %s %s %s", cstr(name), e.ptypes(), cstr(t), clist(as))
	}
	if !isCtx {
		fail("plain method is not `return s.Target(args...)`")
	}
	body := fd.Body.List
	getNode := func(s ast.Stmt, errName string) (nodeName string, key ast.Expr) {
		a, ok := s.(*ast.AssignStmt)
		if !ok || a.Tok != token.DEFINE || len(a.Lhs) != 2 || len(a.Rhs) != 1 || ident(a.Lhs[1]) != errName {
			fail("first statement is not `node, %s := s.getRedis(key)`: %s", errName, e.canon(s, ""))
		}
		c, m := callOn(a.Rhs[0], e.recv)
		if c == nil || m != "getRedis" || len(c.Args) != 1 {
			fail("node does not come from s.getRedis(key): %s", e.canon(s, ""))
		}
		return ident(a.Lhs[0]), c.Args[0]
	}
	if len(body) == 3 {
		// node, err := s.getRedis(K); if err != nil { return zero..., err }; return node.T(ctx, args...)
		nodeName, key := getNode(body[0], "err")
		b, ok := ifErrNotNil(body[1], "err")
		if !ok || len(b) != 1 || !retZerosThen(b[0], func(x ast.Expr) bool { return ident(x) == "err" }) {
			fail("dispatch error not returned: %s", e.canon(body[1], ""))
		}
		r, ok := body[2].(*ast.ReturnStmt)
		if !ok || len(r.Results) != 1 {
			fail("last statement is not `return node.Target(...)`")
		}
		c, m := callOn(r.Results[0], nodeName)
		if c == nil {
			fail("last statement is not `return node.Target(...)`")
		}
		as, _ := e.args(c, false)
		return fmt.Sprintf("KV %s %s (%s) %s %s", cstr(name), e.ptypes(), e.norm(key), cstr(m), clist(as))
	}
	fail("unrecognised kv method body (%d statements)", len(body))
	return
}

// kvEach recognises DelCtx's loop exactly.
func kvEach(fset *token.FileSet, fd *ast.FuncDecl) (row string, ok bool) {
	defer func() {
		if p := recover(); p != nil {
			ok = false
		}
	}()
	name := fd.Name.Name
	e, bad := newEnv(fset, fd, nil, true)
	if bad != "" {
		return "", false
	}
	body := fd.Body.List
	if len(body) != 4 || e.canon(body[0], "") != "var val int" || e.canon(body[1], "") != "var be errorx.BatchError" ||
		e.canon(body[3], "") != "return val , be.Err ( )" {
		return "", false
	}
	f, isRange := body[2].(*ast.RangeStmt)
	if !isRange || ident(f.Key) != "_" || ident(f.Value) == "" || f.Tok != token.DEFINE {
		return "", false
	}
	over, isParam := e.idx[ident(f.X)]
	if !isParam || !e.params[over].variadic {
		return "", false
	}
	e.elem = ident(f.Value)
	lb := f.Body.List
	if len(lb) != 3 {
		return "", false
	}
	a, isAssign := lb[0].(*ast.AssignStmt)
	if !isAssign || a.Tok != token.DEFINE || len(a.Lhs) != 2 || len(a.Rhs) != 1 || ident(a.Lhs[1]) != "e" {
		return "", false
	}
	nodeName := ident(a.Lhs[0])
	gc, m := callOn(a.Rhs[0], e.recv)
	if gc == nil || m != "getRedis" || len(gc.Args) != 1 {
		return "", false
	}
	b, isIf := ifErrNotNil(lb[1], "e")
	if !isIf || len(b) != 2 || e.canon(b[0], "") != "be.Add ( e )" || e.canon(b[1], "") != "continue" {
		return "", false
	}
	ifs, isIf2 := lb[2].(*ast.IfStmt)
	if !isIf2 {
		return "", false
	}
	ia, isAssign2 := ifs.Init.(*ast.AssignStmt)
	if !isAssign2 || ia.Tok != token.DEFINE || len(ia.Lhs) != 2 || ident(ia.Lhs[0]) != "v" || ident(ia.Lhs[1]) != "e" || len(ia.Rhs) != 1 {
		return "", false
	}
	c, target := callOn(ia.Rhs[0], nodeName)
	if c == nil {
		return "", false
	}
	x, y, ne := binop(ifs.Cond, token.NEQ)
	eb, isBlock := ifs.Else.(*ast.BlockStmt)
	if !ne || ident(x) != "e" || ident(y) != "nil" || len(ifs.Body.List) != 1 || e.canon(ifs.Body.List[0], "") != "be.Add ( e )" ||
		!isBlock || len(eb.List) != 1 || e.canon(eb.List[0], "") != "val += v" {
		return "", false
	}
	as, _ := e.args(c, false)
	return fmt.Sprintf("KVEach %s %s %d (%s) %s %s", cstr(name), e.ptypes(), over, e.norm(gc.Args[0]), cstr(target), clist(as)), true
}

// ------------------------------------------------------------------- client managers, script cache
// clientRow: `val, err := <manager>.Get(<key>, func() (io.Closer, error) { ... client := red.<Ctor>(<arg>) ...
// client.AddHook(h) ... return client, nil })`.  fresh = the constructor's argument is a composite literal
// `&red.<Ty>{...}` written at the call site (so every client owns the options it was created with).
func clientRow(fset *token.FileSet, fd *ast.FuncDecl) (row string) {
	name := fd.Name.Name
	defer func() {
		if p := recover(); p != nil {
			if u, ok := p.(unknown); ok {
				row = "ClientUnknown " + cstr(name) + " " + cstr(string(u))
			} else {
				row = "ClientUnknown " + cstr(name) + " " + cstr(fmt.Sprint("translator panic: ", p))
			}
		}
	}()
	e := &env{fset: fset, idx: map[string]int{}, locals: map[string][]ast.Stmt{}}
	var get *ast.CallExpr
	ngets := 0
	ast.Inspect(fd.Body, func(x ast.Node) bool {
		if c, ok := x.(*ast.CallExpr); ok {
			if s, ok := c.Fun.(*ast.SelectorExpr); ok && s.Sel.Name == "Get" && strings.HasSuffix(ident(s.X), "Manager") {
				get = c
				ngets++
			}
		}
		return true
	})
	if ngets != 1 || len(get.Args) != 2 {
		fail("no single <manager>.Get(key, create) call")
	}
	mgr := ident(get.Fun.(*ast.SelectorExpr).X)
	key := e.canon(get.Args[0], "")
	fl, ok := get.Args[1].(*ast.FuncLit)
	if !ok {
		fail("create argument is not a function literal")
	}
	var ctor *ast.CallExpr
	nctor := 0
	var hooks []string
	ast.Inspect(fd, func(x ast.Node) bool {
		if c, ok := x.(*ast.CallExpr); ok {
			if pk, fn := sel(c.Fun); pk == "red" && strings.HasPrefix(fn, "New") {
				ctor = c
				nctor++
			}
			if s, ok := c.Fun.(*ast.SelectorExpr); ok && s.Sel.Name == "AddHook" && len(c.Args) == 1 {
				hooks = append(hooks, e.canon(c.Args[0], ""))
			}
		}
		return true
	})
	if nctor != 1 || len(ctor.Args) != 1 {
		fail("%d go-redis constructor calls (want 1)", nctor)
	}
	inside := false
	ast.Inspect(fl, func(x ast.Node) bool {
		if x == ast.Node(ctor) {
			inside = true
		}
		return true
	})
	if !inside {
		fail("the go-redis client is not constructed inside the create function")
	}
	_, ctorName := sel(ctor.Fun)
	fresh := false
	ty := e.canon(ctor.Args[0], "")
	var fields []string
	if u, ok := ctor.Args[0].(*ast.UnaryExpr); ok && u.Op == token.AND {
		if cl, ok := u.X.(*ast.CompositeLit); ok {
			if pk, t := sel(cl.Type); pk == "red" {
				fresh = true
				ty = t
				for _, el := range cl.Elts {
					kv, ok := el.(*ast.KeyValueExpr)
					if !ok {
						fail("positional field in the options literal")
					}
					fields = append(fields, "("+cstr(ident(kv.Key))+", "+cstr(e.canon(kv.Value, ""))+")")
				}
			}
		}
	}
	// every statement of the function besides the literal is part of the row too: a write to shared options
	// anywhere in the function changes this text
	var rest []string
	for _, st := range fl.Body.List {
		if n, _ := countNode(st, ctor); n > 0 {
			continue
		}
		rest = append(rest, e.canon(st, ""))
	}
	return fmt.Sprintf("ClientNew %s %s %s %s %s %v %s %s %s", cstr(name), cstr(mgr), cstr(key), cstr(ctorName), cstr(ty), fresh,
		clist(fields), cstrs(hooks), cstrs(rest))
}

func countNode(root ast.Node, target ast.Node) (int, bool) {
	n := 0
	ast.Inspect(root, func(x ast.Node) bool {
		if x == target {
			n++
		}
		return true
	})
	return n, n > 0
}

// bodyRow: a function rendered statement by statement (canonical token text).
func bodyRow(fset *token.FileSet, fd *ast.FuncDecl) string {
	e, _ := newEnv(fset, fd, nil, false)
	var ss []string
	for _, st := range fd.Body.List {
		ss = append(ss, e.canon(st, ""))
	}
	name := fd.Name.Name
	if rt := recvType(fd); rt != "" {
		name = strings.TrimPrefix(rt, "*") + "." + name
	}
	return "(" + cstr(name) + ", " + cstrs(ss) + ")"
}

func funcsOf(fset *token.FileSet, path string) []*ast.FuncDecl {
	f, err := parser.ParseFile(fset, path, nil, 0)
	if err != nil {
		return nil
	}
	var out []*ast.FuncDecl
	for _, d := range f.Decls {
		if fd, ok := d.(*ast.FuncDecl); ok && fd.Body != nil {
			out = append(out, fd)
		}
	}
	return out
}

// metricsRows: for every package-level metric vector of metrics.go: declared number of labels, and the number of
// label values handed over at every use in the package (Inc(labels...), Add(v, labels...), Observe(v, labels...)).
func metricsRows(fset *token.FileSet, dir string) []string {
	decl := map[string]int{}
	var order []string
	mf, err := parser.ParseFile(fset, filepath.Join(dir, "metrics.go"), nil, 0)
	if err != nil {
		return []string{"(" + cstr("<metrics.go unreadable>") + ", 0, [])"}
	}
	for _, d := range mf.Decls {
		gd, ok := d.(*ast.GenDecl)
		if !ok || gd.Tok != token.VAR {
			continue
		}
		for _, sp := range gd.Specs {
			vs := sp.(*ast.ValueSpec)
			for i, n := range vs.Names {
				if i >= len(vs.Values) {
					continue
				}
				labels := -1
				ast.Inspect(vs.Values[i], func(x ast.Node) bool {
					if kv, ok := x.(*ast.KeyValueExpr); ok && ident(kv.Key) == "Labels" {
						if cl, ok := kv.Value.(*ast.CompositeLit); ok {
							labels = len(cl.Elts)
						}
					}
					return true
				})
				if labels >= 0 {
					decl[n.Name] = labels
					order = append(order, n.Name)
				}
			}
		}
	}
	uses := map[string][]string{}
	ms, _ := filepath.Glob(filepath.Join(dir, "*.go"))
	for _, m := range ms {
		if strings.HasSuffix(m, "_test.go") {
			continue
		}
		f, err := parser.ParseFile(fset, m, nil, 0)
		if err != nil {
			continue
		}
		ast.Inspect(f, func(x ast.Node) bool {
			c, ok := x.(*ast.CallExpr)
			if !ok {
				return true
			}
			v, meth := sel(c.Fun)
			if _, known := decl[v]; !known {
				return true
			}
			n := len(c.Args)
			if c.Ellipsis.IsValid() {
				n = 99 // a spread slice: arity not visible
			} else if meth == "Observe" || meth == "Add" {
				n--
			}
			uses[v] = append(uses[v], strconv.Itoa(n))
			return true
		})
	}
	var rows []string
	for _, n := range order {
		rows = append(rows, fmt.Sprintf("(%s, %d, %s)", cstr(n), decl[n], clist(uses[n])))
	}
	return rows
}

// ------------------------------------------------------------------------------------------ main
func recvType(fd *ast.FuncDecl) string {
	if fd.Recv == nil || len(fd.Recv.List) != 1 {
		return ""
	}
	t := fd.Recv.List[0].Type
	if s, ok := t.(*ast.StarExpr); ok {
		return "*" + ident(s.X)
	}
	return ident(t)
}

func pkgConsts(dir string, fset *token.FileSet) map[string]bool {
	out := map[string]bool{}
	ms, _ := filepath.Glob(filepath.Join(dir, "*.go"))
	for _, m := range ms {
		if strings.HasSuffix(m, "_test.go") {
			continue
		}
		f, err := parser.ParseFile(fset, m, nil, 0)
		if err != nil {
			continue
		}
		for _, d := range f.Decls {
			if gd, ok := d.(*ast.GenDecl); ok && gd.Tok == token.CONST {
				for _, sp := range gd.Specs {
					for _, n := range sp.(*ast.ValueSpec).Names {
						out[n.Name] = true
					}
				}
			}
		}
	}
	return out
}

func emit(name, typ string, rows []string) {
	fmt.Printf("Definition %s : list %s := [\n", name, typ)
	for i, r := range rows {
		sep := ";"
		if i == len(rows)-1 {
			sep = ""
		}
		fmt.Printf("  %s%s\n", r, sep)
	}
	fmt.Printf("].\n\n")
}

func main() {
	flag.Parse()
	fset := token.NewFileSet()
	rfile := filepath.Join(*repo, "lib/store/redis/redis.go")
	kfile := filepath.Join(*repo, "lib/store/kv/store.go")
	rf, err := parser.ParseFile(fset, rfile, nil, 0)
	if err != nil {
		fmt.Fprintln(os.Stderr, "c12gen:", err)
		os.Exit(2)
	}
	kf, err := parser.ParseFile(fset, kfile, nil, 0)
	if err != nil {
		fmt.Fprintln(os.Stderr, "c12gen:", err)
		os.Exit(2)
	}
	consts := pkgConsts(filepath.Dir(rfile), fset)

	var ctxRows, plainRows, kvRows, kvPlain []string
	for _, d := range rf.Decls {
		fd, ok := d.(*ast.FuncDecl)
		if !ok || recvType(fd) != "*Redis" || !fd.Name.IsExported() || fd.Body == nil {
			continue
		}
		if strings.HasSuffix(fd.Name.Name, "Ctx") {
			ctxRows = append(ctxRows, redisCtxRow(fset, fd, consts))
		} else {
			plainRows = append(plainRows, plainRow(fset, fd, consts))
		}
	}
	for _, d := range kf.Decls {
		fd, ok := d.(*ast.FuncDecl)
		if !ok || recvType(fd) != "kvStore" || !fd.Name.IsExported() || fd.Body == nil {
			continue
		}
		row, isEach := kvEach(fset, fd)
		if !isEach {
			row = kvRow(fset, fd)
		}
		if strings.HasSuffix(fd.Name.Name, "Ctx") {
			kvRows = append(kvRows, row)
		} else {
			kvPlain = append(kvPlain, row)
		}
	}

	fmt.Println("(* GENERATED by verif/harness/c12gen from the repository's current lib/store/redis/redis.go and")
	fmt.Println("   lib/store/kv/store.go.  Do not edit. *)")
	fmt.Println("From Coq Require Import String List ZArith Bool.")
	fmt.Println("From God Require Import C12.Table.")
	fmt.Println("Import ListNotations.")
	fmt.Println("Local Open Scope string_scope.")
	fmt.Println()
	fmt.Println("(* every exported method XxxCtx of *redis.Redis, in source order *)")
	emit("redis_table", "row", ctxRows)
	fmt.Println("(* every other exported method of *redis.Redis, in source order *)")
	emit("plain_table", "row", plainRows)
	fmt.Println("(* every exported method XxxCtx of kv.kvStore, in source order *)")
	emit("kv_table", "kvrow", kvRows)
	fmt.Println("(* every other exported method of kv.kvStore, in source order *)")
	emit("kv_plain_table", "kvrow", kvPlain)

	dir := filepath.Dir(rfile)
	var clientRows, bodyRows []string
	for _, fn := range []string{"clientmanager.go", "clustermanager.go"} {
		fds := funcsOf(fset, filepath.Join(dir, fn))
		if len(fds) == 0 {
			clientRows = append(clientRows, "ClientUnknown "+cstr(fn)+" "+cstr("no function found"))
		}
		for _, fd := range fds {
			clientRows = append(clientRows, clientRow(fset, fd))
		}
	}
	for _, fd := range funcsOf(fset, filepath.Join(dir, "scriptcache.go")) {
		bodyRows = append(bodyRows, bodyRow(fset, fd))
	}
	// construction: options, configuration, node selection, blocking nodes, kv.New -- statement by statement
	var optRows []string
	want := map[string]bool{"New": true, "WithCluster": true, "WithPass": true, "WithTLS": true, "getRedis": true,
		"Config.NewRedis": true, "CreateBlockingNode": true, "clientBridge.Close": true, "clusterBridge.Close": true}
	for _, fn := range []string{"redis.go", "config.go", "blockingnode.go"} {
		for _, fd := range funcsOf(fset, filepath.Join(dir, fn)) {
			name := fd.Name.Name
			if rt := recvType(fd); rt != "" {
				name = strings.TrimPrefix(rt, "*") + "." + name
			}
			if want[name] {
				optRows = append(optRows, bodyRow(fset, fd))
				delete(want, name)
			}
		}
	}
	for _, fd := range funcsOf(fset, kfile) {
		if fd.Name.Name == "New" && fd.Recv == nil {
			optRows = append(optRows, strings.Replace(bodyRow(fset, fd), cstr("New"), cstr("kv.New"), 1))
		}
	}
	for name := range want {
		optRows = append(optRows, "("+cstr(name)+", ["+cstr("<missing>")+"])")
	}
	fmt.Println("(* construction of wrapper instances, their go-redis nodes and blocking nodes *)")
	emit("construction_table", "(string * list string)", optRows)
	fmt.Println("(* how the go-redis client of an address is created: clientmanager.go, clustermanager.go *)")
	emit("client_table", "clientrow", clientRows)
	fmt.Println("(* metrics.go / hook.go: declared labels of every metric vector, label values passed at every use *)")
	emit("metrics_table", "(string * nat * list nat)", metricsRows(fset, dir))
	fmt.Println("(* scriptcache.go, statement by statement *)")
	emit("scriptcache_table", "(string * list string)", bodyRows)
}
