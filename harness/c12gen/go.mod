module c12gen

go 1.19
