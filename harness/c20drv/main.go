// Driver of the C20 correspondence check (copied by harness/props/c20.py into a scratch module
// next to the CURRENT tools/god/util/{format,stringx} and tools/god/config sources).  Thin interpreter: reads one JSON
// case per line from $VERIF_IN ({"t": hex template, "c": hex identifier}), calls the real code,
// writes one JSON observation per line to $VERIF_OUT.  No expected values are computed here; the
// only extra output is a tabulation of Go's unicode / x/text data for the non-ASCII runes involved.
package main

import (
	"bufio"
	"encoding/hex"
	"encoding/json"
	"fmt"
	"os"
	"sort"
	"strings"
	"unicode"

	"c20drv/config"
	"c20drv/format"
	"c20drv/stringx"

	"golang.org/x/text/cases"
	"golang.org/x/text/language"
)

type hop struct {
	Op string `json:"op"` // new | set | read | fmt
	I  int    `json:"i"`
	S  string `json:"s"` // hex: NewConfig argument / assigned NamingFormat / identifier
}

type tc struct {
	T string   `json:"t"`
	C string   `json:"c"`
	H []hop    `json:"h"`
	S []string `json:"sib"` // hex: sibling spellings converted (results discarded) before the identifier
}

type res map[string]any

func hx(s string) string { return hex.EncodeToString([]byte(s)) }

// callStr runs f, recovering a panic.
func callStr(f func() (string, error)) (out res) {
	defer func() {
		if p := recover(); p != nil {
			out = res{"panic": fmt.Sprint(p)}
		}
	}()
	s, err := f()
	if err != nil {
		kind := 2
		if err == format.ErrNamingFormat {
			kind = 1
		}
		return res{"err": kind, "msg": hx(err.Error())}
	}
	return res{"ok": hx(s)}
}

// callCfg is callStr for config.NewConfig: its error is kind 3.
func callCfg(f func() (string, error)) (out res) {
	out = callStr(f)
	if _, ok := out["err"]; ok {
		out["err"] = 3
	}
	return out
}

func runeTable(tab map[rune][]any, s string) {
	for _, r := range s { // invalid bytes range as U+FFFD
		if r < 128 {
			continue
		}
		if _, ok := tab[r]; ok {
			continue
		}
		tab[r] = []any{int64(r), int64(unicode.ToUpper(r)), int64(unicode.ToLower(r)), int64(unicode.ToTitle(r)),
			unicode.IsUpper(r), unicode.IsLetter(r), unicode.IsDigit(r), unicode.IsSpace(r)}
	}
}

func hasNonASCII(s string) bool {
	for i := 0; i < len(s); i++ {
		if s[i] >= 128 {
			return true
		}
	}
	return false
}

// history runs the configuration operations of one case: NewConfig results are kept as handles
// (the *Config NewConfig returned, error or not), the owner assigns to / reads from them and formats
// names with them. Every result is reported as it comes.
func history(ops []hop, tab map[rune][]any) []res {
	cfgs := []*config.Config{}
	obs := make([]res, 0, len(ops))
	bad := res{"err": 9, "msg": ""}
	for _, o := range ops {
		sb, _ := hex.DecodeString(o.S)
		s := string(sb)
		runeTable(tab, s)
		switch o.Op {
		case "new":
			var cfg *config.Config
			r := callCfg(func() (string, error) {
				c, err := config.NewConfig(s)
				cfg = c
				if err != nil {
					return "", err
				}
				return c.NamingFormat, nil
			})
			cfgs = append(cfgs, cfg)
			obs = append(obs, r)
		case "set":
			if o.I < 0 || o.I >= len(cfgs) {
				obs = append(obs, bad)
				continue
			}
			obs = append(obs, callStr(func() (string, error) { cfgs[o.I].NamingFormat = s; return "", nil }))
		case "read":
			if o.I < 0 || o.I >= len(cfgs) {
				obs = append(obs, bad)
				continue
			}
			obs = append(obs, callStr(func() (string, error) { return cfgs[o.I].NamingFormat, nil }))
		case "fmt":
			if o.I < 0 || o.I >= len(cfgs) {
				obs = append(obs, bad)
				continue
			}
			obs = append(obs, callStr(func() (string, error) { return format.FileNamingFormat(cfgs[o.I].NamingFormat, s) }))
		default:
			obs = append(obs, res{"error": "bad op " + o.Op})
		}
	}
	return obs
}

func one(c tc) res {
	tb, err1 := hex.DecodeString(c.T)
	cb, err2 := hex.DecodeString(c.C)
	if err1 != nil || err2 != nil {
		return res{"error": "bad hex"}
	}
	tmpl, content := string(tb), string(cb)
	out := res{}
	out["fmt"] = callStr(func() (string, error) { return format.FileNamingFormat(tmpl, content) })
	for _, h := range c.S { // earlier conversions of other strings in the same process
		if sb, err := hex.DecodeString(h); err == nil {
			sib := string(sb)
			callStr(func() (string, error) {
				cm := stringx.From(sib).ToCamel()
				stringx.From(sib).ToSnake()
				stringx.From(cm).ToSnake()
				stringx.From(sib).UnTitle()
				return cm, nil
			})
		}
	}
	camel := callStr(func() (string, error) { return stringx.From(content).ToCamel(), nil })
	out["camel"] = camel
	out["snake"] = callStr(func() (string, error) { return stringx.From(content).ToSnake(), nil })
	camelStr := ""
	if h, ok := camel["ok"].(string); ok {
		b, _ := hex.DecodeString(h)
		camelStr = string(b)
		out["rt"] = callStr(func() (string, error) { return stringx.From(camelStr).ToSnake(), nil })
	} else {
		out["rt"] = camel
	}
	out["untitle"] = callStr(func() (string, error) { return stringx.From(content).UnTitle(), nil })
	// the generator's own path: config.NewConfig, then FileNamingFormat on cfg.NamingFormat
	cfg := callCfg(func() (string, error) {
		c, err := config.NewConfig(tmpl)
		if err != nil {
			return "", err
		}
		return c.NamingFormat, nil
	})
	out["cfg"] = cfg
	if h, ok := cfg["ok"].(string); ok {
		b, _ := hex.DecodeString(h)
		nf := string(b)
		out["cfgfmt"] = callStr(func() (string, error) { return format.FileNamingFormat(nf, content) })
	} else {
		out["cfgfmt"] = cfg
	}
	out["fmt2"] = callStr(func() (string, error) { return format.FileNamingFormat(tmpl, content) })

	// a history of configurations kept alive side by side in this process
	tab := map[rune][]any{}
	out["hobs"] = history(c.H, tab)

	// tabulation of library data (not of the code under test)
	runeTable(tab, "\uFFFD")
	runeTable(tab, content)
	runeTable(tab, tmpl)
	runeTable(tab, camelStr)
	keys := make([]int, 0, len(tab))
	for r := range tab {
		keys = append(keys, int(r))
	}
	sort.Ints(keys)
	rows := make([][]any, 0, len(keys))
	for _, k := range keys {
		rows = append(rows, tab[rune(k)])
	}
	out["runes"] = rows
	xt := [][]string{}
	seen := map[string]bool{}
	for _, w := range strings.Split(string([]rune(content)), "_") {
		if w == "" || !hasNonASCII(w) || seen[w] {
			continue
		}
		seen[w] = true
		xt = append(xt, []string{hx(w), hx(cases.Title(language.English, cases.NoLower).String(w))})
	}
	out["xt"] = xt
	return out
}

func main() {
	in, outp := os.Getenv("VERIF_IN"), os.Getenv("VERIF_OUT")
	if in == "" || outp == "" {
		fmt.Fprintln(os.Stderr, "VERIF_IN/VERIF_OUT not set")
		os.Exit(2)
	}
	fi, err := os.Open(in)
	if err != nil {
		fmt.Fprintln(os.Stderr, err)
		os.Exit(2)
	}
	defer fi.Close()
	fo, err := os.Create(outp + ".tmp")
	if err != nil {
		fmt.Fprintln(os.Stderr, err)
		os.Exit(2)
	}
	w := bufio.NewWriter(fo)
	sc := bufio.NewScanner(fi)
	sc.Buffer(make([]byte, 1<<20), 1<<28)
	for sc.Scan() {
		line := sc.Bytes()
		if len(line) == 0 {
			continue
		}
		var c tc
		var o res
		if err := json.Unmarshal(line, &c); err != nil {
			o = res{"error": err.Error()}
		} else {
			o = one(c)
		}
		b, err := json.Marshal(o)
		if err != nil {
			fmt.Fprintln(os.Stderr, err)
			os.Exit(2)
		}
		w.Write(b)
		w.WriteByte('\n')
	}
	if err := sc.Err(); err != nil {
		fmt.Fprintln(os.Stderr, err)
		os.Exit(2)
	}
	w.Flush()
	fo.Close()
	if err := os.Rename(outp+".tmp", outp); err != nil {
		fmt.Fprintln(os.Stderr, err)
		os.Exit(2)
	}
}
