"""Common machinery of bin/vcheck: regenerate -> prove -> correspond -> decide -> evidence.

Every property module under harness/props/ provides a small declarative interface
(see props/c13.py for the reference one); everything else lives here.
"""
import concurrent.futures as cf
import fcntl
import hashlib
import importlib
import json
import os
import random
import re
import shutil
import subprocess
import sys
import time

VERIF = os.path.dirname(os.path.dirname(os.path.abspath(__file__)))
REPO = os.environ.get("VERIF_REPO", "/repo")
COQ = os.path.join(VERIF, "coq")
WORK = os.path.join(VERIF, "work")
GOENV = {
    "GOFLAGS": "-mod=mod", "GOPROXY": "off", "GOSUMDB": "off", "GOTOOLCHAIN": "local",
    "GOWORK": "off", "CGO_ENABLED": os.environ.get("CGO_ENABLED", "0"),
}
FORBIDDEN = re.compile(
    r"\b(Admitted|admit|Axiom|Axioms|Parameter|Parameters|Conjecture|Conjectures|Hypothesis|Hypotheses|Variable|Variables|"
    r"Unset\s+Guard|Unset\s+Positivity|Unset\s+Universe|bypass_check|Admit\s+Obligations|"
    r"native_compute|type-in-type|impredicative-set)\b")


# --------------------------------------------------------------------------- util
def sh(cmd, cwd=None, env=None, timeout=None, inp=None):
    e = dict(os.environ)
    if env:
        e.update(env)
    try:
        p = subprocess.run(cmd, cwd=cwd, env=e, input=inp, stdout=subprocess.PIPE,
                           stderr=subprocess.STDOUT, timeout=timeout, text=True,
                           shell=isinstance(cmd, str))
        return p.returncode, p.stdout
    except subprocess.TimeoutExpired as ex:
        out = ex.stdout or ""
        if isinstance(out, bytes):
            out = out.decode("utf-8", "replace")
        return 124, out + "\n[timeout after %ss]" % timeout


def log(*a):
    print("[vcheck]", *a, flush=True)


# --------------------------------------------------------------------- Coq terms
def cZ(n):
    n = int(n)
    return "(%d)%%Z" % n


def cN(n):
    return "%d%%N" % int(n)


def cnat(n):
    n = int(n)
    if n > 5000:
        return "(Z.to_nat %d%%Z)" % n
    return "%d%%nat" % n


def cbool(b):
    return "true" if b else "false"


def clist(xs):
    return "[" + "; ".join(xs) + "]"


def copt(x):
    return "None" if x is None else "(Some %s)" % x


def cpair(*xs):
    return "(" + ", ".join(xs) + ")"


def cstr(s):
    """Coq string literal (bytes 32..126 only; others must be encoded by the caller)."""
    for ch in s:
        if not (32 <= ord(ch) < 127):
            raise ValueError("cstr: non printable %r" % s)
    return '"' + s.replace('"', '""') + '"%string'


def cbytes(bs):
    """list of bytes as list N"""
    return clist([cN(b) for b in bs])


# ------------------------------------------------------------------ forbidden grep
def cone_dirs(pid):
    """theories/ sub-directories the property's development can depend on: Base, its own, and every
    Cyy it imports (transitively)."""
    todo, seen = [pid], {"Base"}
    while todo:
        d = todo.pop()
        if d in seen:
            continue
        seen.add(d)
        dd = os.path.join(COQ, "theories", d)
        if not os.path.isdir(dd):
            continue
        for f in os.listdir(dd):
            if f.endswith(".v"):
                for m in re.finditer(r"\b(C\d\d)\.\w+", open(os.path.join(dd, f)).read()):
                    if m.group(1) not in seen:
                        todo.append(m.group(1))
    return seen


def scan_forbidden(pid=None):
    """Hypothesis/Variable are allowed only inside a Section; the others never."""
    bad = []
    dirs = cone_dirs(pid) if pid else None
    for root, _, files in os.walk(os.path.join(COQ, "theories")):
        if dirs is not None and os.path.basename(root) not in dirs:
            continue
        for f in files:
            if not f.endswith(".v"):
                continue
            p = os.path.join(root, f)
            depth = 0
            txt = open(p).read()
            txt = strip_comments(txt)
            for ln, line in enumerate(txt.split("\n"), 1):
                if re.match(r"\s*Section\s+\w+", line):
                    depth += 1
                if re.match(r"\s*End\s+\w+", line) and depth > 0:
                    # might be a Module end; sections and modules are both closed by End.
                    depth -= 1
                if re.match(r"\s*Module\s+(Type\s+)?\w+\s*\.", line) or re.match(r"\s*Module\s+\w+\s*:", line):
                    depth += 1  # balanced by its End
                for m in FORBIDDEN.finditer(line):
                    w = m.group(1)
                    if w.split()[0] in ("Hypothesis", "Hypotheses", "Variable", "Variables") and depth > 0:
                        continue
                    bad.append("%s:%d: %s" % (os.path.relpath(p, VERIF), ln, line.strip()))
    return bad


def strip_comments(txt):
    out = []
    i, depth, n = 0, 0, len(txt)
    instr = False
    while i < n:
        if not instr and txt.startswith("(*", i):
            depth += 1
            i += 2
            continue
        if not instr and depth > 0 and txt.startswith("*)", i):
            depth -= 1
            i += 2
            continue
        c = txt[i]
        if depth == 0:
            if c == '"':
                instr = not instr
            out.append(c)
        elif c == "\n":
            out.append(c)
        i += 1
    return "".join(out)


# ------------------------------------------------------------------------- gogen
def gogen_bin():
    b = os.path.join(VERIF, "gogen", "gogen")
    src = os.path.join(VERIF, "gogen", "main.go")
    if not os.path.exists(b) or os.path.getmtime(b) < os.path.getmtime(src):
        rc, out = sh(["go", "build", "-o", b, "."], cwd=os.path.join(VERIF, "gogen"),
                     env=dict(GOENV, GOFLAGS=""), timeout=300)
        if rc != 0:
            raise RuntimeError("gogen build failed:\n" + out)
    return b


def run_gogen(pid, spec):
    """spec: list of request dicts (see gogen/main.go). Writes coq/gen/<pid>_Gen.v.
    Returns (ok, text_or_error)."""
    os.makedirs(os.path.join(COQ, "gen"), exist_ok=True)
    dst = os.path.join(COQ, "gen", "%s_Gen.v" % pid)
    rc, out = sh([gogen_bin(), "-repo", REPO], inp=json.dumps(spec), timeout=120)
    if rc != 0:
        # keep an (uncompilable-by-Link) marker file so that the obligation is visibly broken
        txt = "(* gogen failed *)\nFrom Coq Require Import String.\nDefinition gogen_failed : string := %s.\n" % cstr(
            re.sub(r"[^ -~]", "?", out)[:400].replace('"', "'"))
        write_if_changed(dst, txt)
        return False, out
    write_if_changed(dst, out)
    return True, out


def write_if_changed(path, txt):
    if os.path.exists(path) and open(path).read() == txt:
        return False
    with open(path, "w") as f:
        f.write(txt)
    return True


# ------------------------------------------------------------------- proof build
def coq_project(pid=None):
    """(Re)write the _CoqProject / Makefile used for `pid` when its file set changed. Each property gets its own
    project file listing only the directories its development can depend on (Base, its own, the Cyy it imports) and
    their generated files, so that a broken or half-written file of ANOTHER property cannot disturb this build.
    The .vo files are shared. Returns the Makefile name."""
    dirs = cone_dirs(pid) if pid else None
    files = []
    for sub in ("theories", "gen"):
        for root, _, fs in os.walk(os.path.join(COQ, sub)):
            for f in sorted(fs):
                if not f.endswith(".v"):
                    continue
                if dirs is not None:
                    owner = os.path.basename(root) if sub == "theories" else f.split("_")[0]
                    if owner not in dirs:
                        continue
                files.append(os.path.relpath(os.path.join(root, f), COQ))
    files.sort()
    suffix = "" if pid is None else "." + pid
    proj, mk = "_CoqProject" + suffix, "Makefile" + suffix
    txt = "-Q theories God\n-Q gen GodGen\n-arg -w -arg -notation-overridden,-deprecated-hint-without-locality,-deprecated-instance-without-locality\n" + "\n".join(files) + "\n"
    changed = write_if_changed(os.path.join(COQ, proj), txt)
    if changed or not os.path.exists(os.path.join(COQ, mk)):
        rc, out = sh(["coq_makefile", "-f", proj, "-o", mk], cwd=COQ, timeout=120)
        if rc != 0:
            raise RuntimeError("coq_makefile failed:\n" + out)
    return mk


class Lock:
    def __init__(self, name):
        os.makedirs(WORK, exist_ok=True)
        self.path = os.path.join(WORK, name + ".lock")

    def __enter__(self):
        self.f = open(self.path, "w")
        fcntl.flock(self.f, fcntl.LOCK_EX)
        return self

    def __exit__(self, *a):
        fcntl.flock(self.f, fcntl.LOCK_UN)
        self.f.close()


def build_proofs(pid, targets, force=(), jobs=16, timeout=1500):
    """make the .vo targets (paths relative to coq/), forcing recompilation of `force`.
    Returns dict(ok, log, failed_file, assumptions{thm: text})."""
    with Lock("coqmake"):
        mk = coq_project(pid)
        for f in force:
            for ext in (".vo", ".vos", ".vok", ".glob"):
                p = os.path.join(COQ, f[:-3] + ext) if f.endswith(".vo") else os.path.join(COQ, f + ext)
                if os.path.exists(p):
                    os.remove(p)
        rc, out = sh(["make", "-f", mk, "-j%d" % jobs] + list(targets), cwd=COQ, timeout=timeout)
    failed = None
    if rc != 0:
        m = re.search(r'File "\./([^"]+\.v)", line (\d+)', out)
        if m:
            failed = "%s:%s" % (m.group(1), m.group(2))
        else:
            m = re.search(r"\[([^\]]+\.vo)\] Error", out)
            failed = m.group(1) if m else "make"
    return {"ok": rc == 0, "log": out, "failed": failed, "assumptions": parse_assumptions(out)}


def parse_assumptions(out):
    """Print Assumptions output: either 'Closed under the global context' or 'Axioms:' blocks.
    We only need the union of axiom names."""
    axioms = set()
    closed = out.count("Closed under the global context")
    for blk in re.finditer(r"Axioms:\n((?:.+\n?)+?)(?=\n|\Z|COQC|Closed)", out):
        for line in blk.group(1).split("\n"):
            m = re.match(r"^([A-Za-z_][\w.']*)\s*:", line)
            if m:
                axioms.add(m.group(1))
    return {"closed": closed, "axioms": sorted(axioms)}


def count_obligations(pid, files):
    """Theorems/Lemmas in the given .v files (the proof obligations of the property)."""
    names = []
    for f in files:
        p = os.path.join(COQ, f)
        if not os.path.exists(p):
            continue
        txt = strip_comments(open(p).read())
        for m in re.finditer(r"^\s*(Theorem|Lemma|Corollary|Example|Fact|Proposition)\s+([\w']+)", txt, re.M):
            names.append(os.path.basename(f)[:-2] + "." + m.group(2))
    return names


# ------------------------------------------------------------------- Go driver
def run_driver(pkg, cases, name="drv", timeout=900, env=None, run="^TestVerifDriver$", tags="verif", race=False):
    """Runs the in-package verif driver of /repo's `pkg` on `cases` (list of JSON-able).
    Returns (obs_list or None, log)."""
    os.makedirs(WORK, exist_ok=True)
    inp = os.path.join(WORK, "%s.in.jsonl" % name)
    outp = os.path.join(WORK, "%s.out.jsonl" % name)
    with open(inp, "w") as f:
        for c in cases:
            f.write(json.dumps(c, separators=(",", ":")) + "\n")
    if os.path.exists(outp):
        os.remove(outp)
    e = dict(GOENV)
    e.update({"VERIF_IN": inp, "VERIF_OUT": outp})
    if env:
        e.update(env)
    cmd = ["go", "test", "-tags", tags, "-count=1", "-vet=off", "-run", run, "-timeout", "%ds" % timeout]
    if race:
        cmd.append("-race")
        e["CGO_ENABLED"] = "1"
    cmd.append(pkg)
    rc, out = sh(cmd, cwd=REPO, env=e, timeout=timeout + 60)
    obs = None
    if os.path.exists(outp):
        obs = []
        try:
            for line in open(outp):
                line = line.strip()
                if line:
                    obs.append(json.loads(line))
        except ValueError as ex:
            return None, "driver output is not JSON lines (%s)\n%s" % (ex, out[-3000:])
    if rc != 0 or obs is None or len(obs) != len(cases):
        return None, "driver rc=%s obs=%s/%s\n%s" % (rc, None if obs is None else len(obs), len(cases), out[-6000:])
    return obs, out


# --------------------------------------------------------------------- Coq eval
def coq_eval(pid, exec_mod, terms, shard=500, timeout=900, checks=("model_ok", "spec_ok"), tag="q"):
    """terms: list of Coq terms of type <exec_mod>.case. Evaluates each boolean check on
    every case by vm_compute; returns dict check -> sorted list of failing indices, or
    raises RuntimeError with coqc's output."""
    cdir = os.path.join(COQ, "cases")
    os.makedirs(cdir, exist_ok=True)
    shards = [terms[i:i + shard] for i in range(0, len(terms), shard)] or [[]]
    jobs = []
    for k, sh_terms in enumerate(shards):
        fn = "%s_%s_%d" % (pid, tag, k)
        lines = ["From Coq Require Import List ZArith NArith String Bool.", "Import ListNotations.",
                 "From God Require Import %s." % exec_mod, "Open Scope nat_scope.",
                 "Definition cases : list case := ["]
        lines.append(";\n".join(sh_terms))
        lines.append("].")
        lines.append("Fixpoint bad (f : case -> bool) (i : nat) (l : list case) : list nat :=")
        lines.append("  match l with [] => [] | c :: r => if f c then bad f (S i) r else i :: bad f (S i) r end.")
        for ck in checks:
            lines.append("Definition R_%s := Eval vm_compute in bad %s 0 cases." % (ck, ck))
            lines.append("Print R_%s." % ck)
        with open(os.path.join(cdir, fn + ".v"), "w") as f:
            f.write("\n".join(lines) + "\n")
        jobs.append((k, fn))

    def one(job):
        k, fn = job
        cmd = ["coqc", "-Q", "theories", "God", "-Q", "gen", "GodGen", "-w", "-all", "cases/%s.v" % fn]
        rc, out = sh(cmd, cwd=COQ, timeout=timeout)
        if rc == 124:
            # a loaded machine can starve one shard: run it once more, alone in this worker, with twice the time
            rc, out = sh(cmd, cwd=COQ, timeout=2 * timeout)
        # compiled artefacts of a case file are never reused (they are large: ~1 MB per shard); the .v is kept
        # only when the shard did not evaluate, so that it can be inspected
        for ext in (".vo", ".vok", ".vos", ".glob", ".aux"):
            for q in (os.path.join(cdir, fn + ext), os.path.join(cdir, "." + fn + ext)):
                try:
                    os.remove(q)
                except OSError:
                    pass
        if rc == 0:
            try:
                os.remove(os.path.join(cdir, fn + ".v"))
            except OSError:
                pass
        return k, rc, out

    res = {ck: [] for ck in checks}
    with cf.ThreadPoolExecutor(max_workers=16) as ex:
        for k, rc, out in ex.map(one, jobs):
            if rc != 0:
                raise RuntimeError("coqc failed on shard %d:\n%s" % (k, out[-4000:]))
            for ck in checks:
                m = re.search(r"R_%s\s*=\s*(\[[^\]]*\])" % ck, out)
                if not m:
                    raise RuntimeError("cannot parse coqc output for %s:\n%s" % (ck, out[-2000:]))
                body = m.group(1).strip("[]").strip()
                if body:
                    for tok in body.split(";"):
                        res[ck].append(k * shard + int(tok.strip()))
    for ck in res:
        res[ck].sort()
    return res


# ------------------------------------------------------------------ known findings
def known_findings(pid):
    p = os.path.join(VERIF, "KNOWN_FINDINGS.txt")
    out = {}
    if not os.path.exists(p):
        return out
    for line in open(p):
        line = line.strip()
        if line.startswith("finding:") and ("property=%s " % pid) in line + " ":
            m = re.search(r"class=(\S+)", line)
            if m:
                out[m.group(1)] = line
    return out


# ------------------------------------------------------------------------ main
def load_prop(pid):
    sys.path.insert(0, os.path.join(VERIF, "harness"))
    return importlib.import_module("props." + pid.lower())


def write_replay(pid, payload):
    d = os.path.join(VERIF, "replays")
    os.makedirs(d, exist_ok=True)
    h = hashlib.sha1(json.dumps(payload, sort_keys=True).encode()).hexdigest()[:10]
    p = os.path.join(d, "%s_%s.json" % (pid, h))
    with open(p, "w") as f:
        json.dump(payload, f, indent=1, sort_keys=True)
    return p


def write_evidence(pid, ev):
    # runs against a patched scratch tree (bin/vseed) must not overwrite the evidence of the registered checks
    d = os.environ.get("VERIF_EVIDENCE_DIR") or os.path.join(VERIF, "evidence")
    os.makedirs(d, exist_ok=True)
    with open(os.path.join(d, "%s.json" % pid), "w") as f:
        json.dump(ev, f, indent=1, sort_keys=True)
        f.write("\n")


def canon(x):
    return json.dumps(x, sort_keys=True, separators=(",", ":"))


def check(pid, tier="quick", seed=None, replay=None):
    t0 = time.time()
    P = load_prop(pid)
    seed = int(seed if seed is not None else os.environ.get("VERIF_SEED", "20260930"))
    rng = random.Random(seed * 1000003 + int(pid[1:]))
    cone_v = getattr(P, "COQ_FILES", ["theories/%s/Props.v" % pid, "theories/%s/Link.v" % pid])
    targets = [f[:-2] + ".vo" for f in getattr(P, "COQ_TARGETS", cone_v + ["theories/%s/Exec.v" % pid])]
    exec_mod = getattr(P, "EXEC_MOD", "%s.Exec" % pid)
    problems = []       # things that no longer check (each => violation unless a concrete one is found)
    violations = []     # concrete failing cases (dicts)
    known_lines = []
    notes = {}

    # 0. forbidden tokens
    bad = scan_forbidden(pid)
    if bad:
        problems.append({"kind": "forbidden-token", "where": bad[:10]})

    # 1. regenerate
    gen_spec = getattr(P, "GEN_SPEC", None)
    if gen_spec:
        ok, txt = run_gogen(pid, gen_spec)
        if not ok:
            problems.append({"kind": "translator", "detail": txt[-1500:]})

    # 2. prove
    if tier == "thorough":
        force = targets
    else:
        force = [t for t in targets if t.endswith("Props.vo") or t.endswith("Link.vo")]
    pb = build_proofs(pid, targets, force=force)
    obligations = count_obligations(pid, cone_v)
    exec_ok = True
    if not pb["ok"]:
        problems.append({"kind": "proof", "obligation": pb["failed"], "log": pb["log"][-3000:]})
        # make sure Exec (model + checkers) is still available for the search
        pb2 = build_proofs(pid, ["theories/%s.vo" % exec_mod.replace(".", "/")])
        exec_ok = pb2["ok"]
        discharged = 0
        failed_file = (pb["failed"] or "").split(":")[0]
        for f in cone_v:
            if os.path.exists(os.path.join(COQ, f[:-2] + ".vo")) and f.replace("theories/", "") not in failed_file and f not in failed_file:
                discharged += len(count_obligations(pid, [f]))
    else:
        discharged = len(obligations)
    log("proofs: %d/%d obligations, ok=%s (%.1fs)" % (discharged, len(obligations), pb["ok"], time.time() - t0))

    coqchk_out = None
    if tier == "thorough" and pb["ok"] and os.environ.get("VERIF_NO_COQCHK") != "1":
        mod = "God.%s.Props" % pid
        with Lock("coqmake"):
            rc, out = sh(["coqchk", "-silent", "-o", "-Q", "theories", "God", "-Q", "gen", "GodGen", mod], cwd=COQ, timeout=3000)
        coqchk_out = out[-3000:]
        if rc != 0:
            problems.append({"kind": "coqchk", "log": out[-3000:]})

    # 3. correspond
    n = int(os.environ.get("VERIF_CASES", P.THOROUGH_N if tier == "thorough" else P.QUICK_N))
    if replay:
        payload = json.load(open(replay))
        cases = [c["case"] for c in payload.get("cases", [])]
        if not cases and "case" in payload:
            cases = [payload["case"]]
        if not cases:
            # a "no-longer-checks" replay: it names proof/link/correspondence problems; those that carry a first
            # disagreeing case (model mismatch without a spec violation) can be re-run
            cases = [pb["first"]["case"] for pb in payload.get("problems", [])
                     if isinstance(pb.get("first"), dict) and "case" in pb["first"]]
        if not cases:
            print("[vcheck] replay file %s names no case (it records which theorem/correspondence no longer checks): "
                  "re-run the check itself" % replay)
    else:
        cases = corpus_cases(pid) + P.generate(rng, tier, n)
    res = {"model_ok": [], "spec_ok": []}
    obs = None
    drv_log = ""
    if exec_ok:
        obs, drv_log = P.drive(cases, tier) if hasattr(P, "drive") else run_driver(P.GO_PKG, cases, name=pid, timeout=getattr(P, "DRIVER_TIMEOUT", 900))
        if obs is None:
            problems.append({"kind": "driver", "log": drv_log[-3000:]})
        else:
            # a panic that escaped the whole case handler of the driver: the implementation panicked on this
            # input (drivers catch the panics that are legitimate observations themselves)
            keep = [i for i, o in enumerate(obs) if not (isinstance(o, dict) and "driver_panic" in o)]
            for i, o in enumerate(obs):
                if isinstance(o, dict) and "driver_panic" in o:
                    violations.append({"case": cases[i], "obs": o})
            if len(keep) != len(obs):
                problems.append({"kind": "implementation-panic", "count": len(obs) - len(keep)})
                cases = [cases[i] for i in keep]
                obs = [obs[i] for i in keep]
            terms = [P.encode(c, o) for c, o in zip(cases, obs)]
            try:
                res = coq_eval(pid, exec_mod, terms, shard=getattr(P, "SHARD", 400), tag=tier[0])
            except RuntimeError as ex:
                problems.append({"kind": "coq-eval", "log": str(ex)[-3000:]})
    else:
        problems.append({"kind": "exec-model-does-not-build"})
    log("correspondence: %d cases, model mismatches=%d, spec violations=%d (%.1fs)" % (
        len(cases), len(res["model_ok"]), len(res["spec_ok"]), time.time() - t0))

    if res["model_ok"]:
        problems.append({"kind": "correspondence", "mismatching_cases": len(res["model_ok"]),
                         "first": {"case": cases[res["model_ok"][0]], "obs": obs[res["model_ok"][0]]}})

    # 4. decide
    kf = known_findings(pid)
    spec_bad = list(res["spec_ok"])
    extra_cases, extra_obs = [], []
    if problems and not spec_bad and exec_ok and obs is not None and not replay:
        # search: the model or a proof no longer matches -- look for a concrete input on which the
        # implementation itself violates the Spec checker (directed generator first, then random).
        srng = random.Random(seed + 7919)
        extra_cases = (P.search(srng, problems) if hasattr(P, "search") else []) + P.generate(srng, "search", getattr(P, "SEARCH_N", 3 * P.QUICK_N))
        extra_obs, _ = P.drive(extra_cases, "search") if hasattr(P, "drive") else run_driver(P.GO_PKG, extra_cases, name=pid + "s", timeout=getattr(P, "DRIVER_TIMEOUT", 900))
        if extra_obs is not None:
            for c, o in zip(extra_cases, extra_obs):
                if isinstance(o, dict) and "driver_panic" in o:
                    violations.append({"case": c, "obs": o})
            ek = [i for i, o in enumerate(extra_obs) if not (isinstance(o, dict) and "driver_panic" in o)]
            extra_cases = [extra_cases[i] for i in ek]
            extra_obs = [extra_obs[i] for i in ek]
            try:
                r2 = coq_eval(pid, exec_mod, [P.encode(c, o) for c, o in zip(extra_cases, extra_obs)],
                              shard=getattr(P, "SHARD", 400), checks=("spec_ok",), tag="s")
                for i in r2["spec_ok"]:
                    violations.append({"case": extra_cases[i], "obs": extra_obs[i]})
            except RuntimeError as ex:
                notes["search_error"] = str(ex)[-1000:]
    for i in spec_bad:
        violations.append({"case": cases[i], "obs": obs[i]})

    new_viol = []
    for v in violations:
        cls = P.classify(v["case"], v["obs"]) if hasattr(P, "classify") and "driver_panic" not in v["obs"] else None
        if cls and cls in kf:
            known_lines.append("KNOWN-FINDING: property=%s class=%s %s" % (pid, cls, kf[cls].split("class=%s" % cls, 1)[1].strip()))
        else:
            new_viol.append(v)
    # every listed finding of this property gets its KNOWN-FINDING line on every run; a finding whose failing
    # schedule/input did not occur in this run (the schedule-dependent ones of C07) is printed with a note
    seen_cls = set(l.split("class=", 1)[1].split()[0] for l in known_lines)
    for cls in sorted(kf):
        if cls not in seen_cls:
            known_lines.append("KNOWN-FINDING: property=%s class=%s (listed; its failing schedule did not occur in this run) %s"
                               % (pid, cls, kf[cls].split("class=%s" % cls, 1)[1].strip()))
    for l in sorted(set(known_lines)):
        print(l, flush=True)

    exit_code = 0
    if new_viol:
        v = min(new_viol, key=lambda v: len(canon(v["case"])))
        if hasattr(P, "shrink"):
            try:
                v = P.shrink(v)
            except Exception as ex:  # shrinking is best-effort
                notes["shrink_error"] = repr(ex)
        path = write_replay(pid, {"property": pid, "kind": "concrete-violation", "case": v["case"], "obs": v["obs"],
                                  "explain": ("the implementation panicked on this case: " + str(v["obs"]["driver_panic"])[:300]) if "driver_panic" in v["obs"] else
                                  (P.explain(v["case"], v["obs"]) if hasattr(P, "explain") else "observed behaviour falsifies %s.spec_ok" % exec_mod),
                                  "broken": [p_["kind"] for p_ in problems], "total_failing_cases": len(new_viol)})
        print("VIOLATION property=%s replay=%s" % (pid, path), flush=True)
        exit_code = 1
    elif problems and not (violations and not new_viol and all(p_["kind"] == "correspondence" for p_ in problems) and False):
        path = write_replay(pid, {"property": pid, "kind": "no-longer-checks", "problems": problems})
        print("VIOLATION property=%s replay=%s no-failing-input-found" % (pid, path), flush=True)
        exit_code = 1

    # 5. evidence
    nontriv = set()
    dist = {}
    if obs is not None:
        for c, o in zip(cases, obs):
            if P.nontrivial(c, o):
                nontriv.add(canon(c))
            if hasattr(P, "bucket"):
                for b in P.bucket(c, o):
                    dist[b] = dist.get(b, 0) + 1
    tb = list(getattr(P, "TRUSTED", []))
    tb += ["Coq 8.16.1 kernel (coqc, vm_compute; no native_compute)",
           "Print Assumptions over Props.v: %d theorem(s) 'Closed under the global context'; axioms: %s" % (
               pb["assumptions"]["closed"], ", ".join(pb["assumptions"]["axioms"]) or "none"),
           "gogen translator (verif/gogen), Python generators/encoders (verif/harness), Go driver verif_driver_test.go (tag verif)"]
    if coqchk_out is not None:
        tb.append("coqchk -o: " + " ".join(coqchk_out.split())[-600:])
    samples = []
    if obs is not None:
        for c, o in list(zip(cases, obs))[:2]:
            samples.append({"case": c, "observed": o})
    samples.append({"obligations": obligations[:40]})
    ev = {
        "property_id": pid, "tier": tier, "seed": seed, "level": "proof",
        "coverage": {
            "obligations": len(obligations), "discharged": discharged,
            "checker_cmd": "make -C coq " + " ".join(targets) + (" ; coqchk -silent -o God.%s.Props" % pid if tier == "thorough" else "") + " ; coqc cases/%s_*.v (vm_compute correspondence)" % pid,
            "trusted_base": tb,
            "evaluations": len(cases) + len(extra_cases),
            "distinct_nontrivial": len(nontriv),
            "rule": getattr(P, "RULE", ""),
            "samples": samples,
            "traces_validated_against_impl": 0 if obs is None else len(cases) - len(res["model_ok"]),
            "model_mismatches": len(res["model_ok"]), "spec_violations": len(res["spec_ok"]),
            "input_distribution": dist,
            "problems": [p_["kind"] for p_ in problems],
            "known_findings_hit": sorted(set(known_lines)),
        },
        "assumptions": list(getattr(P, "ASSUMPTIONS", [])),
        "wall_s": round(time.time() - t0, 2),
        "violations": len(new_viol) if new_viol else (1 if exit_code else 0),
    }
    ev["coverage"].update(notes)
    write_evidence(pid, ev)
    log("%s %s: exit %d in %.1fs" % (pid, tier, exit_code, time.time() - t0))
    return exit_code


def corpus_cases(pid):
    d = os.path.join(VERIF, "corpus", pid)
    out = []
    if os.path.isdir(d):
        for f in sorted(os.listdir(d)):
            if f.endswith(".json"):
                out.append(json.load(open(os.path.join(d, f))))
    return out
