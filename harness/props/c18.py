"""C18 synchronisation primitives: forced concurrent schedules x recorded histories.

A case = {"prim", "n", "m", "scripts": [[{"code","a","b","c"}..]..], "sched": [{"k","v"}..]}.
sched steps: t = let thread v start its next call, o = open gate v (user callbacks wait on gates),
a = advance the virtual clock by v ms, w = sleep v ms (real time; no model step).
After every step the driver waits until every goroutine is idle, at a closed gate or blocked inside
the primitive; the Coq side replays the same schedule on the model (Exec.model_ok) and checks the
recorded history against the primitive's contract (Exec.spec_ok).
"""
from vlib import cnat, clist

ID = "C18"
GO_PKG = "./lib/syncx"
PRIMS = ["sf", "lc", "lim", "ref", "once", "spin", "done", "pool", "rm", "tl", "bar", "mr", "ir", "spinx", "donex", "oncex"]
PRIM_NO = {p: i for i, p in enumerate(PRIMS)}

_SK = [
    ("singleflight.go", "flightGroup.Do", "sk_sf_Do"),
    ("singleflight.go", "flightGroup.DoEx", "sk_sf_DoEx"),
    ("singleflight.go", "flightGroup.createCall", "sk_sf_createCall"),
    ("singleflight.go", "flightGroup.makeCall", "sk_sf_makeCall"),
    ("lockedcalls.go", "lockedGroup.Do", "sk_lc_Do"),
    ("lockedcalls.go", "lockedGroup.makeCall", "sk_lc_makeCall"),
    ("limit.go", "Limit.Borrow", "sk_lim_Borrow"),
    ("limit.go", "Limit.TryBorrow", "sk_lim_TryBorrow"),
    ("limit.go", "Limit.Return", "sk_lim_Return"),
    ("timeoutlimit.go", "TimeoutLimit.Borrow", "sk_tl_Borrow"),
    ("timeoutlimit.go", "TimeoutLimit.Return", "sk_tl_Return"),
    ("condition.go", "Cond.WaitWithTimeout", "sk_cond_WaitWithTimeout"),
    ("condition.go", "Cond.Signal", "sk_cond_Signal"),
    ("pool.go", "Pool.Get", "sk_pool_Get"),
    ("pool.go", "Pool.Put", "sk_pool_Put"),
    ("refresource.go", "RefResource.Use", "sk_ref_Use"),
    ("refresource.go", "RefResource.Clean", "sk_ref_Clean"),
    ("resourcemanager.go", "ResourceManager.Get", "sk_rm_Get"),
    ("resourcemanager.go", "ResourceManager.Close", "sk_rm_Close"),
    ("spinlock.go", "SpinLock.Lock", "sk_spin_Lock"),
    ("spinlock.go", "SpinLock.TryLock", "sk_spin_TryLock"),
    ("spinlock.go", "SpinLock.Unlock", "sk_spin_Unlock"),
    ("onceguard.go", "OnceGuard.Take", "sk_once_Take"),
    ("donechan.go", "DoneChan.Close", "sk_done_Close"),
    ("managedresource.go", "ManagedResource.Take", "sk_mr_Take"),
    ("managedresource.go", "ManagedResource.MarkBroken", "sk_mr_MarkBroken"),
    ("immutableresource.go", "ImmutableResource.Get", "sk_ir_Get"),
    ("immutableresource.go", "ImmutableResource.maybeRefresh", "sk_ir_maybeRefresh"),
    ("barrier.go", "Guard", "sk_bar_Guard"),
    ("barrier.go", "Barrier.Guard", "sk_bar_BarrierGuard"),
]
GEN_SPEC = {"items": [{"kind": "calls", "file": "lib/syncx/" + f, "func": fn, "as": name} for f, fn, name in _SK]}

COQ_FILES = ["theories/C18/Props.v", "theories/C18/Link.v", "theories/C18/ProofsSF.v", "theories/C18/ProofsLC.v",
             "theories/C18/ProofsAO.v", "theories/C18/ProofsPool.v", "theories/C18/ProofsRM.v", "theories/C18/ProofsTL.v",
             "theories/C18/ProofsRef.v", "theories/C18/ProofsMR.v", "theories/C18/ProofsSpin.v"]
COQ_TARGETS = ["theories/C18/Props.v", "theories/C18/Link.v", "theories/C18/Exec.v"]

QUICK_N = 330
THOROUGH_N = 1650
SEARCH_N = 220
SHARD = 42
DRIVER_TIMEOUT = 600
RULE = ("per primitive (SingleFlight, LockedCalls, Limit, RefResource, OnceGuard, SpinLock, DoneChan, Pool, "
        "ResourceManager, TimeoutLimit, Barrier; round robin) 2-6 goroutines with scripted calls (keys 1-3, fn callbacks "
        "blocking on gates) under a forced schedule of 10-40 steps (start a call / open a gate / advance the virtual "
        "clock), each step followed by a quiescence barrier; non-trivial = at least two calls overlapped in time "
        "(some invocation lies between another call's invocation and response); distinct = distinct canonical case JSON; "
        "plus ManagedResource / ImmutableResource streams, boundary sizes (0, negative) and boundary timeouts (MaxInt64, 100 years) "
        "for Limit/TimeoutLimit, and per run 4 contention stress cases (SpinLock occupancy, concurrent DoneChan.Close; "
        "2-8 goroutines x 120 ms, thorough: 12 cases x 600 ms)")
TRUSTED = ["Go runtime semantics of sync.Mutex/RWMutex/WaitGroup/Cond, channels and sync/atomic (the LTS models assume them)",
           "quiescence detection of the driver via runtime.Stack goroutine states (forced interleavings)",
           "timex virtual clock hook (Pool maxAge, Cond elapsed time)"]
ASSUMPTIONS = ["schedules of the models cover every interleaving of synchronisation actions; preemption inside a critical "
               "section without a synchronisation action is not a separate step",
               "ResourceManager uses the single-flight contract proved for singleflight.go as an atomic register/join step",
               "TimeoutLimit: time.NewTimer(d) does not fire before d (hypothesis timers_ok); its concurrent behaviour is "
               "checked on histories only (linearizability w.r.t. Limit + timeout clause)",
               "RefResource.ref is modelled as an unbounded integer (int32 wrap-around ignored)",
               "sync.Cond.Signal wakes the longest waiter (FIFO) in the Pool model",
               "ImmutableResource is in neither the statement's sentences nor its list of primitives; the `ir` stream checks only "
               "what the code documents (hand out the resource if there is one, else try to fetch; refresh interval on failure). "
               "Out-of-statement observation, kept out of the stream: with refresh interval 0 (or a fetch slower than the "
               "interval) two overlapping fetches that BOTH succeed make the second replace the resource that Gets have "
               "already handed out (case: interval 0; t0 Get gated fetch -> 11; clock +1; t1 Get gated fetch -> 12; release "
               "t0; t2 Get -> 11; release t1; t2 Get -> 12)"]


def _op(code, a=0, b=0, c=0):
    return {"code": code, "a": a, "b": b, "c": c}


def _t(v):
    return {"k": "t", "v": v}


def _finish(scripts, sched, gates, done_idx):
    """open every gate and start every remaining call"""
    for g in gates:
        sched.append({"k": "o", "v": g})
    rem = max([len(s) - done_idx[i] for i, s in enumerate(scripts)] + [0])
    for _ in range(rem):
        for t in range(len(scripts)):
            sched.append(_t(t))


def _gen_flight(rng, prim, tier):
    """sf / lc / bar / rm: calls with keys, gates and values; kicks and gate openings in random order"""
    g = rng.randint(2, 6)
    nkeys = rng.choice([1, 1, 2, 3])
    scripts = [[] for _ in range(g)]
    closer = None
    if prim == "rm" and rng.random() < 0.7:
        closer = g
        scripts.append([_op(1)])
    gates, sched = [], []
    nextgate = 1
    cchoices = rng.choice([[0, 0, 0, 0, 0, 1, 2, 3], [3], [0, 3, 3], [0, 0, 0, 1, 2]])   # all / some / no resource fails to close
    if prim == "rm" and closer is not None:
        nkeys = rng.choice([2, 3, 3])
    for t in range(g):
        for i in range(rng.randint(1, 4)):
            gate = 0
            if rng.random() < 0.45:
                gate = nextgate
                nextgate += 1
                gates.append(gate)
            key = 0 if prim == "bar" else rng.randint(1, nkeys)
            val = 100 * (t + 1) + i + 1
            if prim in ("sf", "lc", "bar") and rng.random() < 0.18:
                val = 0                       # the user fn panics (after its gate)
            elif prim == "sf" and rng.random() < 0.15:
                val = rng.choice([901, 902])  # fn returns an error wrapping context.Canceled / DeadlineExceeded
            if prim == "rm" and gate and rng.random() < 0.4:
                # held up just before entering the manager's single flight (the gate is NOT inside create)
                scripts[t].append(_op(2, key, gate, rng.choice(cchoices)))
            elif prim == "rm":
                scripts[t].append(_op(0, key, gate, rng.choice(cchoices)))   # 1: create fails, 2: create panics, 3: the resource's Close() fails
            else:
                scripts[t].append(_op(rng.choice([0, 0, 1]) if prim in ("sf", "bar") else 0, key, gate, val))   # bar code 1: syncx.Guard
    closed = set()
    early_close = closer is not None and rng.random() < 0.4    # Close while creates may be in flight
    for _ in range(rng.randint(8, 30)):
        if early_close and rng.random() < 0.08:
            sched.append(_t(closer))
        if gates and rng.random() < 0.3:
            gt = rng.choice(gates)
            sched.append({"k": "o", "v": gt})
            closed.add(gt)
        else:
            sched.append(_t(rng.randrange(g)))
    for gt in gates:
        sched.append({"k": "o", "v": gt})
    for _ in range(4):
        for t in range(g):
            sched.append(_t(t))
    if closer is not None:
        sched.append(_t(closer))
        if rng.random() < 0.3:   # a Get after Close (documented misuse: nil map write panics)
            t = rng.randrange(g)
            scripts[t].append(_op(0, rng.randint(1, nkeys), 0, 0))
            sched.append(_t(t))
    case = {"prim": prim, "n": 0, "m": 0, "scripts": scripts, "sched": sched}
    if g >= 2 and rng.random() < 0.2:
        case["split"] = rng.randint(1, g - 1)     # two independent instances: same keys, no shared state
    return case


def _gen_atomic(rng, prim, tier):
    """lim / ref / once / spin / done: simulate just enough to keep at most one thread blocked"""
    g = rng.randint(2, 6)
    n = rng.randint(1, 3)
    if prim == "lim" and rng.random() < 0.25:
        n = 0          # NewLimit(0): nothing can ever be borrowed; a blocking Borrow parks for ever (D19)
    scripts = [[] for _ in range(g)]
    sched = []
    out, blocked, locked = 0, None, False
    gates = []
    for _ in range(rng.randint(8, 32)):
        t = rng.randrange(g)
        sched.append(_t(t))
        if t == blocked or len(scripts[t]) >= 8:
            if t != blocked:
                sched.pop()
            continue
        if prim == "lim":
            code = rng.choice([0, 0, 1, 1, 2, 2, 2])
            if code == 0 and out >= n and (blocked is not None or (n == 0 and rng.random() < 0.6)):
                code = 1
            scripts[t].append(_op(code))
            if code == 0:
                if out < n:
                    out += 1
                else:
                    blocked = t
            elif code == 1:
                if out < n:
                    out += 1
            elif out > 0:
                out -= 1
                if blocked is not None:
                    out += 1
                    blocked = None
        elif prim == "spin":
            code = rng.choice([0, 0, 1, 1, 2, 2, 2])
            if code == 0 and locked and blocked is not None:
                code = 1
            scripts[t].append(_op(code))
            if code == 0:
                if not locked:
                    locked = True
                else:
                    blocked = t
            elif code == 1:
                locked = True
            else:
                locked = False
                if blocked is not None:
                    locked = True
                    blocked = None
        elif prim == "ref":
            code = rng.choice([0, 0, 0, 1, 1])
            if code == 1:
                gate = 0
                if rng.random() < 0.4:
                    gate = len(gates) + 1
                    gates.append(gate)
                scripts[t].append(_op(1, 1 if rng.random() < 0.25 else 0, gate, 0))   # a: callback panics, b: gate in it
            else:
                scripts[t].append(_op(0))
            if gates and rng.random() < 0.25:
                sched.append({"k": "o", "v": rng.choice(gates)})
        elif prim == "once":
            scripts[t].append(_op(rng.choice([0, 0, 1])))
        else:
            scripts[t].append(_op(rng.choice([0, 1, 1, 1])))
    if gates:
        for gt in gates:
            sched.append({"k": "o", "v": gt})
        for _ in range(8):
            for t in range(g):
                sched.append(_t(t))
    return {"prim": prim, "n": n, "m": 0, "scripts": scripts, "sched": sched}


def _gen_pool(rng, tier):
    g = rng.randint(2, 5)
    n = rng.randint(1, 3)
    maxage = rng.choice([0, 10, 10, 25])
    scripts = [[] for _ in range(g)]
    sched = []
    created, idle, held, blocked, now = 0, [], [[] for _ in range(g)], None, 0
    nextid = 1
    flags = [(0, 0)] * g      # (create panics, destroy panics) of each thread's current Get

    def do_get(t):
        nonlocal created, nextid, blocked
        cpan, dpan = flags[t]
        while idle:
            r, lu = idle.pop()
            if maxage > 0 and lu + maxage < now:
                created -= 1
                if dpan:
                    return          # the destroy callback panics: Get is unwound, the resource is gone
                continue
            held[t].append(r)
            return
        if created < n:
            created += 1
            if cpan:
                return              # the create callback panics: p.created stays incremented
            held[t].append(nextid)
            nextid += 1
            return
        blocked = t

    def get_op(t, gate=0):
        cpan = 1 if rng.random() < 0.12 else 0
        dpan = 1 if rng.random() < 0.12 else 0
        flags[t] = (cpan, dpan)
        return _op(0, cpan, gate, dpan)

    if rng.random() < 0.3:
        # a create callback blocked on a gate holds p.lock: the next Get runs into the lock and proceeds
        # only after the callback has finished
        scripts[0].append(get_op(0, 1))
        scripts[1].append(get_op(1))
        sched += [_t(0), _t(1), {"k": "o", "v": 1}]
        do_get(0)
        do_get(1)
    elif g >= 3 and rng.random() < 0.35:
        # a SECOND and THIRD Get arrive while the first create is still running (limit 1 and 2 especially):
        # who of them proceeds first afterwards is up to the mutex, so only the history is checked
        n = rng.choice([1, 1, 2, 2, n])
        k = rng.randint(2, min(3, g - 1))
        scripts[0].append(_op(0, 0, 1, 0))
        sched.append(_t(0))
        for u in range(1, k + 1):
            scripts[u].append(_op(0, 0, rng.choice([0, 0, 2]), 0))
            sched.append(_t(u))
        sched += [{"k": "o", "v": 1}, {"k": "o", "v": 2}]
        for u in range(0, k + 1):
            for _ in range(rng.randint(0, 2)):
                scripts[u].append(_op(rng.choice([0, 1, 1])))
        for _ in range(3):
            for u in range(0, k + 1):
                sched.append(_t(u))
        return {"prim": "pool", "n": n, "m": maxage, "scripts": scripts, "sched": sched, "spec_only": True}

    for _ in range(rng.randint(10, 36)):
        if maxage and rng.random() < 0.3:
            d = rng.choice([3, 8, 12, 30, 40])
            sched.append({"k": "a", "v": d})
            now += d
            continue
        t = rng.randrange(g)
        if t == blocked or len(scripts[t]) >= 9:
            continue
        if rng.random() < 0.12:
            scripts[t].append(_op(2))       # a stray Put(nil): must change nothing (no slot is given back)
            sched.append(_t(t))
            continue
        code = 1 if (held[t] and rng.random() < 0.5) else 0
        if code == 0 and blocked is not None and not idle and created >= n:
            if not held[t]:
                continue
            code = 1
        sched.append(_t(t))
        if code == 0:
            scripts[t].append(get_op(t))
            do_get(t)
        else:
            scripts[t].append(_op(1))
            r = held[t].pop()
            idle.append((r, now))
            if blocked is not None:
                b = blocked
                blocked = None
                do_get(b)
            elif maxage and rng.random() < 0.4:
                d = maxage + rng.randint(1, 20)
                sched.append({"k": "a", "v": d})
                now += d
    return {"prim": "pool", "n": n, "m": maxage, "scripts": scripts, "sched": sched}


def _gen_pool_slow_destroy(rng):
    """pool at its limit, every idle resource over age, a slow destroy callback (gate 80+id): the Get that
    found them sits in destroy holding the lock; another Get arrives; replacements come only afterwards"""
    lim = rng.choice([1, 1, 2])
    maxage = rng.choice([5, 10])
    g = lim + 1
    scripts = [[_op(0), _op(1)] for _ in range(lim)] + [[]]
    sched = [_t(i) for i in range(lim)] + [_t(i) for i in range(lim)] + [{"k": "a", "v": maxage + rng.randint(1, 30)}]
    scripts[0].append(_op(0, 0, 0, 2))       # this Get runs the slow destroys
    sched.append(_t(0))
    scripts[lim].append(_op(0))               # a newcomer while destroy is still running
    sched.append(_t(lim))
    for rid in range(lim, 0, -1):             # idle list is LIFO: the last one put is met first
        sched.append({"k": "o", "v": 80 + rid})
    scripts[0].append(_op(1))
    sched.append(_t(0))
    scripts[lim].append(_op(1))
    sched.append(_t(lim))
    return {"prim": "pool", "n": lim, "m": maxage, "scripts": scripts, "sched": sched}


def _gen_tl(rng, tier):
    kind = rng.randrange(8)
    if kind >= 6:
        # "wait for ever" / very long timeouts (b selects math.MaxInt64, MaxInt64-1, 100 years, MaxInt64/2, 10000 h):
        # the parked Borrow is woken by a Return and takes the freed slot -- no timeout, however far the (virtual)
        # clock has moved meanwhile; a bare Signal with the slot still taken sends it back to waiting
        b = rng.choice([1, 1, 2, 3, 3, 4, 5])
        n = rng.choice([1, 1, 2])
        holders = [[_op(1), _op(2)] for _ in range(n)]
        scripts = holders + [[_op(0, 4900, b), _op(2)]]
        w = n
        sched = [_t(i) for i in range(n)] + [_t(w)]
        if rng.random() < 0.7:
            sched.append({"k": "a", "v": rng.choice([1, 50, 3000, 4000])})
        if rng.random() < 0.4:
            scripts[0] = [_op(1), _op(3), _op(2)]       # a Signal while the slot is still taken
            sched += [_t(0), {"k": "a", "v": rng.choice([1, 700])}]
        sched += [_t(0), _t(w)] + [_t(i) for i in range(1, n)]
        return {"prim": "tl", "n": n, "m": 0, "scripts": scripts, "sched": sched}
    if kind == 5:     # NewTimeoutLimit(0): always full -- TryBorrow fails, a timed Borrow times out, Return is an error
        to = rng.choice([8, 12, 20])
        ops = [_op(1), _op(2), _op(0, to), _op(1), _op(2)]
        rng.shuffle(ops)
        sched = []
        for o in ops:
            sched.append(_t(0))
            if o["code"] == 0:
                sched.append({"k": "w", "v": to + 40})
        return {"prim": "tl", "n": 0, "m": 0, "scripts": [ops], "sched": sched}
    if kind == 4:     # signalled while the slot is still taken: keep waiting with the remaining time; give up only
                      # when the (virtual) time spent reaches the timeout
        a1 = rng.choice([10, 30, 300])
        a2 = rng.choice([1000, 3990])
        return {"prim": "tl", "n": 1, "m": 0, "scripts": [[_op(1), _op(3), _op(3), _op(2)], [_op(0, 4000)]],
                "sched": [_t(0), _t(1), {"k": "a", "v": a1}, _t(0), {"k": "a", "v": a2}, _t(0), _t(0)]}
    if kind == 0:     # timer path: the limit stays full, the borrow gives up after its (real) timeout
        to = rng.choice([10, 15, 25])
        return {"prim": "tl", "n": 1, "m": 0, "scripts": [[_op(1), _op(2)], [_op(0, to)]],
                "sched": [_t(0), _t(1), {"k": "w", "v": to + 40}, _t(0)]}
    if kind == 1:     # signal path: a Return wakes the waiter, which then gets the slot
        adv = rng.choice([5, 30, 200])
        return {"prim": "tl", "n": 1, "m": 0, "scripts": [[_op(1), _op(2)], [_op(0, 4000), _op(2)]],
                "sched": [_t(0), _t(1), {"k": "a", "v": adv}, _t(0), _t(1)]}
    if kind == 2:     # no contention
        n = rng.randint(1, 3)
        scripts = [[_op(rng.choice([0, 1, 2]), 50) for _ in range(rng.randint(1, 3))] for _ in range(2)]
        # keep borrows non-blocking: never more than n borrows outstanding in any order
        tot = 0
        for s in scripts:
            for o in s:
                if o["code"] in (0, 1):
                    tot += 1
                    if tot > n and o["code"] == 0:
                        o["code"] = 1
        sched = [_t(rng.randrange(2)) for _ in range(8)]
        return {"prim": "tl", "n": n, "m": 0, "scripts": scripts, "sched": sched}
    # return without borrow, try on full
    return {"prim": "tl", "n": 1, "m": 0, "scripts": [[_op(2), _op(1), _op(1), _op(2), _op(2)]],
            "sched": [_t(0)] * 5}


def _gen_free(rng, prim):
    """no forced schedule: goroutines race freely (history checked against the contract only)"""
    g = rng.randint(2, 8)
    nkeys = rng.choice([1, 1, 2])
    scripts = [[] for _ in range(g)]
    sched = []
    if prim == "pool":
        for t in range(g):
            scripts[t] = [(_op(0, 1 if rng.random() < 0.04 else 0, 0, 1 if rng.random() < 0.1 else 0) if rng.random() < 0.66 else _op(1))
                          for _ in range(rng.randint(2, 8))]
        maxage = rng.choice([0, 1, 2, 5])
        sched = [{"k": "a", "v": rng.choice([1, 1, 2, 4])} for _ in range(rng.randint(0, 12))] if maxage else []
        return {"prim": "pool", "n": rng.randint(1, 3), "m": maxage, "scripts": scripts, "sched": sched, "free": True,
                "seed": rng.randrange(1 << 30)}
    gates = []
    for t in range(g):
        for i in range(rng.randint(1, 6)):
            gate = 0
            if rng.random() < 0.25:
                gate = len(gates) + 1
                gates.append(gate)
            key = 0 if prim == "bar" else rng.randint(1, nkeys)
            if prim == "rm":
                scripts[t].append(_op(0, key, gate, rng.choice([0, 0, 0, 1, 2])))
            else:
                val = 0 if (prim in ("sf", "lc") and rng.random() < 0.2) else 100 * (t + 1) + i + 1
                scripts[t].append(_op(rng.choice([0, 0, 1]) if prim == "sf" else 0, key, gate, val))
    rng.shuffle(gates)
    sched = [{"k": "o", "v": gt} for gt in gates]
    return {"prim": prim, "n": 0, "m": 0, "scripts": scripts, "sched": sched, "free": True, "seed": rng.randrange(1 << 30)}


def _gen_lc_chain(rng):
    """calls on ONE key, staggered: each next call arrives while its predecessor runs (or queue up two at a time)"""
    k = rng.randint(3, 6)
    scripts = [[_op(0, 1, i + 1, 100 * (i + 1) + 1 if rng.random() > 0.15 else 0)] for i in range(k)]
    sched = [_t(0), _t(1)]
    nxt = 2
    if rng.random() < 0.5 and k >= 4:
        sched.append(_t(2))
        nxt = 3
    for i in range(k):
        sched.append({"k": "o", "v": i + 1})
        if nxt < k:
            sched.append(_t(nxt))
            nxt += 1
    return {"prim": "lc", "n": 0, "m": 0, "scripts": scripts, "sched": sched}


def _gen_mr(rng):
    """ManagedResource: Take / MarkBroken(id); a gated equal callback holds the write lock while other
    goroutines run into it.  MarkBroken is only given ids that exist when it is issued, so the outcome
    does not depend on the order in which the blocked goroutines get the lock afterwards."""
    g = rng.randint(2, 5)
    scripts = [[] for _ in range(g)]
    sched = []
    cur, ngen, gate = 0, 0, 0
    for _ in range(rng.randint(3, 9)):
        free = list(range(g))
        rng.shuffle(free)
        a = free.pop()
        if ngen > 0 and rng.random() < 0.45:
            # gated MarkBroken of the current (or an older) resource; others pile up behind the write lock
            gate += 1
            arg = cur if (cur and rng.random() < 0.8) else rng.randint(1, ngen)
            scripts[a].append(_op(1, arg, gate))
            sched.append(_t(a))
            takes = 0
            others = free[:rng.randint(0, min(3, len(free)))]
            forced = ["mb", "take"] if (len(others) >= 2 and cur and rng.random() < 0.6) else []
            for j, u in enumerate(others):
                if j < len(forced) and forced[j] == "mb":      # a second report of the same resource ...
                    scripts[u].append(_op(1, arg, 0))
                    sched.append(_t(u))
                    continue
                if (j < len(forced) and forced[j] == "take") or rng.random() < 0.5:   # ... then a Take in between
                    scripts[u].append(_op(0))
                    takes += 1
                else:
                    scripts[u].append(_op(1, arg, 0))   # the same report (any other id could race with a blocked Take)
                sched.append(_t(u))
            sched.append({"k": "o", "v": gate})
            if cur == arg:
                cur = 0
            if takes and cur == 0:
                ngen += 1
                cur = ngen
        elif rng.random() < 0.6 or ngen == 0:
            scripts[a].append(_op(0))
            sched.append(_t(a))
            if cur == 0:
                ngen += 1
                cur = ngen
        else:
            arg = cur if (cur and rng.random() < 0.7) else rng.randint(1, ngen)
            scripts[a].append(_op(1, arg, 0))
            sched.append(_t(a))
            if cur == arg:
                cur = 0
    t = rng.randrange(g)
    scripts[t].append(_op(0))          # a final Take shows whether a resource nobody reported was discarded
    sched.append(_t(t))
    return {"prim": "mr", "n": 0, "m": 0, "scripts": scripts, "sched": sched}


def _gen_ir(rng):
    """ImmutableResource: fetches that fail (with nil, with a non-nil value, with a typed nil pointer),
    retry per refresh interval, overlapping fetches with interval 0 (at most one of them succeeds:
    two overlapping SUCCESSFUL fetches replace the shared resource on HEAD -- see ASSUMPTIONS)."""
    kind = rng.randrange(3)
    bad = lambda: rng.choice([0, 901, 902, 999])
    if kind == 0:
        # failures first, retried only after the interval; then success, shared from then on
        m = rng.choice([5, 20, 50])
        ops, sched, v = [], [], 10
        for _ in range(rng.randint(1, 3)):
            ops.append(_op(0, bad(), 0, 1))             # a fetch attempt that fails
            sched.append(_t(0))
            since = 0
            for _ in range(rng.randint(0, 2)):          # within the interval: no refetch, the error is served again
                d = rng.randint(0, m - since)
                if d:
                    sched.append({"k": "a", "v": d})
                    since += d
                ops.append(_op(0, bad(), 0, rng.choice([0, 1])))
                sched.append(_t(0))
            sched.append({"k": "a", "v": m - since + rng.randint(1, 9)})
        for _ in range(rng.randint(1, 3)):
            v += 1
            ops.append(_op(0, v, 0, 0))
            sched.append(_t(0))
        return {"prim": "ir", "n": 0, "m": m, "scripts": [ops], "sched": sched}
    if kind == 1:
        # interval 0, two overlapping Gets: one succeeds, the (slower or faster) other fails
        first_ok = rng.random() < 0.5
        a, b = (_op(0, 11, 1, 0), _op(0, bad(), 2, 1)) if first_ok else (_op(0, bad(), 1, 1), _op(0, 11, 2, 0))
        opens = [{"k": "o", "v": 1}, {"k": "o", "v": 2}]
        if rng.random() < 0.5:
            opens.reverse()
        scripts = [[a, _op(0, 21, 0, rng.choice([0, 1]))], [b, _op(0, 22, 0, 0)], [_op(0, 23, 0, rng.choice([0, 1])), _op(0, 24, 0, 1)]]
        sched = [_t(0), {"k": "a", "v": 1}, _t(1)] + opens + [{"k": "a", "v": rng.randint(0, 3)}, _t(2), _t(0), _t(1), _t(2)]
        return {"prim": "ir", "n": 0, "m": 0, "scripts": scripts, "sched": sched}
    # sequential mix over several goroutines
    m = rng.choice([0, 3, 10])
    g = rng.randint(2, 4)
    scripts = [[] for _ in range(g)]
    sched, v = [], 30
    for _ in range(rng.randint(4, 10)):
        if rng.random() < 0.35:
            sched.append({"k": "a", "v": rng.choice([1, 2, 5, 12])})
            continue
        t = rng.randrange(g)
        v += 1
        fail = 1 if rng.random() < 0.5 else 0
        scripts[t].append(_op(0, bad() if fail else v, 0, fail))
        sched.append(_t(t))
    return {"prim": "ir", "n": 0, "m": m, "scripts": scripts, "sched": sched}


def _gen_one(rng, prim, tier):
    if prim == "mr":
        return _gen_mr(rng)
    if prim == "ir":
        return _gen_ir(rng)
    if prim == "lc" and rng.random() < 0.3:
        return _gen_lc_chain(rng)
    if prim in ("sf", "lc", "bar", "rm", "pool") and rng.random() < 0.3:
        return _gen_free(rng, prim)
    if prim in ("sf", "lc", "bar", "rm"):
        return _gen_flight(rng, prim, tier)
    if prim == "pool" and rng.random() < 0.15:
        return _gen_pool_slow_destroy(rng)
    if prim == "pool":
        return _gen_pool(rng, tier)
    if prim == "tl":
        return _gen_tl(rng, tier)
    return _gen_atomic(rng, prim, tier)


def _directed():
    """fixed scenarios: forced overlap, later call, return without borrow, max age, clean once, one create"""
    g1 = {"k": "o", "v": 1}
    out = []
    out.append({"prim": "sf", "n": 0, "m": 0,
                "scripts": [[_op(0, 1, 1, 101), _op(0, 1, 0, 102)], [_op(0, 1, 0, 201)], [_op(1, 1, 0, 301)]],
                "sched": [_t(0), _t(1), _t(2), g1, _t(0), _t(1)]})
    out.append({"prim": "lc", "n": 0, "m": 0,
                "scripts": [[_op(0, 1, 1, 101)], [_op(0, 1, 0, 201)], [_op(0, 1, 0, 301)]],
                "sched": [_t(0), _t(1), _t(2), g1]})
    out.append({"prim": "bar", "n": 0, "m": 0,
                "scripts": [[_op(0, 0, 1, 101)], [_op(0, 0, 0, 201)]], "sched": [_t(0), _t(1), g1]})
    out.append({"prim": "lim", "n": 1, "m": 0, "scripts": [[_op(2), _op(1), _op(1), _op(2), _op(2)]], "sched": [_t(0)] * 5})
    out.append({"prim": "pool", "n": 1, "m": 10, "scripts": [[_op(0), _op(1), _op(0), _op(1), _op(0)], [_op(0)]],
                "sched": [_t(0), _t(0), _t(0), _t(1), _t(0), {"k": "a", "v": 50}, _t(0)]})
    out.append({"prim": "pool", "n": 2, "m": 10, "scripts": [[_op(0), _op(1), _op(0)], [_op(0), _op(1), _op(0)]],
                "sched": [_t(0), _t(1), _t(0), {"k": "a", "v": 5}, _t(1), {"k": "a", "v": 8}, _t(0), _t(1)]})
    out.append({"prim": "ref", "n": 0, "m": 0, "scripts": [[_op(0), _op(1), _op(0), _op(1)], [_op(0), _op(1), _op(1)]],
                "sched": [_t(0), _t(1), _t(0), _t(1), _t(0), _t(1), _t(0)]})
    # a panicking flight: the sharer returns nil, the key is free again, the later call executes afresh
    out.append({"prim": "sf", "n": 0, "m": 0,
                "scripts": [[_op(0, 1, 1, 0), _op(0, 1, 0, 102)], [_op(0, 1, 0, 201), _op(1, 1, 0, 202)], [_op(1, 1, 0, 0)]],
                "sched": [_t(0), _t(1), g1, _t(1), _t(0), _t(2), _t(1)]})
    out.append({"prim": "lc", "n": 0, "m": 0,
                "scripts": [[_op(0, 1, 1, 0), _op(0, 1, 0, 102)], [_op(0, 1, 0, 201)], [_op(0, 1, 0, 0)]],
                "sched": [_t(0), _t(1), _t(2), g1, _t(0)]})
    # Use / Clean issued while the clean callback is blocked inside Clean (it holds r.lock); a panicking callback
    out.append({"prim": "ref", "n": 0, "m": 0,
                "scripts": [[_op(0), _op(1, 0, 1, 0), _op(0)], [_op(0), _op(1)], [_op(1), _op(0)]],
                "sched": [_t(0), _t(0), _t(1), _t(2), g1, _t(1), _t(2), _t(0)]})
    out.append({"prim": "ref", "n": 0, "m": 0,
                "scripts": [[_op(0), _op(1, 1, 1, 0), _op(0), _op(1)], [_op(0), _op(1)]],
                "sched": [_t(0), _t(0), _t(1), g1, _t(1), _t(0), _t(0)]})
    # create callback blocked under the pool lock while another Get arrives; panicking create / destroy callbacks
    out.append({"prim": "pool", "n": 2, "m": 10,
                "scripts": [[_op(0, 0, 1, 0), _op(1), _op(0, 0, 0, 1), _op(0)], [_op(0, 1, 0, 0), _op(0), _op(1)]],
                "sched": [_t(0), _t(1), g1, _t(1), _t(0), {"k": "a", "v": 50}, _t(0), _t(0), _t(1)]})
    # negative size: the constructors panic (makechan) on HEAD -- recorded as the reference
    out.append({"prim": "lim", "n": -1, "m": 0, "scripts": [[]], "sched": []})
    out.append({"prim": "tl", "n": -2, "m": 0, "scripts": [[]], "sched": []})
    # ManagedResource: two holders report the same broken r1 (the first equal call blocks), a Take lands in between
    out.append({"prim": "mr", "n": 0, "m": 0,
                "scripts": [[_op(0), _op(1, 1, 1), _op(0)], [_op(0), _op(1, 1, 0), _op(0)], [_op(0), _op(0), _op(0)]],
                "sched": [_t(0), _t(1), _t(2), _t(0), _t(1), _t(2), g1, _t(0), _t(1), _t(2)]})
    # ImmutableResource: failing fetch with a non-nil value / typed nil pointer; retry only after the interval
    out.append({"prim": "ir", "n": 0, "m": 10,
                "scripts": [[_op(0, 999, 0, 1), _op(0, 21, 0, 0), _op(0, 901, 0, 1), _op(0, 23, 0, 0), _op(0, 24, 0, 0)]],
                "sched": [_t(0), _t(0), {"k": "a", "v": 11}, _t(0), {"k": "a", "v": 11}, _t(0), _t(0)]})
    # ... interval 0, overlapping Gets: the first succeeds, the slower second fails -- the fetched resource stays
    out.append({"prim": "ir", "n": 0, "m": 0,
                "scripts": [[_op(0, 11, 1, 0)], [_op(0, 902, 2, 1), _op(0, 15, 0, 0)], [_op(0, 13, 0, 0)]],
                "sched": [_t(0), {"k": "a", "v": 1}, _t(1), g1, {"k": "o", "v": 2}, {"k": "a", "v": 1}, _t(2), _t(1)]})
    # D19: a blocking Borrow on a limit of 0 and a Return by somebody who never borrowed: the Return is an error
    # and the Borrow stays blocked (before the fix they paired up: 1 outstanding borrow on a limit of 0)
    out.append({"prim": "lim", "n": 0, "m": 0, "scripts": [[_op(0), _op(2)], [_op(2), _op(1), _op(2)]],
                "sched": [_t(0), _t(1), _t(1), _t(1), _t(0)]})
    # Barrier.Guard / syncx.Guard with a guarded function that panics: the lock is released, the next Guard proceeds
    out.append({"prim": "bar", "n": 0, "m": 0,
                "scripts": [[_op(0, 0, 1, 0), _op(0, 0, 0, 102)], [_op(1, 0, 0, 0), _op(0, 0, 0, 202)], [_op(1, 0, 0, 301)]],
                "sched": [_t(0), _t(1), g1, _t(2), _t(0), _t(1)]})
    # SingleFlight: the leader's fn returns an error wrapping context.Canceled / DeadlineExceeded: the followers
    # (Do and DoEx) still get the shared result -- one execution for all overlapping calls
    for code in (901, 902):
        out.append({"prim": "sf", "n": 0, "m": 0,
                    "scripts": [[_op(1, 1, 1, code), _op(0, 1, 0, 102)], [_op(0, 1, 0, 201)], [_op(1, 1, 0, 301)], [_op(0, 1, 2, 401)]],
                    "sched": [_t(0), _t(1), _t(2), _t(3), g1, {"k": "o", "v": 2}, _t(0)]})
    # TWO instances, same key, overlapping: the second instance shares nothing with the first
    out.append({"prim": "rm", "n": 0, "m": 0, "split": 2,
                "scripts": [[_op(0, 1, 1, 0)], [_op(1)], [_op(0, 1, 0, 0), _op(0, 1, 0, 0)], [_op(1)]],
                "sched": [_t(0), _t(2), _t(2), _t(3), g1, _t(1)]})
    out.append({"prim": "sf", "n": 0, "m": 0, "split": 1, "scripts": [[_op(0, 1, 1, 101)], [_op(0, 1, 0, 201), _op(1, 1, 0, 202)]],
                "sched": [_t(0), _t(1), _t(1), g1]})
    out.append({"prim": "lc", "n": 0, "m": 0, "split": 1, "scripts": [[_op(0, 1, 1, 101)], [_op(0, 1, 0, 201)]],
                "sched": [_t(0), _t(1), g1]})
    out.append({"prim": "bar", "n": 0, "m": 0, "split": 1, "scripts": [[_op(0, 0, 1, 101)], [_op(0, 0, 0, 201)]],
                "sched": [_t(0), _t(1), g1]})
    out.append({"prim": "pool", "n": 1, "m": 0, "split": 1, "scripts": [[_op(0), _op(1)], [_op(0), _op(1)]],
                "sched": [_t(0), _t(1), _t(1), _t(0)]})
    out.append({"prim": "lim", "n": 1, "m": 0, "split": 1, "scripts": [[_op(1), _op(1), _op(2), _op(2)], [_op(1), _op(2), _op(2)]],
                "sched": [_t(0), _t(1), _t(0), _t(1), _t(0), _t(1), _t(0)]})
    # Pool at its limit, over-age idle resource, slow destroy: destroyed BEFORE its replacement is created
    out.append({"prim": "pool", "n": 1, "m": 10, "scripts": [[_op(0), _op(1), _op(0, 0, 0, 2), _op(1)], [_op(0), _op(1)]],
                "sched": [_t(0), _t(0), {"k": "a", "v": 50}, _t(0), _t(1), {"k": "o", "v": 81}, _t(0), _t(1)]})
    # ManagedResource: TWO Takes queued behind a gated MarkBroken both find "no resource": generate runs once
    out.append({"prim": "mr", "n": 0, "m": 0,
                "scripts": [[_op(0), _op(1, 1, 1)], [_op(0), _op(0)], [_op(0), _op(0)], [_op(0)]],
                "sched": [_t(0), _t(1), _t(2), _t(0), _t(1), _t(2), g1, _t(3)]})
    # ResourceManager, a NEW key: B is held up just before it enters the single flight; A's whole flight (lookup,
    # create, register) completes; then B enters: create must run once, both get the same resource, Close closes it once
    out.append({"prim": "rm", "n": 0, "m": 0,
                "scripts": [[_op(0, 1, 0, 0)], [_op(2, 1, 1, 0)], [_op(2, 1, 2, 0), _op(0, 2, 0, 0)], [_op(1)]],
                "sched": [_t(1), _t(2), _t(0), g1, {"k": "o", "v": 2}, _t(2), _t(3)]})
    # Pool filled to its limit, a stray Put(nil): the next Get must still wait for a real Put
    for lim in (1, 2):
        scr = [[_op(0), _op(2), _op(1)]] + [[_op(0)] for _ in range(lim - 1)] + [[_op(2), _op(0), _op(2)]]
        w = lim
        out.append({"prim": "pool", "n": lim, "m": 0, "scripts": scr,
                    "sched": [_t(i) for i in range(lim)] + [_t(0), _t(w), _t(w), _t(0), _t(w)]})
    # TimeoutLimit, "wait for ever" (math.MaxInt64) and 100 years: woken by a Return, the Borrow takes the slot
    for b in (1, 3):
        out.append({"prim": "tl", "n": 1, "m": 0, "scripts": [[_op(1), _op(3), _op(2)], [_op(0, 4900, b), _op(2)]],
                    "sched": [_t(0), _t(1), {"k": "a", "v": 3000}, _t(0), {"k": "a", "v": 900}, _t(0), _t(1)]})
    # boundary size 0: nothing can be borrowed, Return is an error, a timed Borrow times out
    out.append({"prim": "lim", "n": 0, "m": 0, "scripts": [[_op(1), _op(2), _op(1)], [_op(2), _op(1)]],
                "sched": [_t(0), _t(1), _t(0), _t(1), _t(0)]})
    out.append({"prim": "tl", "n": 0, "m": 0, "scripts": [[_op(1), _op(0, 12), _op(2), _op(1)]],
                "sched": [_t(0), _t(0), {"k": "w", "v": 60}, _t(0), _t(0)]})
    # Gets arriving while a create callback is still running, limit 1 and 2 (history check only)
    for lim in (1, 2):
        out.append({"prim": "pool", "n": lim, "m": 0, "spec_only": True,
                    "scripts": [[_op(0, 0, 1, 0), _op(1)], [_op(0, 0, 2, 0), _op(1)], [_op(0, 0, 2, 0), _op(1)]],
                    "sched": [_t(0), _t(1), _t(2), g1, {"k": "o", "v": 2}, _t(0), _t(1), _t(2), _t(0), _t(1), _t(2)]})
    # Close with resources whose own Close() fails: all of them / some of them
    out.append({"prim": "rm", "n": 0, "m": 0,
                "scripts": [[_op(0, 1, 0, 3), _op(0, 2, 0, 3), _op(0, 3, 0, 3), _op(0, 4, 0, 3)], [_op(1)]],
                "sched": [_t(0), _t(0), _t(0), _t(0), _t(1)]})
    out.append({"prim": "rm", "n": 0, "m": 0,
                "scripts": [[_op(0, 1, 0, 3), _op(0, 2, 0, 0), _op(0, 3, 0, 3)], [_op(0, 4, 0, 0), _op(0, 5, 0, 3), _op(0, 1, 0, 0)], [_op(1)]],
                "sched": [_t(0), _t(1), _t(0), _t(1), _t(0), _t(1), _t(2)]})
    # LockedCalls, three staggered calls on one key: B queues behind A; C arrives after A finished, while B runs
    out.append({"prim": "lc", "n": 0, "m": 0,
                "scripts": [[_op(0, 1, 1, 101)], [_op(0, 1, 2, 201)], [_op(0, 1, 0, 301)]],
                "sched": [_t(0), _t(1), g1, _t(2), {"k": "o", "v": 2}]})
    # ... and with two calls queued behind A, plus a fourth arriving while the first of them runs
    out.append({"prim": "lc", "n": 0, "m": 0,
                "scripts": [[_op(0, 1, 1, 101)], [_op(0, 1, 2, 201)], [_op(0, 1, 3, 301)], [_op(0, 1, 0, 401)]],
                "sched": [_t(0), _t(1), _t(2), g1, _t(3), {"k": "o", "v": 2}, {"k": "o", "v": 3}]})
    # create panics inside the flight; Close while a create is in flight
    out.append({"prim": "rm", "n": 0, "m": 0,
                "scripts": [[_op(0, 1, 1, 2), _op(0, 1, 0, 0)], [_op(0, 1, 0, 0)], [_op(0, 2, 2, 0)], [_op(1)]],
                "sched": [_t(0), _t(1), g1, _t(0), _t(2), _t(3), {"k": "o", "v": 2}, _t(1)]})
    out.append({"prim": "tl", "n": 1, "m": 0, "scripts": [[_op(1), _op(3), _op(3), _op(2)], [_op(0, 4000)]],
                "sched": [_t(0), _t(1), {"k": "a", "v": 30}, _t(0), {"k": "a", "v": 3980}, _t(0), _t(0)]})
    out.append({"prim": "rm", "n": 0, "m": 0,
                "scripts": [[_op(0, 1, 1, 0), _op(0, 1, 0, 0)], [_op(0, 1, 0, 0)], [_op(0, 2, 0, 1), _op(0, 2, 0, 0)], [_op(1)]],
                "sched": [_t(0), _t(1), _t(2), g1, _t(0), _t(2), _t(3)]})
    return out


STRESS_MS = {"quick": 120, "search": 120, "thorough": 600}


def _stress(rng, tier):
    """contention stress: nothing to gate inside a spin loop or inside sync.Once, so several goroutines hammer
    the primitive for a while and count what must never happen (cannot fail on the unchanged code)"""
    ms = STRESS_MS.get(tier, 120)
    out = []
    for prim in ("spinx", "donex"):
        for g in ([2, rng.randint(3, 8)] if tier != "thorough" else [2, 3, 4, 6, 8, rng.randint(9, 16)]):
            out.append({"prim": prim, "n": g, "m": ms, "scripts": [], "sched": []})
    # OnceGuard: 2^n + 2 Takes, exactly one true.  n = 32 (wrap of a uint32 call counter, ~40 s) only in the thorough tier
    out.append({"prim": "oncex", "n": 32 if tier == "thorough" else 20, "m": 0, "scripts": [], "sched": []})
    return out


def generate(rng, tier, n):
    cases = (list(_directed()) if tier != "search" else []) + _stress(rng, tier)
    i = 0
    rr = [p_ for p_ in PRIMS if p_ not in ("spinx", "donex", "oncex")]
    while len(cases) < n:
        prim = rr[i % len(rr)]
        i += 1
        if prim == "tl" and (i // len(PRIMS)) % 2 == 1 and tier == "quick":
            prim = rng.choice(["sf", "lc", "pool", "rm"])   # keep the real-time cases few
        cases.append(_gen_one(rng, prim, tier))
    return cases[:n] if n >= len(_directed()) else cases


def drive(cases, tier):
    """Run the driver; if the test process dies (e.g. the Go runtime's unrecoverable
    'unlock of unlocked mutex'), isolate the fatal cases so that the others still yield histories."""
    import vlib
    obs, log = vlib.run_driver(GO_PKG, cases, name=ID + tier[:1], timeout=DRIVER_TIMEOUT)
    if obs is not None or not cases:
        return obs, log
    out, logs = [], [log[-1500:]]

    def run(chunk, depth):
        o, lg = vlib.run_driver(GO_PKG, chunk, name="%s%s_iso" % (ID, tier[:1]), timeout=120)
        if o is not None:
            return o
        if len(chunk) == 1:
            logs.append(lg[-600:])
            return [{"hist": [], "results": [], "stuck": -2, "timeouts": 0, "crashed": 1}]
        mid = len(chunk) // 2
        return run(chunk[:mid], depth + 1) + run(chunk[mid:], depth + 1)

    step = 24
    for i in range(0, len(cases), step):
        out += run(cases[i:i + step], 0)
    return out, "\n".join(logs)


def search(rng, problems):
    return list(_directed())


_KIND = ["KInv", "KRet", "KBegin", "KEnd"]


def _n(v):
    return cnat(min(max(int(v), 0), 4900))


def encode(case, obs):
    prim = case["prim"]
    if case.get("n", 0) < 0:
        # reference behaviour of HEAD: NewLimit / NewTimeoutLimit with a negative size panic in the constructor
        ok = bool(obs.get("ctor_panic"))
        return "mkcase %s 0 0 [] [] %s []" % (cnat(PRIM_NO[prim]), "[]" if ok else "[[(0, 0)]]")
    res = obs.get("results", [])
    split = case.get("split", 0)
    if split:
        # two instances: threads >= split (second instance) are renumbered 50.. for the Coq side
        tmap = lambda t: (50 + t - split) if (split <= t < 900) else t
        g = len(case["scripts"])
        pad = lambda rows, empty: [rows[t] if t < split else empty for t in range(split)] + [empty] * (50 - split) + \
                                   [rows[t] for t in range(split, g)]
        sub = dict(case)
        sub.pop("split")
        sub["scripts"] = pad(case["scripts"], [])
        sub["sched"] = [({"k": "t", "v": tmap(st["v"])} if st["k"] == "t" else st) for st in case["sched"]]
        sobs = dict(obs)
        sobs["results"] = pad(res + [[]] * (g - len(res)), [])
        sobs["hist"] = [[tmap(e[0])] + list(e[1:]) for e in obs.get("hist", [])]
        term = encode(sub, sobs)
        head, rest = term.split(" ", 2)[0], term.split(" ", 2)[2]
        return "%s %s %s" % (head, cnat(PRIM_NO[prim] + 200), rest)
    scripts = []
    for t, s in enumerate(case["scripts"]):
        ops = []
        for i, o in enumerate(s):
            c = o["c"]
            if prim == "tl" and o["code"] == 0:
                c = res[t][i][0] if t < len(res) and i < len(res[t]) else 0
            ops.append("mkop %s %s %s %s" % (_n(o["code"]), _n(o["a"]), _n(o["b"]), _n(c)))
        scripts.append(clist(ops))
    sched = []
    for st in case["sched"]:
        if st["k"] == "t":
            sched.append("Thr %s" % _n(st["v"]))
        elif st["k"] == "o":
            sched.append("Open %s" % _n(st["v"]))
        elif st["k"] == "a":
            sched.append("Adv %s" % _n(st["v"]))
    results = [clist(["(%s, %s)" % (_n(r[0]), _n(r[1])) for r in rs]) for rs in res]
    hist = []
    seen = {}
    for e in obs.get("hist", []):
        t, k, op, a, b, c = e
        if prim == "tl" and k == 0 and op == 0:
            i = seen.get(t, 0)
            # position of this Borrow among the thread's calls = number of its earlier invocations
            c = res[t][i][0] if t < len(res) and i < len(res[t]) else 0
        if k == 0:
            seen[t] = seen.get(t, 0) + 1
        hist.append("mkev %s %s %s %s %s %s" % (_n(t), _KIND[k], _n(op), _n(a), _n(b), _n(c)))
    return "mkcase %s %s %s %s %s %s %s" % (cnat(PRIM_NO[prim] + (100 if (case.get("free") or case.get("spec_only")) else 0)), _n(case["n"]), _n(case["m"]), clist(scripts),
                                           clist(sched), clist(results), clist(hist))


def _overlap(obs):
    openc = set()
    for e in obs.get("hist", []):
        t, k = e[0], e[1]
        if k == 0:
            if openc:
                return True
            openc.add(t)
        elif k == 1:
            openc.discard(t)
    return False


def nontrivial(case, obs):
    if case["prim"] in ("spinx", "donex", "oncex"):
        return True
    return _overlap(obs)


def bucket(case, obs):
    out = ["prim:" + case["prim"], "threads=%d" % len(case["scripts"])]
    if case.get("free"):
        out.append("free-running")
    if _overlap(obs):
        out.append("overlap")
    if obs.get("timeouts"):
        out.append("QUIESCE-TIMEOUT")
    if obs.get("stuck"):
        out.append("STUCK")
    if obs.get("crashed"):
        out.append("DRIVER-PROCESS-DIED")
    h = obs.get("hist", [])
    if case["prim"] == "sf" and any(e[1] == 1 and e[5] == 0 for e in h):
        out.append("sf:shared")
    if case["prim"] == "pool" and any(e[1] == 3 for e in h):
        out.append("pool:destroyed")
    if case["prim"] == "lim" and any(e[1] == 1 and e[2] == 2 and e[3] == 1 for e in h):
        out.append("lim:ErrLimitReturn")
    if case["prim"] == "ref" and any(e[1] == 1 and e[2] == 0 and e[3] == 1 for e in h):
        out.append("ref:ErrUseOfCleaned")
    if case["prim"] == "tl" and any(e[1] == 1 and e[2] == 0 and e[3] == 1 for e in h):
        out.append("tl:ErrTimeout")
    if case["prim"] in ("sf", "lc") and any(e[1] == 1 and e[5] == 2 for e in h):
        out.append(case["prim"] + ":fn-panicked")
    if case["prim"] == "rm" and any(e[1] == 1 and e[2] == 0 and e[5] == 2 for e in h):
        out.append("rm:panic")
    if case["prim"] == "pool" and any(e[1] == 1 and e[2] == 0 and e[5] == 2 for e in h):
        out.append("pool:callback-panicked")
    if case["prim"] == "ref" and any(e[1] == 1 and e[2] == 1 and e[3] == 2 for e in h):
        out.append("ref:callback-panicked")
    if case["prim"] == "rm" and any(e[1] == 3 and e[2] == 1 and e[5] == 1 for e in h):
        out.append("rm:close-error")
    if case["prim"] in ("lim", "tl") and case.get("n", 1) <= 0:
        out.append("size<=0")
    if case["prim"] == "ir" and any(e[1] == 3 and e[5] == 1 and e[3] != 0 for e in h):
        out.append("ir:error-with-nonnil-value")
    if case["prim"] == "mr" and sum(1 for e in h if e[1] == 2) >= 2:
        out.append("mr:regenerated")
    if case["prim"] == "tl" and any(o.get("b") for sc in case["scripts"] for o in sc if o["code"] == 0):
        out.append("tl:boundary-timeout")
    if case["prim"] in ("spinx", "donex", "oncex"):
        out.append("stress")
    if case["prim"] == "sf" and any(e[1] == 3 and e[4] in (901, 902) for e in h):
        out.append("sf:leader-context-error")
    if case["prim"] == "bar" and any(e[1] == 1 and e[5] == 2 for e in h):
        out.append("bar:fn-panicked")
    if case.get("split"):
        out.append("two-instances")
    if case.get("spec_only"):
        out.append("history-only")
    if any(e[0] == 1000 for e in h):
        out.append("drained")
    return out


def classify(case, obs):
    return None


def explain(case, obs):
    return ("the recorded history of %s violates its contract (C18.Exec.spec_ok): see Spec.v, monitor for primitive '%s' "
            "(sharing/exclusion/bound/age/clean-once/one-create clause)" % (case["prim"], case["prim"]))


def shrink(v):
    return v
