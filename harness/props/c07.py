"""C07 MapReduce: scripted generator/mapper/reducer behaviours x seeded schedule perturbation.

A case is the script handed to lib/mr/verif_driver_test.go; the observation is the global trace of
callback events, the outcome of the call and the goroutine count after a bounded settle loop.
`C07.Exec.spec_ok` checks the clauses of the property text on the observation alone, `C07.Exec.model_ok`
checks (small cases) that the LTS of C07/Model.v has a run with the same observables.

Known-finding classes (KNOWN_FINDINGS.txt; classify() returns a class only when Coq confirms, via Exec.spec_wo_*, that
the class' clause is the ONLY failing one):
  send_on_closed            finish() between guardedWriter's check and its send on `output`: the runtime panic "send on
                            closed channel" is re-raised in the caller (rare; Props c07_send_on_closed_refuted)
  ctx_select_race           context done before the call, the caller's select takes the closed output (rare;
                            Props c07_ctx_result_refuted)
"""
import os

from vlib import cnat, cbool, clist, copt, cZ, canon

ID = "C07"
GO_PKG = "./lib/mr"
_F = "lib/mr/mapreduce.go"
GEN_SPEC = {"items": [
    {"kind": "const", "file": _F, "name": "minWorkers"},
    {"kind": "const", "file": _F, "name": "defaultWorkers"},
    {"kind": "calls", "file": _F, "func": "mapReduceWithPanicChan", "as": "sk_mapReduceWithPanicChan"},
    {"kind": "calls", "file": _F, "func": "executeMappers", "as": "sk_executeMappers"},
    {"kind": "calls", "file": _F, "func": "buildSource", "as": "sk_buildSource"},
    {"kind": "calls", "file": _F, "func": "drain", "as": "sk_drain"},
    {"kind": "calls", "file": _F, "func": "guardedWriter.Write", "as": "sk_guardedWrite"},
    {"kind": "calls", "file": _F, "func": "onceChan.write", "as": "sk_onceChanWrite"},
    {"kind": "calls", "file": _F, "func": "once", "as": "sk_once"},
    {"kind": "calls", "file": _F, "func": "MapReduce", "as": "sk_MapReduce"},
    {"kind": "calls", "file": _F, "func": "MapReduceChan", "as": "sk_MapReduceChan"},
    {"kind": "calls", "file": _F, "func": "MapReduceVoid", "as": "sk_MapReduceVoid"},
    {"kind": "calls", "file": _F, "func": "ForEach", "as": "sk_ForEach"},
    {"kind": "calls", "file": _F, "func": "Finish", "as": "sk_Finish"},
    {"kind": "calls", "file": _F, "func": "FinishVoid", "as": "sk_FinishVoid"},
    {"kind": "calls", "file": _F, "func": "WithWorkers", "as": "sk_WithWorkers"},
    {"kind": "calls", "file": "lib/errorx/atomicError.go", "func": "AtomicError.Set", "as": "sk_atomicSet"},
    {"kind": "calls", "file": "lib/errorx/atomicError.go", "func": "AtomicError.Load", "as": "sk_atomicLoad"},
]}
QUICK_N = 320
THOROUGH_N = 6000
SEARCH_N = 400
SHARD = 80
DRIVER_TIMEOUT = 1500
COQ_FILES = ["theories/C07/Props.v", "theories/C07/Link.v", "theories/C07/Proofs.v",
             "theories/C07/ProofsA.v", "theories/C07/ProofsB.v", "theories/C07/ProofsC.v", "theories/C07/ProofsD.v",
             "theories/C07/ProofsE.v", "theories/C07/ProofsF.v", "theories/C07/ProofsG.v", "theories/C07/Explore.v", "theories/C07/Tests.v", "theories/C07/ExploreTests.v"]
# ExploreTests.v (exhaustive small-bound explorations, ~40 s) is built but kept out of Props.v's cone
COQ_TARGETS = ["theories/C07/Props.v", "theories/C07/Link.v", "theories/C07/ExploreTests.v", "theories/C07/Exec.v"]
RULE = ("scripts for MapReduce/MapReduceChan/MapReduceVoid/ForEach/Finish/FinishVoid: 0-20 items (64 in the big "
        "class), workers in {-1,0,1,2,3,4,8,default}, per-item mapper scripts of write/cancel(err|nil)/panic/"
        "wait-for-return/cancel-context actions, reducer = receive all or j values then write 0-2 times or panic, "
        "generator panic, context none/done-before/cancelled-by-a-mapper/cancelled-by-the-driver-while-the-generator-waits-"
        "at-a-gate; values = tagged ints plus untyped nil, int 0, empty string, nil pointer in an any (items, mapper "
        "writes, reducer writes); cancel errors = value errors, untyped nil, typed nil pointer / nil slice, pointer; "
        "direct Set/Load streams on errorx.AtomicError; every callback perturbs the schedule from "
        "the case seed (Gosched / microsecond sleeps); classes clean, cancel, panic, ctx, big, boundary; "
        "non-trivial = at least 2 items mapped and (>=2 values received or a cancel/panic/ctx event observed); "
        "distinct = distinct canonical case JSON")
TRUSTED = ["Go scheduler fairness (a goroutine that can run eventually runs) and runtime.NumGoroutine as leak detector "
           "(bounded settle loop 1.5 s, hang limit 4 s)",
           "the event log orders callback entry/exit points, not the library's internal steps; model_ok accepts an "
           "observation iff an oracle-guided scheduler finds a model run with the same mapped set, reducer receive "
           "sequence and outcome (sound by Link.model_run_reachable, incomplete by design)"]
ASSUMPTIONS = ["finish's close(done);close(output) and the other merged adjacent steps listed in Model.v's header are atomic",
               "stuck-freedom needs: workers >= 1, no mapper that waits for the call's return, at most two reducer writes "
               "(c07_third_write_refuted shows the third one blocks for ever)",
               "model_ok only for <= 6 items and <= 3 workers; larger cases are checked by spec_ok only"]

FNS = ["MapReduce", "MapReduceVoid", "MapReduceChan", "ForEach", "Finish", "FinishVoid", "AtomicError"]


def _w(k):
    return {"op": "write", "k": k + 10}


def _case(rng, fn="MapReduce", workers=2, noopt=False, items=(), gpanic=-1, rtake=-1, rafter=(), ctx="none", cls="clean",
          gate1=0, release="now"):
    c = {"fn": fn, "workers": workers, "noopt": noopt, "items": [{"acts": list(a)} for a in items],
         "gpanic": gpanic, "rtake": rtake, "rafter": list(rafter), "ctx": ctx,
         "seed": rng.randrange(1 << 30), "cls": cls, "nilitem1": 0, "gate1": gate1, "release": release}
    return _spice(rng, c)


# value codes < 10 are raw special values (0 untyped nil, 1 int 0, 2 "", 3 nil *int inside an any): they carry no
# origin tag, so each is written by at most one mapper write per case (the encoder maps it back to that write)
RAW = [0, 1, 2, 3]
TYPED_NIL_ERRS = [1, 2, 3]      # 1 nil *T, 2 nil slice type, 3 non-nil *T  (0 = untyped nil = cancelnil)
CTX_ERRS = [4, 5, 6, 7]         # context.Canceled, context.DeadlineExceeded themselves, errors wrapping them (%w): a mapper's
                                # own per-item timeout; the call must return THAT error value although its own context is fine


def _spice(rng, c):
    """nil / zero values in items, mapper writes, reducer writes; typed-nil errors in cancel / Finish"""
    fn = c["fn"]
    n = len(c["items"])
    used = {a["k"] for it in c["items"] for a in it["acts"] if a["op"] == "write" and a["k"] < 10}
    if fn in ("MapReduce", "MapReduceChan", "MapReduceVoid") and n and rng.random() < 0.35:
        for code in rng.sample(RAW, rng.choice([1, 1, 2])):
            if code in used:
                continue
            it = c["items"][rng.randrange(n)]["acts"]
            # before the first cancel/panic/waitret of that mapper so that clean scripts stay clean scripts
            stop = next((j for j, a in enumerate(it) if a["op"] != "write"), len(it))
            it.insert(rng.randint(0, stop), {"op": "write", "k": code})
            used.add(code)
    if fn in ("MapReduce", "MapReduceChan"):
        pool = rng.sample([0, 1, 2, 3, 17, 18], 2)
        j = 0
        for a in c["rafter"]:
            if a["op"] == "write" and rng.random() < 0.6:
                a["k"] = pool[j % 2]
                j += 1
    if fn in ("MapReduce", "MapReduceChan", "MapReduceVoid", "ForEach") and n and rng.random() < 0.2:
        c["nilitem1"] = 1 + rng.randrange(n)
    for it in c["items"]:
        for a in it["acts"]:
            if a["op"] == "cancel" and rng.random() < 0.3:
                a["k"] = rng.choice(TYPED_NIL_ERRS)
            elif a["op"] == "cancel" and rng.random() < 0.3:
                a["k"] = rng.choice(CTX_ERRS if c["ctx"] == "none" else [4, 6, 7])
    return c


def _workers(rng):
    return rng.choice([1, 1, 2, 2, 3, 3, 4, 8, 0, -1])


def _writes(rng, maxw=3):
    return [_w(j + 1) for j in range(rng.choice([0, 1, 1, 1, 2, maxw]))]


def _total_writes(items):
    return sum(1 for a in items for x in a if x["op"] == "write")


def gen_clean(rng, tier, big=False):
    if big:
        n = rng.choice([24, 33, 48, 64])
    else:
        n = rng.choice([0, 1, 2, 2, 3, 3, 4, 5, 6, 6, 8, 12, 20])
    fn = rng.choice(["MapReduce"] * 5 + ["MapReduceChan"] * 2 + ["MapReduceVoid"] * 2 + ["ForEach", "Finish", "FinishVoid"])
    workers, noopt = _workers(rng), rng.random() < 0.1
    if fn in ("ForEach", "Finish", "FinishVoid"):
        return _case(rng, fn=fn, workers=workers, noopt=noopt, items=[[] for _ in range(n)], cls="clean")
    items = [_writes(rng) for _ in range(n)]
    tot = _total_writes(items)
    rtake = -1 if rng.random() < 0.65 else rng.randint(0, tot + 1)
    rafter = [] if fn == "MapReduceVoid" else [_w(7 + j) for j in range(rng.choice([0, 1, 1, 1, 2]))]
    c = _case(rng, fn=fn, workers=workers, noopt=noopt, items=items, rtake=rtake, rafter=rafter,
              cls="big" if big else "clean")
    # "writing twice panics in the caller" - also when the reducer swallows every panic inside itself
    c["rrecover"] = rng.random() < 0.5
    return c


def gen_cancel(rng, tier, big=False):
    n = rng.choice([24, 40]) if big else rng.randint(1, 8)
    fn = rng.choice(["MapReduce"] * 5 + ["MapReduceChan"] * 2 + ["MapReduceVoid"] * 2 + ["Finish"] * 2)
    ecode = [100]

    def cancel():
        if rng.random() < 0.2:
            return {"op": "cancelnil"}
        ecode[0] += 1
        return {"op": "cancel", "k": ecode[0]}
    if fn == "Finish":
        items = [[cancel()] if rng.random() < 0.4 else [] for _ in range(n)]
        for a in items:  # Finish cannot cancel with nil (a nil error is success)
            for x in a:
                if x["op"] == "cancelnil":
                    ecode[0] += 1
                    x["op"], x["k"] = "cancel", ecode[0]
        return _case(rng, fn=fn, workers=n, items=items, rtake=0, cls="cancel")
    ncanc = rng.choice([1, 1, 2, 3])
    cset = set(rng.sample(range(n), min(ncanc, n)))
    first = min(cset)
    items = []
    for i in range(n):
        acts = []
        k = 0
        if i in cset:
            for _ in range(rng.choice([0, 0, 1, 2])):
                k += 1
                acts.append(_w(k))
            acts.append(cancel())
            if rng.random() < 0.35:
                acts.append(cancel())       # second cancel in the same mapper: must not change the error
            for _ in range(rng.choice([0, 0, 1])):
                k += 1
                acts.append(_w(k))
        else:
            acts = _writes(rng, 2)
            if i > first and rng.random() < 0.25:
                acts.insert(rng.choice([0, len(acts)]), {"op": "waitret"})
        items.append(acts)
    if rng.random() < 0.25:
        # a panic next to the cancel (since d413f58 a late panic neither leaks nor hangs); a mapper that waits for
        # the return could deadlock with a caller that took the panic arm, so no waitret here
        for a in items:
            a[:] = [x for x in a if x["op"] != "waitret"]
        j = rng.randrange(n)
        items[j].insert(rng.randint(0, len(items[j])), {"op": "panic", "k": 201})
    if rng.random() < 0.6:
        rtake, rafter = -1, [_w(7)] if (fn != "MapReduceVoid" and rng.random() < 0.5) else []
    else:
        rtake, rafter = rng.randint(0, _total_writes(items) + 1), []
    return _case(rng, fn=fn, workers=_workers(rng), items=items, rtake=rtake, rafter=rafter, cls="big" if big else "cancel")


def gen_panic(rng, tier):
    n = rng.randint(1, 8)
    fn = rng.choice(["MapReduce"] * 4 + ["MapReduceChan", "MapReduceVoid", "ForEach", "FinishVoid", "Finish"])
    pcode = [200]

    def pn():
        pcode[0] += 1
        return {"op": "panic", "k": pcode[0]}
    who = rng.choice(["mapper", "mapper", "mapper", "gen", "reducer", "two"])
    if fn in ("ForEach", "FinishVoid", "Finish"):
        items = [[] for _ in range(n)]
        if fn == "ForEach" and rng.random() < 0.4:      # the generator panics after producing its items
            return _case(rng, fn=fn, workers=_workers(rng), items=items[:rng.randint(0, n)], gpanic=202, cls="panic")
        for i in rng.sample(range(n), min(n, rng.choice([1, 1, 2]))):
            items[i] = [pn()]
        return _case(rng, fn=fn, workers=_workers(rng), items=items, rtake=0 if fn == "Finish" else -1, cls="panic")
    items = [_writes(rng, 2) for _ in range(n)]
    gpanic, rtake, rafter = -1, -1, []
    if who in ("mapper", "two"):
        for i in rng.sample(range(n), min(n, 2 if who == "two" else 1)):
            items[i] = items[i][:rng.randint(0, len(items[i]))] + [pn()]
    if who == "gen" and fn != "MapReduceChan":
        pcode[0] += 1
        gpanic = pcode[0]
    if who == "reducer" or (who == "gen" and fn == "MapReduceChan"):
        rtake = rng.choice([-1, -1, 0, 1, 2])
        pcode[0] += 1
        rafter = [{"op": "panic", "k": pcode[0]}]
        if fn != "MapReduceVoid" and rng.random() < 0.4:
            rafter.insert(0, _w(7))                # reducer writes, then panics
    elif rng.random() < 0.6:
        if fn != "MapReduceVoid" and rng.random() < 0.6:
            rafter = [_w(7)]                       # consume all, then write: the panic is delivered before
            if rng.random() < 0.4:
                rtake = rng.randint(0, 2)          # value handed over early, panic later: re-raised since e753473
        else:
            rtake = rng.randint(0, 2)              # stop early, no write
    return _case(rng, fn=fn, workers=_workers(rng), items=items, gpanic=gpanic, rtake=rtake, rafter=rafter, cls="panic")


def gen_ctx(rng, tier):
    n = rng.randint(0, 8)
    fn = rng.choice(["MapReduce"] * 4 + ["MapReduceChan", "MapReduceVoid"])
    items = [_writes(rng, 2) for _ in range(n)]
    ctx = "pre" if (rng.random() < 0.4 or n == 0) else "live"
    if ctx == "live":
        i = rng.randrange(n)
        items[i].insert(rng.randint(0, len(items[i])), {"op": "ctxcancel"})
    if n and rng.random() < 0.2:
        j = rng.randrange(n)
        items[j].append({"op": "cancel", "k": 150})
    if n and rng.random() < 0.2 and ctx == "pre":
        items[rng.randrange(n)].insert(0, {"op": "waitret"})
    elif n and rng.random() < 0.2:
        items[rng.randrange(n)].append({"op": "panic", "k": 201})      # late or early panic next to the ctx
    if rng.random() < 0.7:
        rtake, rafter = -1, ([_w(7)] if fn != "MapReduceVoid" and rng.random() < 0.5 else [])
    else:
        rtake, rafter = rng.randint(0, 3), []
    return _case(rng, fn=fn, workers=_workers(rng), items=items, rtake=rtake, rafter=rafter, ctx=ctx, cls="ctx")


def gen_gate(rng, tier):
    """the driver cancels the context while the generator waits at a gate before item g: in-flight mappers finish, the
    reducer (range over the pipe) writes in that window - before the caller has returned (release after the reducer
    returned) or after it (a mapper that only returns after the call, release at once)"""
    n = rng.randint(2, 8)
    g = rng.randint(1, n - 1)
    fn = rng.choice(["MapReduce"] * 3 + ["MapReduceChan", "MapReduceVoid"])
    items = [_writes(rng, 2) for _ in range(n)]
    release = rng.choice(["re", "re", "now"])
    if release == "now" and rng.random() < 0.7:
        items[g - 1].insert(rng.choice([0, len(items[g - 1])]), {"op": "waitret"})   # last item before the gate: in flight
    rafter = [] if fn == "MapReduceVoid" else [_w(7 + j) for j in range(rng.choice([0, 1, 1, 2]))]
    return _case(rng, fn=fn, workers=_workers(rng), items=items, rtake=-1, rafter=rafter, ctx="gate", cls="gate",
                 gate1=g + 1, release=release)


def gen_cancel_race(rng, tier):
    """cancel(err) racing with a reducer write: w workers; items 0..w-1 are mapped (one of them cancels, the others
    only return after the call), so the dispatcher waits for a pool slot and item w can only be taken by the
    drain(source) inside cancel; the generator then waits at its gate (before item w+1), i.e. cancel stays inside its
    drain with done/output still open; an early-stopping reducer waits until item w has been sent and writes its
    value into exactly that window; the gate opens once that Write has returned. The call must return the cancel error."""
    w = rng.choice([1, 2, 2, 3])
    n = w + 1 + rng.randint(1, 3)
    fn = rng.choice(["MapReduce", "MapReduce", "MapReduceChan"])
    canc = w - 1                     # the earlier items are dispatched (and parked) before the canceller even starts
    items = []
    pre = rng.choice([0, 1, 2])
    for i in range(n):
        if i == canc:
            items.append([_w(j + 1) for j in range(pre)] + [{"op": "cancel", "k": 101}])
        elif i < w:
            items.append([{"op": "waitret"}])
        else:
            items.append([])
    # one write only: a second one would race with the close of output right after the gate opens (send_on_closed)
    rafter = [{"op": "waitsent", "k": w}, _w(7)]
    c = _case(rng, fn=fn, workers=w, items=items, rtake=0, rafter=rafter, cls="cancel_race",
              gate1=w + 2, release="rd")
    # every write that precedes the cancel / the parking must fit: received by the reducer or buffered (cap = w)
    total = 0
    for it in c["items"][:w]:
        for a in it["acts"]:
            if a["op"] != "write":
                break
            total += 1
    c["rtake"] = rng.randint(max(0, total - w), total)
    return c


def gen_panic_one_worker(rng, tier):
    """a panic of a mapper, of the GENERATOR (after producing 0..k items) or of the reducer with exactly one worker:
    WithWorkers(1), clamped WithWorkers(<=1), Finish/FinishVoid with one function, ForEach with one worker: re-raised in
    the calling goroutine with its value - neither escaping in a library goroutine nor swallowed by a normal return"""
    who = rng.choice(["mapper", "mapper", "gen", "gen", "gen", "reducer"])
    workers = rng.choice([1, 1, 0, -1])
    if who == "gen":
        fn = rng.choice(["ForEach", "ForEach", "MapReduce", "MapReduceVoid"])
        n = rng.randint(0, 4)
        items = [[] if fn == "ForEach" else _writes(rng, 2) for _ in range(n)]
        rafter = [_w(7)] if fn == "MapReduce" and rng.random() < 0.5 else []
        return _case(rng, fn=fn, workers=workers, items=items, gpanic=202, rtake=rng.choice([-1, -1, 0, 1]),
                     rafter=rafter, cls="panic1")
    if who == "reducer":
        fn = rng.choice(["MapReduce", "MapReduce", "MapReduceVoid"])
        n = rng.randint(0, 4)
        items = [_writes(rng, 2) for _ in range(n)]
        rafter = [{"op": "panic", "k": 203}]
        if fn == "MapReduce" and rng.random() < 0.4:
            rafter.insert(0, _w(7))
        return _case(rng, fn=fn, workers=workers, items=items, rtake=rng.choice([-1, -1, 0, 1]), rafter=rafter, cls="panic1")
    fn = rng.choice(FNS[:6])
    if fn in ("Finish", "FinishVoid"):
        return _case(rng, fn=fn, workers=1, items=[[{"op": "panic", "k": 201}]], rtake=0 if fn == "Finish" else -1,
                     cls="panic1")
    n = rng.randint(1, 4)
    items = [[] if fn == "ForEach" else _writes(rng, 2) for _ in range(n)]
    j = rng.randrange(n)
    items[j] = items[j][:rng.randint(0, len(items[j]))] + [{"op": "panic", "k": 201}]
    return _case(rng, fn=fn, workers=workers, items=items, rtake=-1, rafter=[], cls="panic1")


def gen_rgate(rng, tier):
    """context done AFTER the mapping stage has exited while the reducer is still running: the reducer drains the pipe
    (so every mapper and the dispatcher are gone), then waits at a gate; the driver cancels the context; the reducer
    only goes on once the call has returned: (nil, context.DeadlineExceeded), promptly (else: hang)"""
    n = rng.randint(0, 5)
    fn = rng.choice(["MapReduce", "MapReduce", "MapReduceChan", "MapReduceVoid"])
    items = [_writes(rng, 2) for _ in range(n)]
    rafter = [{"op": "ctxwaitret"}] + ([_w(7)] if fn != "MapReduceVoid" and rng.random() < 0.5 else [])
    return _case(rng, fn=fn, workers=_workers(rng), items=items, rtake=-1, rafter=rafter, ctx="rgate", cls="rgate")


def gen_ae(rng, tier):
    """direct stream on errorx.AtomicError: Set of nil / typed nils / pointer / value errors, Load in between"""
    ops = []
    for _ in range(rng.randint(2, 10)):
        if rng.random() < 0.55:
            ops.append({"op": "set", "k": rng.choice([0, 0, 1, 1, 2, 3, 100, 101])})
        ops.append({"op": "load"})
    c = {"fn": "AtomicError", "workers": 1, "noopt": False, "items": [], "gpanic": -1, "rtake": -1, "rafter": [],
         "ctx": "none", "seed": rng.randrange(1 << 30), "cls": "atomicerror", "nilitem1": 0, "gate1": 0,
         "release": "now", "aeops": ops}
    return c


def gen_boundary(rng, tier):
    r = rng.random()
    if r < 0.3:
        return _case(rng, fn=rng.choice(FNS[:6]), workers=rng.choice([-1, 0, 1, 16]), items=[], rtake=rng.choice([-1, 0]),
                     rafter=[], cls="boundary")
    if r < 0.6:   # more items than workers, every worker busy writing, one-slot pool
        n = rng.randint(5, 12)
        return _case(rng, fn="MapReduce", workers=rng.choice([-1, 0, 1]), items=[[_w(1), _w(2), _w(3)] for _ in range(n)],
                     rtake=rng.choice([-1, 0, 1, 2]), rafter=[_w(7)] if rng.random() < 0.5 else [], cls="boundary")
    if r < 0.8:   # defaultWorkers made observable: every mapper waits (bounded, 300 ms) until 17 have started - with
        # the default 16 workers that never happens (the wait runs out), with more workers 17 run at once
        n = rng.randint(18, 22)
        c = _case(rng, fn="MapReduce", noopt=True, items=[[{"op": "barrier"}] for _ in range(n)], rtake=-1, rafter=[],
                  cls="boundary")
        for it in c["items"]:
            it["acts"] = [a for a in it["acts"] if a["op"] == "barrier"]
        c["barrier"] = 17
        return c
    n = rng.randint(17, 24)   # default worker count
    return _case(rng, fn=rng.choice(["MapReduce", "ForEach", "MapReduceVoid"]), noopt=True, items=[[] for _ in range(n)],
                 rtake=-1, rafter=[], cls="boundary")


def _suspicious(case):
    """a panicking callback with exactly one worker (WithWorkers(<=1), Finish/FinishVoid with one function): run in a
    driver process of its own, so that a panic escaping in a library goroutine (process death) is pinned to the case"""
    if case["fn"] == "AtomicError":
        return False
    panics = (any(a["op"] == "panic" for it in case["items"] for a in it["acts"]) or case.get("gpanic", -1) >= 0
              or any(a["op"] == "panic" for a in case.get("rafter", [])))
    return panics and _eff_workers(case) == 1


def _crash_obs(log):
    first = next((ln.strip() for ln in log.split("\n") if ln.startswith(("panic:", "fatal error:"))), "process died")
    return {"outcome": {"kind": "crash"}, "trace": [], "leaked": 0, "crash": first[:200]}


def drive(cases, tier):
    """One compiled test binary (thorough: with the race detector; a reported DATA RACE fails it), then: the bulk of
    the cases in one process, every suspicious case in a process of its own; if a process dies, bisection pins the
    death to single cases, which get the observation {"outcome": {"kind": "crash"}} - a concrete failing case."""
    import json
    import vlib
    name = ID + ("s" if tier == "search" else "")
    os.makedirs(vlib.WORK, exist_ok=True)
    binp = os.path.join(vlib.WORK, "%s.test" % name)
    env = dict(vlib.GOENV)
    cmd = ["go", "test", "-c", "-tags", "verif", "-vet=off", "-o", binp]
    if tier == "thorough":
        env["CGO_ENABLED"] = "1"
        rc, out = vlib.sh(cmd + ["-race", GO_PKG], cwd=vlib.REPO, env=env, timeout=600)
        if rc != 0:
            env = dict(vlib.GOENV)
            rc, out = vlib.sh(cmd + [GO_PKG], cwd=vlib.REPO, env=env, timeout=600)
    else:
        rc, out = vlib.sh(cmd + [GO_PKG], cwd=vlib.REPO, env=env, timeout=600)
    if rc != 0:
        return None, "driver build failed\n" + out[-4000:]
    pkgdir = os.path.join(vlib.REPO, GO_PKG)
    counter = [0]
    logs = []

    def run(idx):
        """returns list of obs for cases[idx] or None if the process failed"""
        counter[0] += 1
        inp = os.path.join(vlib.WORK, "%s.in.%d.jsonl" % (name, counter[0]))
        outp = os.path.join(vlib.WORK, "%s.out.%d.jsonl" % (name, counter[0]))
        with open(inp, "w") as f:
            for i in idx:
                f.write(json.dumps(cases[i], separators=(",", ":")) + "\n")
        if os.path.exists(outp):
            os.remove(outp)
        e = dict(env, VERIF_IN=inp, VERIF_OUT=outp)
        rc, out = vlib.sh([binp, "-test.run", "^TestVerifDriver$", "-test.timeout", "%ds" % DRIVER_TIMEOUT],
                          cwd=pkgdir, env=e, timeout=DRIVER_TIMEOUT + 60)
        res = None
        if rc == 0 and os.path.exists(outp):
            res = [json.loads(ln) for ln in open(outp) if ln.strip()]
            if len(res) != len(idx):
                res = None
        for pth in (inp, outp, outp + ".tmp"):
            if os.path.exists(pth):
                os.remove(pth)
        if res is None:
            logs.append(out[-3000:])
        return res, out

    obs = [None] * len(cases)

    def solve(idx, depth=0):
        if not idx:
            return True
        res, out = run(idx)
        if res is not None:
            for i, o in zip(idx, res):
                obs[i] = o
            return True
        if "DATA RACE" in out:
            return False
        if len(idx) == 1:
            obs[idx[0]] = _crash_obs(out)
            return True
        mid = len(idx) // 2
        return solve(idx[:mid], depth + 1) and solve(idx[mid:], depth + 1)

    bulk = [i for i, c in enumerate(cases) if not _suspicious(c)]
    if not solve(bulk):
        return None, "DATA RACE reported by the race detector\n" + "\n".join(logs)[-4000:]
    for i, c in enumerate(cases):
        if _suspicious(c):
            if not solve([i]):
                return None, "DATA RACE reported by the race detector\n" + "\n".join(logs)[-4000:]
    # keep the last input/output of the whole run where the other tools expect them
    with open(os.path.join(vlib.WORK, "%s.in.jsonl" % name), "w") as f:
        for c in cases:
            f.write(json.dumps(c, separators=(",", ":")) + "\n")
    with open(os.path.join(vlib.WORK, "%s.out.jsonl" % name), "w") as f:
        for o in obs:
            f.write(json.dumps(o, separators=(",", ":")) + "\n")
    return obs, "\n".join(logs)


def generate(rng, tier, n):
    if tier == "thorough":      # every script under 5 schedule seeds
        base = _generate(rng, tier, max(1, n // 5))
        out = []
        for c in base:
            for _ in range(5):
                d = dict(c)
                d["seed"] = rng.randrange(1 << 30)
                out.append(d)
        return out
    return _generate(rng, tier, n)


def _generate(rng, tier, n):
    cases = []
    for _ in range(n):
        r = rng.random()
        if r < 0.33:
            c = gen_clean(rng, tier)
        elif r < 0.60:
            c = gen_cancel(rng, tier)
        elif r < 0.74:
            c = gen_panic(rng, tier)
        elif r < 0.82:
            c = gen_ctx(rng, tier)
        elif r < 0.86:
            c = gen_gate(rng, tier)
        elif r < 0.875:
            c = gen_cancel_race(rng, tier)
        elif r < 0.895:
            c = gen_panic_one_worker(rng, tier)
        elif r < 0.91:
            c = gen_rgate(rng, tier)
        elif r < 0.92:
            c = gen_ae(rng, tier)
        elif r < 0.94:
            c = gen_clean(rng, tier, big=True) if rng.random() < 0.5 else gen_cancel(rng, tier, big=True)
        else:
            c = gen_boundary(rng, tier)
        cases.append(c)
    return cases


def search(rng, problems):
    """directed cases: double cancels, stop-early reducers under many writes, slow mappers after a cancel,
    one-slot pools, writes after a cancel"""
    out = []
    for _ in range(30):
        n = rng.randint(2, 6)
        items = [[_w(1), _w(2), _w(3)] for _ in range(n)]
        out.append(_case(rng, workers=rng.choice([1, 2]), items=items, rtake=rng.choice([0, 1]), rafter=[], cls="search"))
    for _ in range(30):
        items = [[{"op": "cancel", "k": 101}, {"op": "cancel", "k": 102}]] + [[_w(1)] for _ in range(rng.randint(0, 3))]
        out.append(_case(rng, workers=2, items=items, rtake=-1, rafter=[], cls="search"))
    for _ in range(20):
        items = [[{"op": "cancel", "k": 101}], [{"op": "waitret"}], [_w(1)]]
        out.append(_case(rng, workers=3, items=items, rtake=-1, rafter=[_w(7)], cls="search"))
    for _ in range(25):
        out.append(gen_cancel_race(rng, "search"))
    for _ in range(24):
        out.append(gen_panic_one_worker(rng, "search"))
    for _ in range(20):
        items = [[{"op": "cancel", "k": 101}, _w(1), _w(2)], [_w(1)]]
        out.append(_case(rng, workers=2, items=items, rtake=-1, rafter=[_w(7)], cls="search"))
    return out


# --------------------------------------------------------------------------- encoding
def _eff_workers(case):
    if case["fn"] in ("Finish", "FinishVoid"):
        return max(1, len(case["items"]))
    if case.get("noopt"):
        return 16
    return max(1, case["workers"])


def _mact(a):
    op = a["op"]
    if op == "write":
        return "AWrite %s" % cnat(a["k"])
    if op == "cancel":
        return "ACancel (Some %s)" % cnat(a["k"])
    if op == "cancelnil":
        return "ACancel None"
    if op == "panic":
        return "APanic %s" % cnat(a["k"])
    if op == "waitret":
        return "AWaitRet"
    if op == "ctxcancel":
        return "ACtx"
    raise ValueError(op)


def _ract(a):
    return ("RWrite %s" if a["op"] == "write" else "RPanic %s") % cnat(a["k"])


def _optn(k):
    return "None" if k < 0 else "(Some %s)" % cnat(k)


_EV1 = {"gw": "EGW", "sent": "ESent", "gp": "EGPanic", "ms": "EMS", "me": "EME", "ce": "ECE", "wb": "EWB", "we": "EWE", "wto": "EWTo",
        "cx": "ECx", "rw": "ERW", "rd": "ERD", "rp": "ERP"}
_EV2 = {"wr": "EWr", "wd": "EWd", "pn": "EPn", "rr": "ERR"}


def _ev(e):
    k = e[0]
    if k in _EV1:
        return "%s %s" % (_EV1[k], cnat(e[1]))
    if k in _EV2:
        return "%s %s %s" % (_EV2[k], cnat(e[1]), cnat(e[2]))
    if k == "cb":
        return "ECB %s %s" % (cnat(e[1]), _optn(e[2]))
    if k == "re":
        return "ERE"
    if k == "ret":
        return "ERet"
    if k == "gr":
        return "EGR"
    if k == "rpx":
        return "ERPX"
    if k == "rg":
        return "ERG"
    if k == "px":
        return "EPX %s" % cnat(e[1])
    raise ValueError(k)


def _out(o):
    k = o.get("kind")
    if k == "ret":
        return "XRet %s" % cnat(o["v"])
    if k == "err":
        e = o["e"]
        return "XErr %s" % ("ECancelNil" if e == -1 else "EDeadline" if e == -2 else "(EUser %s)" % cnat(e))
    if k == "nooutput":
        return "XNoOutput"
    if k == "panic":
        p = o["p"]
        if p == -1:
            return "XPanic PSendClosed"
        if p < 0:
            return "XOther"
        return "XPanic (PUser %s)" % cnat(p)
    if k == "twice":
        return "XTwice"
    if k == "nil":
        return "XNil"
    if k == "hang":
        return "XHang"
    if k == "crash":
        return "XCrash"
    return "XOther"


def _untag(case, trace):
    """raw special values reach the reducer without origin tag: rr(-1, code) |-> rr(item, code) for the unique mapper
    write of that code in the script (the generator writes each raw code at most once per case)"""
    owner = {}
    for i, it in enumerate(case["items"]):
        for a in it["acts"]:
            if a["op"] == "write" and a["k"] < 10:
                owner.setdefault(a["k"], i)
    out = []
    for e in trace:
        if e[0] == "rr" and e[1] < 0:
            e = ["rr", owner.get(e[2], len(case["items"])), e[2]]
        out.append(e)
    return out


def _aeop(a):
    if a["op"] == "load":
        return "AELoad"
    return "AESet %s" % ("None" if a["k"] == 0 else "(Some %s)" % cnat(a["k"]))


def encode(case, obs):
    if "outcome" not in obs:
        obs = {"outcome": {"kind": "other"}, "trace": [], "leaked": 0}
    obs = dict(obs, trace=_untag(case, obs["trace"]))
    small = (len(case["items"]) <= 6 and _eff_workers(case) <= 3 and
             sum(len(i["acts"]) for i in case["items"]) <= 24)
    ctx = {"none": 0, "pre": 1, "live": 2, "gate": 3, "rgate": 4}[case["ctx"]]
    if ctx == 4:
        small = False          # the reducer's gate is not in the LTS: spec_ok only
    out = obs["outcome"]
    if (out.get("kind") == "err" and out.get("e") == -2 and ctx == 0
            and any(a["op"] == "cancel" and a["k"] == 5 for it in case["items"] for a in it["acts"])):
        obs = dict(obs, outcome={"kind": "err", "e": 5})     # a mapper cancelled with context.DeadlineExceeded itself
    g1 = case.get("gate1", 0)
    gate = "None" if g1 <= 0 else "(Some %s)" % cnat(g1 - 1)
    aeops = clist([_aeop(a) for a in case.get("aeops", [])])
    aeobs = clist([cZ(v) for v in obs.get("ae", [])])
    return "mkcase %s %s %s %s %s %s %s %s %s %s %s %s (%s) %s %s" % (
        cnat(FNS.index(case["fn"])), cZ(case["workers"]), cbool(bool(case.get("noopt"))),
        clist([clist([_mact(a) for a in it["acts"] if a["op"] != "barrier"]) for it in case["items"]]),
        _optn(case["gpanic"]), _optn(case["rtake"]), clist([_ract(a) for a in case["rafter"] if a["op"] in ("write", "panic")]), cnat(ctx),
        gate, aeops, aeobs,
        clist([_ev(e) for e in obs["trace"]]), _out(obs["outcome"]), cnat(obs["leaked"]), cbool(small))


def nontrivial(case, obs):
    tr = obs.get("trace", [])
    mapped = sum(1 for e in tr if e[0] == "ms")
    recv = sum(1 for e in tr if e[0] == "rr")
    special = any(e[0] in ("cb", "pn", "gp", "rp", "cx") for e in tr) or case["ctx"] == "pre"
    return mapped >= 2 and (recv >= 2 or special)


def bucket(case, obs):
    out = ["fn:" + case["fn"], "class:" + case.get("cls", "?"), "ctx:" + case["ctx"],
           "outcome:" + str(obs.get("outcome", {}).get("kind"))]
    n = len(case["items"])
    out.append("items:" + ("0" if n == 0 else "1" if n == 1 else "2-6" if n <= 6 else "7-20" if n <= 20 else ">20"))
    w = _eff_workers(case)
    out.append("workers:" + (str(w) if w <= 4 else ">4"))
    out.append("items-vs-workers:" + ("below" if n < w else "equal" if n == w else "above"))
    if obs.get("leaked", 0):
        out.append("obs:leaked")
    tr = obs.get("trace", [])
    cur = mx = 0
    for e in tr:
        if e[0] == "ms":
            cur += 1
            mx = max(mx, cur)
        elif e[0] == "me":
            cur -= 1
    out.append("maxconc:" + ("=workers" if mx == w else "<workers"))
    if case["rtake"] >= 0:
        out.append("reducer:stop-early")
    if len(case["items"]) <= 6 and w <= 3:
        out.append("model_ok:applies")
    acts = [a for it in case["items"] for a in it["acts"]]
    if any(a["op"] == "write" and a["k"] < 10 for a in acts):
        out.append("value:raw-mapper-write")
    for a in case["rafter"]:
        if a["op"] == "write" and a["k"] < 10:
            out.append("value:reducer-writes-" + (["nil", "int0", "empty-string", "typed-nil-ptr"][a["k"]] if a["k"] < 4 else "raw"))
    if case.get("nilitem1", 0):
        out.append("value:nil-item")
    if any(a["op"] == "cancel" and a["k"] < 10 for a in acts):
        out.append("error:typed-nil-or-ptr")
    if case.get("gate1", 0):
        out.append("gate:" + case.get("release", ""))
    return out


_MASK = {}


def _only_failure(case, obs, check):
    """True iff every clause of spec_ok other than the one(s) `check` leaves out holds (evaluated by Coq)."""
    from vlib import coq_eval
    key = (canon(case), canon(obs), check)
    if key not in _MASK:
        try:
            res = coq_eval(ID, "C07.Exec", [encode(case, obs)], shard=SHARD, checks=(check,), tag="k")
            _MASK[key] = not res[check]
        except RuntimeError:
            _MASK[key] = False
    return _MASK[key]


def classify(case, obs):
    tr = obs.get("trace", [])
    out = obs.get("outcome", {})
    kind = out.get("kind")
    if obs.get("leaked", 0) or kind in ("hang", "other", "crash", None):
        return None
    acts = [a["op"] for it in case["items"] for a in it["acts"]]
    cand = None
    if (kind == "panic" and out.get("p") == -1) or any(e[0] == "rpx" for e in tr):
        # the race: the reducer's write began (rw, no matching rd) before any cancel had completed and before the
        # context was cancelled - otherwise the guard had to drop the value and the panic is something else
        rws = [i for i, e in enumerate(tr) if e[0] == "rw"]
        rds = sum(1 for e in tr if e[0] == "rd")
        if len(rws) == rds + 1 and case["ctx"] != "pre" and not any(e[0] in ("ce", "cx") for e in tr[:rws[-1]]):
            cand = ("send_on_closed", "spec_wo_outcome")
    elif case["ctx"] == "pre" and kind in ("nooutput", "nil"):
        cand = ("ctx_select_race", "spec_wo_ctx")
    if cand and _only_failure(case, obs, cand[1]):
        return cand[0]
    return None


def explain(case, obs):
    return ("observed trace/outcome contradicts C07.Exec.spec_ok: an item mapped twice or not at all in a clean run, a "
            "reducer value not written / received twice, more mappers running than workers, an outcome not justified "
            "by the script (result table, first cancel wins, ctx => DeadlineExceeded, panic re-raised), the call did "
            "not return (hang), or goroutines of the call were still alive after the settle loop (leaked)")
