"""C16 batching executors: scripted Add / Tick / Advance / Flush / Wait histories and gated concurrent
phases against BulkExecutor / ChunkExecutor (PeriodicalExecutor underneath) on a driver-owned ticker and
the virtual clock.  Interface: see props/c13.py."""
import itertools

import vlib
from vlib import cZ, cnat, cbool, clist, cpair

ID = "C16"
GO_PKG = "./lib/executors"
_PE = "lib/executors/periodicalexecutor.go"
GEN_SPEC = {"items": [
    {"kind": "const", "file": _PE, "name": "idleRound"},
    {"kind": "calls", "file": _PE, "func": "PeriodicalExecutor.Add", "as": "sk_Add"},
    {"kind": "calls", "file": _PE, "func": "PeriodicalExecutor.addAndCheck", "as": "sk_addAndCheck"},
    {"kind": "calls", "file": _PE, "func": "PeriodicalExecutor.backgroundFlush", "as": "sk_backgroundFlush"},
    {"kind": "calls", "file": _PE, "func": "PeriodicalExecutor.shallQuit", "as": "sk_shallQuit"},
    {"kind": "calls", "file": _PE, "func": "PeriodicalExecutor.Flush", "as": "sk_Flush"},
    {"kind": "calls", "file": _PE, "func": "PeriodicalExecutor.Wait", "as": "sk_Wait"},
    {"kind": "calls", "file": _PE, "func": "PeriodicalExecutor.enterExecution", "as": "sk_enterExecution"},
    {"kind": "calls", "file": _PE, "func": "PeriodicalExecutor.executeTasks", "as": "sk_executeTasks"},
    {"kind": "calls", "file": _PE, "func": "PeriodicalExecutor.doneExecution", "as": "sk_doneExecution"},
    {"kind": "calls", "file": _PE, "func": "PeriodicalExecutor.hasTasks", "as": "sk_hasTasks"},
    {"kind": "calls", "file": "lib/executors/bulkexecutor.go", "func": "bulkContainer.AddTask", "as": "sk_bulk_AddTask"},
    {"kind": "calls", "file": "lib/executors/bulkexecutor.go", "func": "bulkContainer.RemoveAll", "as": "sk_bulk_RemoveAll"},
    {"kind": "calls", "file": "lib/executors/bulkexecutor.go", "func": "bulkContainer.Execute", "as": "sk_bulk_Execute"},
    {"kind": "calls", "file": "lib/executors/chunkexecutor.go", "func": "chunkContainer.AddTask", "as": "sk_chunk_AddTask"},
    {"kind": "calls", "file": "lib/executors/chunkexecutor.go", "func": "chunkContainer.RemoveAll", "as": "sk_chunk_RemoveAll"},
    {"kind": "calls", "file": "lib/executors/chunkexecutor.go", "func": "chunkContainer.Execute", "as": "sk_chunk_Execute"},
    {"kind": "calls", "file": "lib/syncx/barrier.go", "func": "Barrier.Guard", "as": "sk_barrier_Guard"},
    {"kind": "calls", "file": "lib/executors/lessexecutor.go", "func": "LessExecutor.DoOrDiscard", "as": "sk_less_DoOrDiscard"},
    # documented defaults
    {"kind": "const", "file": "lib/executors/bulkexecutor.go", "name": "defaultBulkTasks"},
    {"kind": "const", "file": "lib/executors/chunkexecutor.go", "name": "defaultChunkSize"},
    {"kind": "const", "file": "lib/executors/vars.go", "name": "defaultFlushInterval"},
    # the executors' concrete users
    {"kind": "const", "file": "lib/store/sqlx/bulkinserter.go", "name": "maxBulkRows"},
    {"kind": "calls", "file": "lib/store/sqlx/bulkinserter.go", "func": "dbInserter.AddTask", "as": "sk_db_AddTask"},
    {"kind": "calls", "file": "lib/store/sqlx/bulkinserter.go", "func": "dbInserter.RemoveAll", "as": "sk_db_RemoveAll"},
    {"kind": "calls", "file": "lib/store/sqlx/bulkinserter.go", "func": "dbInserter.Execute", "as": "sk_db_Execute"},
    {"kind": "calls", "file": "lib/store/sqlx/bulkinserter.go", "func": "BulkInserter.Insert", "as": "sk_bi_Insert"},
    {"kind": "calls", "file": "lib/store/sqlx/bulkinserter.go", "func": "BulkInserter.Flush", "as": "sk_bi_Flush"},
    {"kind": "calls", "file": "lib/store/sqlx/bulkinserter.go", "func": "NewBulkInserter", "as": "sk_bi_New"},
    {"kind": "calls", "file": "lib/stat/metrics.go", "func": "metricsContainer.AddTask", "as": "sk_mc_AddTask"},
    {"kind": "calls", "file": "lib/stat/metrics.go", "func": "metricsContainer.RemoveAll", "as": "sk_mc_RemoveAll"},
    {"kind": "calls", "file": "lib/stat/metrics.go", "func": "Metrics.Add", "as": "sk_m_Add"},
    {"kind": "calls", "file": "lib/stat/metrics.go", "func": "Metrics.AddDrop", "as": "sk_m_AddDrop"},
    {"kind": "calls", "file": "lib/stat/metrics.go", "func": "NewMetrics", "as": "sk_m_New"},
    {"kind": "calls", "file": "lib/stat/metrics.go", "func": "writeReport", "as": "sk_m_writeReport"},
    {"kind": "calls", "file": "lib/stat/metrics.go", "func": "log", "as": "sk_m_log"},
    {"kind": "calls", "file": "lib/stat/metrics.go", "func": "SetReportWriter", "as": "sk_m_SetReportWriter"},
    {"kind": "calls", "file": "lib/executors/bulkexecutor.go", "func": "NewBulkExecutor", "as": "sk_NewBulkExecutor"},
    {"kind": "calls", "file": "lib/executors/chunkexecutor.go", "func": "NewChunkExecutor", "as": "sk_NewChunkExecutor"},
]}
PKGS = {"pe": ("./lib/executors", "^TestVerifDriver$"), "sqlx": ("./lib/store/sqlx", "^TestVerifDriverC16$"),
        "stat": ("./lib/stat", "^TestVerifDriverC16$")}
HOLD_N = 30
SQLX_N = 6
STAT_N = 24
DROP_BASE = 900
QUICK_N = 300
THOROUGH_N = 3000
SHARD = 60
DRIVER_TIMEOUT = 600
RULE = ("8 LessExecutor streams per run (thresholds 1 ns .. 2 years, virtual clock starting at 1 ns .. 1 h, steps around the "
        "threshold); 2 Metrics periods of 65537 / 70000 tasks; BulkInserter Exec fails every k-th statement in 40% of the "
        "scripts; BulkInserter rows may repeat byte for byte (5 rows incl. 2 repeats); 4 long-execute scripts per run (5 ms interval, "
        "the held execute goes on 60-90 ms of real and virtual time after Wait was called) and 4 Flush-Add-Flush scripts "
        "(configured and default Bulk / Chunk executors, no clock advance between the Flushes); 6 retire scripts per run (Add; a caller-side Flush whose execute is held; ticks over an idle period until the "
        "background flusher quits while that execute still runs; Wait from a third goroutine; later Adds restart a flusher); "
        "stat.Metrics scripts vary (stat log switch on / off) x (logx stat switch on / off, own driver process) x (report "
        "writer installed before the adds / after the first period's adds but before its flush / after its flush); "
        "6 independence scripts per run (executors with explicit WithBulkTasks / WithChunkBytes / interval options are created "
        "and used first, then the observed Bulk / Chunk executor is created WITHOUT options: 1000+k tasks resp. 0.1-1 MiB "
        "tasks; threshold batches must be full at the documented default, interval = default) and earlier executors / "
        "explicit intervals (250 ms, 2 s) on 20% / 12% of the random scripts; stat.Metrics periods whose report is being "
        "written (writer held inside the write lock) while a second Metrics instance flushes or SetReportWriter runs; "
        "30 held-callback scripts per run (the execute callback of a below-threshold batch flushed by a tick / Flush / Wait is "
        "held while 1-5 more tasks are added, possibly past the threshold, or while a concurrent Wait is called; bulk and "
        "chunk); executors' users, every run: 6 sqlx.BulkInserter scripts (Insert n / Tick / Flush and FORCED overlaps: an Exec is "
        "held while a second 1000-row batch is cut off and queued and more rows arrive; recording SqlConn; 1000-4000 rows "
        "each) and 24 stat.Metrics scripts (flush periods with only drops / only timed tasks / both / nothing, closed by Tick or Flush, gated concurrent adders, Execute held while tasks "
        "arrive; tap in front of the container + report writer), x4 in the thorough tier; then scripts of 4-26 operations over unique task ids: Add (bulk maxTasks 1-4, or chunk maxChunkSize 5-20 with task "
        "sizes 0-12), Tick (offered to the live flusher's ticker, driver waits until the flusher is parked again), "
        "Advance n intervals of the virtual clock (n in 1,5,9,10,11,12,25), Flush, Wait, RaceTick (an Add parked "
        "inside its critical section while the flusher takes a tick), idle-quit macros (advance 11, tick, tick); "
        "35% of the scripts contain one or two gated concurrent phases with 1-4 adder goroutines (1-6 Adds each) "
        "and optionally a goroutine issuing ticks and Flushes; every script ends with Wait; 9 directed scripts per "
        "run (threshold boundary, idle quit + restart, tick racing a threshold Add after an idle period, Wait "
        "directly after Add); thorough tier adds every script of <= 5 operations over {add, tick, flush, advance 11} "
        "(<= 4 tasks, <= 3 ticks) for maxTasks 1 and 2 and runs the driver under the race detector. non-trivial = at least 3 tasks, at least 2 batches and (a flusher quit, or a "
        "concurrent phase, or both a threshold batch and a tick/flush batch); distinct = distinct canonical case JSON")
TRUSTED = ["lib/executors/verif_hooks.go (tag verif: ticker factory / container wrapper / pending counters of a "
           "PeriodicalExecutor for the drivers of sqlx.BulkInserter and stat.Metrics) and internal/verifexec (settle machinery)",
           "driver-owned timex.Ticker injected through PeriodicalExecutor.newTicker; Chan()/Stop() and a delegating "
           "TaskContainer wrapper are the settle hooks (no sleeps on the success path)",
           "lib/timex virtual clock (VerifSetNow/VerifAdvance)",
           "Go runtime: sync.Mutex, sync.WaitGroup, channels (modelled as in DESIGN section 3), scheduler fairness"]
ASSUMPTIONS = ["task ids are unique; maxTasks / maxChunkSize >= 1",
               "c16_wait holds only as c16_wait_partial: a Wait that overlaps another goroutine's threshold-reaching Add "
               "can return before the batch that Add took out of the container is executed (c16_wait_refuted, replayable "
               "with the driver's waitrace operation); Wait is therefore only issued outside concurrent phases",
               "liveness (a parked flusher is eventually ticked, enabled threads are eventually scheduled) is not proved"]

SECOND = 10 ** 9


class _Ids:
    def __init__(self):
        self.n = 0

    def next(self):
        self.n += 1
        return self.n


def _add(ids, rng, chunk):
    o = {"op": "add", "id": ids.next()}
    if chunk:
        o["size"] = rng.choice([0, 1, 2, 3, 4, 5, 6, 7, 9, 12])
    return o


def _cfg(rng):
    chunk = rng.random() < 0.4
    mx = rng.choice([5, 8, 10, 13, 20]) if chunk else rng.choice([1, 2, 2, 3, 3, 4])
    return chunk, mx


def _seq_ops(rng, ids, chunk, n):
    ops = []
    while len(ops) < n:
        r = rng.random()
        if r < 0.50:
            ops.append(_add(ids, rng, chunk))
        elif r < 0.68:
            ops.append({"op": "tick"})
        elif r < 0.76:
            ops.append({"op": "advance", "n": rng.choice([1, 5, 9, 10, 11, 11, 12, 25])})
        elif r < 0.82:
            ops.append({"op": "flush"})
        elif r < 0.87:
            ops.append({"op": "wait"})
        elif r < 0.94:
            o = _add(ids, rng, chunk)
            o["op"] = "racetick"
            ops.append(o)
        else:
            ops += [{"op": "advance", "n": rng.choice([10, 11, 12])}, {"op": "tick"}, {"op": "tick"}]
    return ops


def _par(rng, ids, chunk):
    threads = []
    for _ in range(rng.randint(1, 4)):
        threads.append([_add(ids, rng, chunk) for _ in range(rng.randint(1, 6))])
    if rng.random() < 0.5:
        threads.append([{"op": rng.choice(["tick", "tick", "flush"])} for _ in range(rng.randint(1, 3))])
    return {"op": "par", "threads": threads}


def _directed(rng):
    out = []
    # bulk threshold boundary: exactly max, max+1 adds
    for mx in (1, 2, 3):
        ids = _Ids()
        ops = [_add(ids, rng, False) for _ in range(2 * mx + 1)] + [{"op": "tick"}, {"op": "tick"}, {"op": "wait"}]
        out.append({"chunk": False, "max": mx, "ops": ops})
    # chunk boundary: sizes summing to max exactly, then overshooting
    ids = _Ids()
    ops = [{"op": "add", "id": ids.next(), "size": s} for s in (4, 6, 3, 9, 0, 10, 7)] + [{"op": "flush"}, {"op": "wait"}]
    out.append({"chunk": True, "max": 10, "ops": ops})
    # idle quit, restart by a later Add, tick flushes it
    ids = _Ids()
    mx = rng.choice([2, 3])
    ops = [_add(ids, rng, False), {"op": "tick"}, {"op": "tick"}, {"op": "advance", "n": rng.choice([11, 12, 25])},
           {"op": "tick"}, {"op": "tick"}, _add(ids, rng, False), {"op": "tick"}, {"op": "tick"},
           {"op": "advance", "n": 10}, {"op": "tick"}, _add(ids, rng, False), {"op": "tick"}, {"op": "wait"}]
    out.append({"chunk": False, "max": mx, "ops": ops})
    # a tick races a threshold-reaching Add after an idle period (the flusher must not quit: inflight > 0)
    for mx in (1, 2):
        ids = _Ids()
        ops = [_add(ids, rng, False) for _ in range(mx)] + [{"op": "tick"}, {"op": "tick"}]
        ops += [_add(ids, rng, False) for _ in range(mx - 1)]
        ops += [{"op": "advance", "n": rng.choice([11, 30])}]
        o = _add(ids, rng, False)
        o["op"] = "racetick"
        ops += [o, {"op": "tick"}, _add(ids, rng, False), {"op": "tick"}, {"op": "tick"}, {"op": "wait"}]
        out.append({"chunk": False, "max": mx, "ops": ops})
    # Wait / Flush directly after Add
    ids = _Ids()
    out.append({"chunk": False, "max": 3, "ops": [_add(ids, rng, False), {"op": "wait"}, _add(ids, rng, False),
                                                  _add(ids, rng, False), {"op": "flush"}, _add(ids, rng, False), {"op": "wait"}]})
    ids = _Ids()
    out.append({"chunk": True, "max": 8, "ops": [_add(ids, rng, True), {"op": "wait"}, _add(ids, rng, True),
                                                 {"op": "flush"}, _add(ids, rng, True), {"op": "wait"}]})
    return out


def _exhaustive():
    """every script of <= 5 operations over {add, tick, flush, advance 11} (<= 4 tasks, <= 3 ticks), + Wait,
    for bulk maxTasks 1 and 2"""
    out = []
    for mx in (1, 2):
        for ln in range(1, 6):
            for combo in itertools.product(("add", "tick", "flush", "advance"), repeat=ln):
                if combo.count("add") > 4 or combo.count("tick") > 3 or combo.count("add") == 0:
                    continue
                ids = _Ids()
                ops = []
                for k in combo:
                    if k == "add":
                        ops.append({"op": "add", "id": ids.next()})
                    elif k == "advance":
                        ops.append({"op": "advance", "n": 11})
                    else:
                        ops.append({"op": k})
                ops.append({"op": "wait"})
                out.append({"chunk": False, "max": mx, "ops": ops})
    return out


def drive(cases, tier):
    """cases go to the driver of their target package (executors / sqlx.BulkInserter / stat.Metrics);
    thorough tier: the drivers run under the race detector"""
    obs = [None] * len(cases)
    logs = []
    groups = [(tgt, pkg, run, False) for tgt, (pkg, run) in PKGS.items()] + [("stat", PKGS["stat"][0], PKGS["stat"][1], True)]
    for tgt, pkg, run, logx_off in groups:
        # logx.DisableStat() is one-way and process-wide: those Metrics cases get a process of their own
        idx = [k for k, c in enumerate(cases) if c.get("target", "pe") == tgt and bool(c.get("logx_off")) == logx_off]
        if not idx:
            continue
        o, log = vlib.run_driver(pkg, [cases[k] for k in idx], name=ID + tgt + ("x" if logx_off else "") + ("s" if tier == "search" else ""),
                                 timeout=DRIVER_TIMEOUT, run=run, race=(tier == "thorough"),
                                 env={"VERIF_C16_LOGX_OFF": "1"} if logx_off else None)
        logs.append(log)
        if o is None:
            return None, "\n".join(logs)
        for k, ob in zip(idx, o):
            obs[k] = ob
    return obs, "\n".join(logs)


def _sqlx_case(rng, directed=None):
    """BulkInserter script; r tracks the rows in the container (maxBulkRows = 1000)."""
    M = 1000
    ops, r = [], 0

    def ins(n):
        nonlocal r
        ops.append({"op": "insert", "n": n})
        r = (r + n) % M

    def overlap(e1, e2, after):
        nonlocal r
        ops.append({"op": "flush"})      # the container is empty: the sizes below are exact
        r = 0
        first = (M - r) + e1
        second = M - e1 + e2
        ops.append({"op": "overlap", "first": first, "second": second, "after": after})
        r = after + e2

    if directed == 0:
        # 5 rows of which 2 repeat earlier ones byte for byte: 5 value tuples
        ops.append({"op": "insert", "n": 5, "dup": 2}); r += 5
        ins(rng.randint(1, 9)); overlap(0, 0, rng.randint(1, 30)); ins(3)
        ops.append({"op": "insert", "n": rng.randint(4, 9), "dup": rng.randint(1, 2)}); r += ops[-1]["n"]
    elif directed == 1:
        overlap(rng.randint(1, 40), rng.randint(1, 40), rng.randint(50, 300)); ops.append({"op": "tick"}); ops.append({"op": "tick"})
    else:
        for _ in range(rng.randint(2, 6)):
            x = rng.random()
            if x < 0.1:
                n = rng.randint(2, 12)
                ops.append({"op": "insert", "n": n, "dup": rng.randint(1, n // 2)})
                r = (r + n) % M
            elif x < 0.4:
                ins(rng.choice([1, 2, 5, 17, 30, 999, 1000, 1001, 1003, 1990, 2000, 2004]))
            elif x < 0.6:
                ops.append({"op": "tick"})
            elif x < 0.75:
                ops.append({"op": "flush"}); r = 0
            else:
                overlap(rng.randint(0, 30), rng.randint(0, 30), rng.randint(0, 120))
    ops.append({"op": "flush"})
    case = {"target": "sqlx", "suffix": rng.random() < 0.5, "chunk": False, "max": M, "ops": ops}
    if directed == 1 or (directed is None and rng.random() < 0.4):
        case["fail_every"] = rng.choice([1, 1, 2, 3])     # Exec errors: handed to the connection once, reported once
    return case


def _stat_case(rng):
    """flush periods of every kind: only drops, only timed tasks, mixed, empty; closed by a tick or a Flush;
    plus gated concurrent adders and Executes held while tasks arrive"""
    ops = []

    def simple(kind):
        if kind == "drop" or (kind == "mixed" and rng.random() < 0.45):
            return {"op": "drop", "n": rng.randint(1, 3)}
        return {"op": "add", "n": rng.randint(1, 6)}

    for _ in range(rng.randint(2, 7)):
        kind = rng.choice(["drop", "drop", "task", "mixed", "mixed", "empty"])
        x = rng.random()
        if kind == "empty":
            pass
        elif x < 0.7:
            for _ in range(rng.randint(1, 3)):
                ops.append(simple(kind))
        else:
            threads = [[simple(kind) for _ in range(rng.randint(1, 3))] for _ in range(rng.randint(1, 3))]
            if rng.random() < 0.4:
                threads.append([{"op": "tick"} for _ in range(rng.randint(1, 2))])
            ops.append({"op": "par", "threads": threads})
        y = rng.random()
        if y < 0.35:
            ops.append({"op": "tick"})
        elif y < 0.6:
            ops.append({"op": "flush"})
        elif y < 0.8:
            # this period's report is being written while a second Metrics instance flushes / the writer is set
            n2, d2 = rng.choice([(0, rng.randint(1, 3)), (rng.randint(1, 4), 0), (rng.randint(1, 4), rng.randint(1, 2)), (0, 0)])
            ops.append({"op": "wgate", "via": rng.choice(["flush", "flush", "tick"]),
                        "second": rng.choice(["flush", "flush", "flush", "setwriter"]), "n2": n2, "d2": d2})
        else:
            ops.append({"op": "overlap", "via": rng.choice(["tick", "flush"]), "n": rng.randint(1, 6)})
    ops.append({"op": "flush"})
    # (stat log on / off) x (logx stat switch on / off) x (writer installed before the adds / after the adds of the
    # first period but before its flush / only after the first period was flushed)
    closing = [k for k, o in enumerate(ops) if o["op"] in ("tick", "flush", "wgate", "overlap")]
    x = rng.random()
    if x < 0.35:
        at = 0
    elif x < 0.85:
        at = closing[0]
    else:
        at = min(closing[0] + 1, len(ops) - 1)
    ops.insert(at, {"op": "setwriter"})
    return {"target": "stat", "chunk": False, "max": 10 ** 9, "log": rng.random() < 0.5, "logx_off": rng.random() < 0.3,
            "ops": ops}


def _hold_case(rng):
    """A below-threshold batch is flushed by a tick / Flush / Wait and its execute callback is HELD while more tasks
    are added (possibly reaching the threshold) or a concurrent Wait is called.  Mini simulation of the container
    fill so that the held callback exists; with a waiter the tasks added meanwhile stay below the threshold (the
    threshold hand-over overlapping a Wait is the known finding, driven by waitrace only)."""
    chunk = rng.random() < 0.55
    mx = rng.choice([8, 10, 13, 20]) if chunk else rng.choice([2, 3, 4])
    ids = _Ids()
    ops = []
    fill = 0          # bytes / count in the container
    commanded = False

    def one(limit):
        """an Add; limit: it keeps the container below the threshold"""
        nonlocal fill, commanded
        o = {"op": "add", "id": ids.next()}
        if chunk:
            room = mx - fill - 1
            sz = rng.randint(0, max(0, min(room, 7))) if limit else rng.choice([1, 2, 3, 5, 7, 9])
            o["size"] = sz
            fill += sz
        else:
            fill += 1
        if fill >= mx:
            fill, commanded = 0, True
        return o

    for _ in range(rng.randint(2, 4)):
        # make sure something below the threshold is in the container and the flusher is not in skip mode
        if commanded:
            ops.append({"op": "tick"})
            commanded = False
        if not chunk and mx - fill <= 1:
            ops.append({"op": "flush"})
            fill = 0
        ops.append(one(True))
        via = rng.choice(["tick", "tick", "flush", "wait"])
        waiter = via != "wait" and rng.random() < 0.5
        fill = 0
        if waiter:
            n = rng.randint(0, 2) if chunk else rng.randint(0, min(2, mx - 1))
            during = [one(True) for _ in range(n)]
            fill = 0          # the waiter's own Flush takes them
        else:
            during = [one(False) for _ in range(rng.randint(1, 5))]
        ops.append({"op": "holdexec", "via": via, "waiter": waiter, "during": during})
        for _ in range(rng.randint(0, 4)):
            ops.append(one(False))
    ops.append({"op": "wait"})
    return {"chunk": chunk, "max": mx, "ops": ops}


def _retire_case(rng):
    """Add; a slow caller-side Flush (execute held); ticks over an idle period until the background flusher RETIRES
    (guarded false) while that execute is still running; Wait from a third goroutine; later Adds restart a flusher"""
    chunk = rng.random() < 0.4
    mx = rng.choice([10, 13, 20]) if chunk else rng.choice([3, 4, 5])
    ids = _Ids()

    def small():
        o = {"op": "add", "id": ids.next()}
        if chunk:
            o["size"] = rng.randint(0, 3)
        return o

    ops = [small() for _ in range(rng.randint(1, 2))]
    during = [small() for _ in range(rng.randint(0, 1))]
    idle = rng.choice([11, 11, 12, 25, 9])
    inhold = [{"op": "tick"}, {"op": "advance", "n": idle}, {"op": "tick"}]
    if rng.random() < 0.4:
        inhold.append({"op": "tick"})
    ops.append({"op": "holdexec", "via": "flush", "waiter": True, "during": during, "inhold": inhold})
    for _ in range(rng.randint(0, 3)):
        ops.append(small())
    ops += [{"op": "tick"}, {"op": "tick"}, {"op": "wait"}]
    return {"chunk": chunk, "max": mx, "ops": ops}


def _longexec_case(rng):
    """5 ms flush interval; the execute of a Flush- / tick-flushed batch goes on for more than idleRound (10)
    intervals of real and virtual time after Wait was called: Wait returns only after it finished (no timeout)"""
    chunk = rng.random() < 0.6
    mx = rng.choice([10, 20]) if chunk else rng.choice([3, 4])
    ids = _Ids()

    def small():
        o = {"op": "add", "id": ids.next()}
        if chunk:
            o["size"] = rng.randint(0, 3)
        return o

    ops = [small() for _ in range(rng.randint(1, 2))]
    ops.append({"op": "holdexec", "via": rng.choice(["flush", "tick"]), "waiter": True, "during": [],
                "sleep_ms": rng.choice([60, 75, 90])})
    # and: Flush, Add, Flush within one interval -- the second Flush executes what is pending
    ops += [small(), {"op": "flush"}, small(), {"op": "flush"}, small(), small(), {"op": "flush"}, {"op": "wait"}]
    return {"chunk": chunk, "max": mx, "interval_ms": 5, "ops": ops}


def _flushflush_cases(rng):
    """explicit Flush twice within one flush interval with Adds in between, on configured and default executors"""
    out = []
    for chunk, defaults in ((False, False), (True, False), (False, True), (True, True)):
        ids = _Ids()
        ops = []
        for _ in range(rng.randint(2, 4)):
            for _ in range(rng.randint(1, 2)):
                o = {"op": "add", "id": ids.next()}
                if chunk:
                    o["size"] = rng.randint(0, 2)
                ops.append(o)
            ops.append({"op": "flush"})
        ops.append({"op": "wait"})
        case = {"chunk": chunk, "max": (1048576 if chunk else 1000) if defaults else (10 if chunk else 4), "ops": ops}
        if defaults:
            case["defaults"] = True
        elif rng.random() < 0.5:
            case["interval_ms"] = rng.choice([5, 250])
        out.append(case)
    return out


def _less_cases(rng, tier):
    """LessExecutor streams on the virtual clock: thresholds from 1 ns to 2 years (longer than timex.Now()), the
    clock starting near zero or at 1 h; steps around the threshold"""
    out = []
    YEAR = 365 * 24 * 3600 * SECOND
    for _ in range(8 if tier != "thorough" else 40):
        thr = rng.choice([1, 1000, SECOND, 60 * SECOND, 3600 * SECOND, 2 * YEAR])
        start = rng.choice([1, 2, 1000, 3600 * SECOND])
        steps = []
        for _ in range(rng.randint(3, 10)):
            steps.append(rng.choice([0, 1, thr - 1, thr, thr + 1, thr // 2, 2 * thr, thr // 3 + 1]))
        out.append({"chunk": False, "max": 1, "ops": [], "less": {"threshold": thr, "start": start, "steps": steps}})
    return out


def _bigstat_cases(rng, tier):
    """more than 65536 tasks in ONE Metrics period"""
    out = []
    for n in ([65537, 70000] if tier != "thorough" else [65536, 65537, 70000, 131073]):
        ops = [{"op": "setwriter"}, {"op": "addmany", "n": n}, {"op": rng.choice(["flush", "tick"])},
               {"op": "addmany", "n": rng.randint(1, 9)}, {"op": "flush"}]
        out.append({"target": "stat", "chunk": False, "max": 10 ** 9, "log": False, "bigstat": True, "ops": ops})
    return out


def _before(rng, first=None):
    """executors created (with explicit options) before the observed one"""
    out = [first] if first else []
    for _ in range(rng.randint(1, 3)):
        out.append({"chunk": rng.random() < 0.4, "max": rng.choice([0, 3, 7, 64, 2000, 5000]),
                    "interval_ms": rng.choice([0, 50, 250, 7000]), "adds": rng.randint(0, 4)})
    return out


def _indep_cases(rng, tier):
    """the observed executor relies on the DEFAULTS (1000 tasks / 1 MiB / 1 s) after executors with explicit
    options were created in the same process"""
    cases = []
    for _ in range(2 if tier != "thorough" else 4):
        k = rng.randint(0, 40)
        ops = [{"op": "addn", "id": 1, "n": 1000 + k}]
        nxt = 1001 + k
        if rng.random() < 0.5:
            ops += [{"op": "tick"}, {"op": "tick"}]
            k = 0
        m = rng.choice([999, 1000, 1001]) - k
        ops += [{"op": "addn", "id": nxt, "n": m}, {"op": "flush"}]
        cases.append({"chunk": False, "max": 1000, "defaults": True, "big": True,
                      "before": _before(rng, {"chunk": False, "max": rng.choice([5000, 17, 999]), "interval_ms": rng.choice([50, 3000]), "adds": 2}),
                      "ops": ops})
    for _ in range(4 if tier != "thorough" else 12):
        ids = _Ids()
        ops = []
        for _ in range(rng.randint(3, 9)):
            x = rng.random()
            if x < 0.7:
                ops.append({"op": "add", "id": ids.next(), "size": rng.choice([1, 100000, 300000, 400000, 524288, 600000, 1048575, 1048576, 1048577])})
            elif x < 0.85:
                ops.append({"op": "tick"})
            else:
                ops.append({"op": "flush"})
        ops.append({"op": "wait"})
        cases.append({"chunk": True, "max": 1048576, "defaults": True,
                      "before": _before(rng, {"chunk": True, "max": rng.choice([10, 4096]), "interval_ms": rng.choice([50, 3000]), "adds": 2}),
                      "ops": ops})
    return cases


def _stat_directed(rng):
    """the (log, logx, writer position) corners, always present"""
    out = []
    for log, logx_off in ((False, False), (True, False), (False, True)):
        a, d = rng.randint(1, 5), rng.randint(1, 3)
        # tasks and drops arrive before any writer exists; the writer is installed before the period's flush
        out.append({"target": "stat", "chunk": False, "max": 10 ** 9, "log": log, "logx_off": logx_off,
                    "ops": [{"op": "add", "n": a}, {"op": "drop", "n": d}, {"op": "setwriter"}, {"op": rng.choice(["flush", "tick"])},
                            {"op": "add", "n": 2}, {"op": "flush"}]})
        # a whole period is flushed before a writer exists: its tasks still reach Execute, the next period is reported
        out.append({"target": "stat", "chunk": False, "max": 10 ** 9, "log": log, "logx_off": logx_off,
                    "ops": [{"op": "add", "n": a}, {"op": "drop", "n": d}, {"op": "flush"}, {"op": "setwriter"},
                            {"op": "drop", "n": 1}, {"op": "add", "n": 3}, {"op": "tick"}, {"op": "flush"}]})
    return out


def _users(rng, tier):
    k = 4 if tier == "thorough" else 1
    out = [_sqlx_case(rng, 0), _sqlx_case(rng, 1)] + [_sqlx_case(rng) for _ in range(SQLX_N * k - 2)]
    out += _stat_directed(rng) + [_stat_case(rng) for _ in range(STAT_N * k)]
    return out


def generate(rng, tier, n):
    cases = _directed(rng) + _less_cases(rng, tier) + _bigstat_cases(rng, tier) + _indep_cases(rng, tier) + [_retire_case(rng) for _ in range(6 if tier != "thorough" else 24)] + [_longexec_case(rng) for _ in range(4 if tier != "thorough" else 12)] + _flushflush_cases(rng) + _users(rng, tier) + [_hold_case(rng) for _ in range(HOLD_N * (4 if tier == "thorough" else 1))]
    if tier == "thorough":
        cases += _exhaustive()
    while len(cases) < n:
        chunk, mx = _cfg(rng)
        ids = _Ids()
        if rng.random() < 0.65:
            ops = _seq_ops(rng, ids, chunk, rng.randint(3, 25))
        else:
            ops = _seq_ops(rng, ids, chunk, rng.randint(0, 5))
            ops.append(_par(rng, ids, chunk))
            ops += _seq_ops(rng, ids, chunk, rng.randint(0, 4))
            if rng.random() < 0.4:
                ops.append(_par(rng, ids, chunk))
                ops += _seq_ops(rng, ids, chunk, rng.randint(0, 3))
        ops.append({"op": "wait"})
        case = {"chunk": chunk, "max": mx, "ops": ops}
        if rng.random() < 0.2:
            case["before"] = _before(rng)
        if rng.random() < 0.12:
            case["interval_ms"] = rng.choice([250, 2000])
        cases.append(case)
    cases = cases[:max(n, 1)]
    # the BulkInserter cases are large (>= 1000 rows each): at most one per Coq shard
    big = [c for c in cases if c.get("target") == "sqlx" or c.get("big")]
    rest = [c for c in cases if not (c.get("target") == "sqlx" or c.get("big"))]
    for k, c in enumerate(big):
        rest.insert(min(k * SHARD + 1, len(rest)), c)
    return rest


def search(rng, problems):
    out = []
    for _ in range(6):
        out += _directed(rng)
    return out


def _is_seq(case):
    if case.get("target") == "stat":
        return all(o["op"] not in ("par", "wgate") for o in case["ops"])
    return all(o["op"] in ("add", "tick", "advance", "flush", "wait", "racetick") for o in case["ops"])


def _walk(ops):
    for o in ops:
        yield o
        for th in o.get("threads", []):
            for x in _walk(th):
                yield x
        for x in _walk(o.get("pre", [])):
            yield x
        for x in _walk(o.get("during", [])):
            yield x


TAIL = "%s false 0%%nat [] None"     # c_model c_stat c_drops c_reports c_big
NOIVL = " [] (1000000000)%Z None"                  # c_ivl c_ivl_exp


def _ivl(case, obs):
    """observed interval(s) and the configured one (default_interval when no option was given)"""
    seen = [cZ(obs["interval"])] + ([cZ(obs["tick_d"])] if obs.get("tick_d") else []) if "interval" in obs else []
    if case.get("defaults"):
        exp = "default_interval"
    else:
        exp = cZ((case.get("interval_ms") or 1000) * 10 ** 6)
    return " %s %s None" % (clist(seen), exp)


def _big_term(gmax, ops, obs):
    for b in obs["batches"]:
        b["ids"] = b["ids"] or []
    cN = vlib.cN
    adds = ["(%d%%positive, %s, %s)" % (a["id"], cN(a["call"]), cN(a["ret"])) for a in sorted(obs["adds"], key=lambda a: a["id"])]
    calls = ["(%s, %s)" % (cN(k["call"]), cN(k["ret"])) for k in obs["calls"]]
    ticks = ["(%s, %s, %s)" % (cN(t["seq"]), cbool(t["delivered"]), cN(t["done"])) for t in obs["ticks"]]
    batches = ["(%s, %s, %s)" % (clist(["%d%%positive" % x for x in b["ids"]]) if all(x > 0 for x in b["ids"]) else "[]",
                                  cN(b["start"]), cN(b["end"])) for b in obs["batches"]]
    bad = bool(obs["hung"]) or any(x <= 0 for b in obs["batches"] for x in b["ids"])
    big = "(Some (mkbig %s %s %s %s %s %s %s %s))" % (gmax, clist(ops), clist(adds), clist(calls), clist(ticks), clist(batches),
                                                       cbool(bad), cnat(obs["pending"]))
    return bad, big


def _encode_pe_big(case, obs):
    """default BulkExecutor (1000 tasks per batch): the large-batch checkers"""
    ops = []
    for o in case["ops"]:
        if o["op"] == "addn":
            ops.append("BIns %d%%positive %s" % (o["id"], cnat(o["n"])))
        elif o["op"] == "add":
            ops.append("BIns %d%%positive 1%%nat" % o["id"])
        elif o["op"] == "tick":
            ops.append("BTick")
        elif o["op"] == "flush":
            ops.append("BFlush")
    bad, big = _big_term("default_bulk_tasks" if case.get("defaults") else cZ(case["max"]), ops, obs)
    return "mkcase false %s [] false [] 0%%nat [] [] [] [] [] %s %s 2%%nat false 0%%nat [] %s" % (
        cZ(case["max"]), cbool(bad), cnat(obs["pending"]), big) + _ivl(case, obs)


def _rows_to_calls(obs):
    """byte-identical rows cannot be told apart in a statement: the k-th occurrence of a row is attributed to the
    k-th Insert call of that row (canonicalisation); an occurrence no call accounts for becomes id 0 (flagged)"""
    import collections
    calls = collections.defaultdict(collections.deque)
    for a in sorted(obs["adds"], key=lambda a: a["id"]):
        calls[a.get("key", a["id"])].append(a["id"])
    batches = []
    for b in sorted(obs["batches"], key=lambda b: b["start"]):
        ids = [(calls[k].popleft() if calls[k] else 0) for k in (b["ids"] or [])]
        batches.append(dict(b, ids=ids))
    order = {b["start"]: nb for b, nb in zip(sorted(obs["batches"], key=lambda b: b["start"]), batches)}
    return dict(obs, batches=[order[b["start"]] for b in obs["batches"]])


def _encode_sqlx(case, obs):
    obs = _rows_to_calls(obs)
    ops, nxt = [], 1
    for o in case["ops"]:
        if o["op"] == "insert":
            ops.append("BIns %d%%positive %s" % (nxt, cnat(o["n"])))
            nxt += o["n"]
        elif o["op"] == "overlap":
            n = o["first"] + o["second"] + o["after"]
            ops.append("BIns %d%%positive %s" % (nxt, cnat(n)))
            nxt += n
        elif o["op"] == "tick":
            ops.append("BTick")
        elif o["op"] == "flush":
            ops.append("BFlush")
    bad, big = _big_term("max_bulk_rows", ops, obs)
    return "mkcase false %s [] false [] 0%%nat [] [] [] [] [] %s %s 2%%nat false 0%%nat [] %s" % (
        cZ(case["max"]), cbool(bad), cnat(obs["pending"]), big) + NOIVL


def _encode_stat(case, obs):
    seq = _is_seq(case)
    ops, nxt, nd = [], 1, 0
    sizes = []
    for o in _walk(case["ops"]):
        if o["op"] in ("add", "overlap"):
            nxt += o["n"]
        if o["op"] == "wgate":
            nxt += o["n2"]
    sizes = [cpair(cnat(i), cZ(i)) for i in range(1, nxt)]
    nxt = 1
    if seq:
        for o in case["ops"]:
            if o["op"] == "add":
                for _ in range(o["n"]):
                    ops.append("SAdd %s" % cnat(nxt))
                    nxt += 1
            elif o["op"] == "drop":
                for _ in range(o["n"]):
                    ops.append("SAdd %s" % cnat(DROP_BASE + nd))
                    nd += 1
            elif o["op"] == "tick":
                ops.append("STick")
            elif o["op"] == "flush":
                ops.append("SFlush")
            elif o["op"] == "overlap":
                ops.append("STick" if o["via"] == "tick" else "SFlush")
                for _ in range(o["n"]):
                    ops.append("SAdd %s" % cnat(nxt))
                    nxt += 1
    adds = ["mkadd %s %s %s" % (cnat(a["id"]), cnat(a["call"]), cnat(a["ret"])) for a in obs["adds"]]
    calls = ["mkcall false %s %s" % (cnat(k["call"]), cnat(k["ret"])) for k in obs["calls"]]
    ticks = ["mktick %s %s %s" % (cnat(t["seq"]), cbool(t["delivered"]), cnat(t["done"])) for t in obs["ticks"]]
    batches = ["mkbatch %s %s %s" % (clist([cnat(x) for x in b["ids"]]), cnat(b["start"]), cnat(b["end"])) for b in obs["batches"]]
    reps = ["mkrep %s %s %s %s %s %s" % (cnat(b["drops"]), cZ(b["dur_ms"]), cZ(b["count"]), cnat(b["rdrops"]), cZ(b["sum_ms"]),
                                         cbool(b.get("written", True))) for b in obs["batches"]]
    return "mkcase false %s %s %s %s %s %s %s %s %s [] %s %s %s true %s %s None" % (
        cZ(case["max"]), clist(sizes), cbool(seq), clist(ops), cnat(len(case["ops"])),
        clist(adds), clist(calls), clist(ticks), clist(batches), cbool(bool(obs["hung"])), cnat(obs["pending"]),
        cnat(2 if seq else 1), cnat(obs.get("drops", 0)), clist(reps)) + NOIVL


EMPTY = "mkcase false (1)%%Z [] false [] 0%%nat [] [] [] [] [] %s 0%%nat 1%%nat false 0%%nat [] None [] (0)%%Z (Some (%s))"


def _encode_less(case, obs):
    calls = obs.get("less")
    bad = calls is None or any(c[1] != c[2] for c in calls)     # DoOrDiscard's answer and the callback agree
    body = "ALess %s %s" % (cZ(case["less"]["threshold"]), clist([cpair(cZ(c[0]), cbool(c[1] == 1)) for c in (calls or [])]))
    return EMPTY % (cbool(bad), body)


def _encode_bigstat(case, obs):
    added = sum(o["n"] for o in case["ops"] if o["op"] == "addmany")
    bad = "batches" not in obs or bool(obs["hung"])
    periods = ["(%s, %s, %s, %s)" % (cZ(b.get("many", 0) + len(b["ids"])), cZ(b["count"]), cZ(b["dur_ms"]), cZ(b["sum_ms"]))
               for b in obs.get("batches", [])]
    return EMPTY % (cbool(bad), "ABigStat %s %s" % (cZ(added), clist(periods)))


def encode(case, obs):
    if case.get("less"):
        return _encode_less(case, obs)
    if case.get("bigstat"):
        return _encode_bigstat(case, obs)
    tgt = case.get("target", "pe")
    if "adds" not in obs:
        obs = {"adds": [], "calls": [], "ticks": [], "batches": [], "perop": [], "hung": obs.get("driver_panic") or obs.get("error") or "?", "pending": 0}
    sizes = []
    for o in _walk(case["ops"]):
        if o["op"] in ("add", "racetick") and "size" in o:
            sizes.append(cpair(cnat(o["id"]), cZ(o["size"])))
        if o["op"] == "waitrace":
            sizes.append(cpair(cnat(o["id"]), cZ(o.get("size", 0))))
            sizes.append(cpair(cnat(o["n"]), cZ(o.get("size", 0))))
    if tgt == "sqlx":
        return _encode_sqlx(case, obs)
    if tgt == "stat":
        return _encode_stat(case, obs)
    if case.get("big"):
        return _encode_pe_big(case, obs)
    seq = _is_seq(case)
    # scripts whose only concurrency are held execute callbacks have a fixed add order: the model replays them
    # (mode 2: batches in the order they were taken out = order of the callbacks' entry, and tick deliveries)
    held = (not seq) and all(o["op"] in ("add", "tick", "advance", "flush", "wait", "racetick", "holdexec") for o in case["ops"])
    mode = 0 if seq else (2 if held else 1)
    if held:
        obs = dict(obs, batches=sorted(obs["batches"], key=lambda b: b["start"]))
    ops = []
    if seq or held:
        for o in case["ops"]:
            k = o["op"]
            if k == "holdexec":
                ops.append({"tick": "STick", "flush": "SFlush", "wait": "SWait"}[o["via"]])
                for d in o["during"]:
                    ops.append("SAdd %s" % cnat(d["id"]))
                for h in o.get("inhold", []):
                    ops.append("STick" if h["op"] == "tick" else "SAdvance %s" % cZ(h["n"] * SECOND))
                if o.get("waiter"):
                    ops.append("SWait")
                if o.get("sleep_ms"):
                    ops.append("SAdvance %s" % cZ(o["sleep_ms"] * 10 ** 6))
            elif k == "add":
                ops.append("SAdd %s" % cnat(o["id"]))
            elif k == "racetick":
                ops.append("SRaceTick %s" % cnat(o["id"]))
            elif k == "tick":
                ops.append("STick")
            elif k == "advance":
                ops.append("SAdvance %s" % cZ(o["n"] * SECOND))
            elif k == "flush":
                ops.append("SFlush")
            else:
                ops.append("SWait")
    adds = ["mkadd %s %s %s" % (cnat(a["id"]), cnat(a["call"]), cnat(a["ret"])) for a in obs["adds"]]
    calls = ["mkcall %s %s %s" % (cbool(k["kind"] == "wait"), cnat(k["call"]), cnat(k["ret"])) for k in obs["calls"]]
    ticks = ["mktick %s %s %s" % (cnat(t["seq"]), cbool(t["delivered"]), cnat(t["done"])) for t in obs["ticks"]]
    batches = ["mkbatch %s %s %s" % (clist([cnat(x) for x in b["ids"]]), cnat(b["start"]), cnat(b["end"])) for b in obs["batches"]]
    perop = ["mkop %s %s %s %s" % (cnat(p["nb"]), cbool(p["guarded"]), cnat(p["starts"]), cnat(p["stops"])) for p in obs["perop"]]
    cmax = cZ(case["max"])
    if case.get("defaults"):
        cmax = "default_chunk_size" if case["chunk"] else "default_bulk_tasks"
    return "mkcase %s %s %s %s %s %s %s %s %s %s %s %s %s %s" % (
        cbool(case["chunk"]), cmax, clist(sizes), cbool(seq), clist(ops), cnat(len(case["ops"])),
        clist(adds), clist(calls), clist(ticks), clist(batches), clist(perop), cbool(bool(obs["hung"])), cnat(obs["pending"]),
        TAIL % cnat(mode)) + _ivl(case, obs)


def nontrivial(case, obs):
    if case.get("less"):
        return len({c[1] for c in obs.get("less", [])}) == 2
    if "adds" not in obs or obs["hung"]:
        return False
    if case.get("target") == "sqlx":
        return any(o["op"] == "overlap" for o in case["ops"]) or len(obs["batches"]) >= 2
    if case.get("target") == "stat":
        return len(obs["adds"]) >= 3 and len(obs["batches"]) >= 2
    nb = len(obs["batches"])
    if len(obs["adds"]) < 3 or nb < 2:
        return False
    quit_ = any(p["stops"] > 0 for p in obs["perop"])
    par = not _is_seq(case)
    mx = case["max"]
    if case["chunk"]:
        sz = {o["id"]: o.get("size", 0) for o in _walk(case["ops"]) if "id" in o}
        thr = [sum(sz.get(x, 0) for x in b["ids"]) >= mx for b in obs["batches"]]
    else:
        thr = [len(b["ids"]) >= mx for b in obs["batches"]]
    return quit_ or par or (any(thr) and not all(thr))


def bucket(case, obs):
    if case.get("less"):
        return ["target:less", "less-threshold=%d" % case["less"]["threshold"], "less-start=%d" % case["less"]["start"]]
    if case.get("bigstat"):
        return ["target:stat", "stat:one-period-of-%d-tasks" % max(o.get("n", 0) for o in case["ops"])]
    if case.get("target") in ("sqlx", "stat"):
        out = ["target:" + case["target"]] + ["op:" + case["target"] + "." + o["op"] for o in case["ops"]]
        if case["target"] == "stat":
            first = next((k for k, o in enumerate(case["ops"]) if o["op"] in ("tick", "flush", "wgate", "overlap")), 0)
            wpos = next((k for k, o in enumerate(case["ops"]) if o["op"] == "setwriter"), -1)
            out.append("stat:log=%s,logx=%s,writer=%s" % ("on" if case.get("log") else "off", "off" if case.get("logx_off") else "on",
                                                         "first" if wpos == 0 else ("before-flush" if wpos <= first else "after-first-flush")))
        if "adds" in obs:
            out.append(case["target"] + "-batches=%d" % min(len(obs["batches"]), 12))
            if obs["hung"]:
                out.append("obs:HUNG")
        return out
    out = ["chunk" if case["chunk"] else "bulk", "max=%d" % case["max"], "seq" if _is_seq(case) else "par"]
    if case.get("defaults"):
        out.append("cfg:defaults-after-%d-configured-executors" % len(case.get("before", [])))
    elif case.get("before"):
        out.append("cfg:explicit-after-earlier-executors")
    if case.get("interval_ms"):
        out.append("cfg:interval=%dms" % case["interval_ms"])
    for o in case["ops"]:
        out.append("op:" + o["op"])
        if o["op"] == "par":
            out.append("par-threads=%d" % len(o["threads"]))
    if "adds" in obs:
        if any(p["stops"] > 0 for p in obs["perop"]):
            out.append("obs:flusher-quit")
        if any(p["starts"] > 1 for p in obs["perop"]):
            out.append("obs:flusher-restarted")
        if any(not t["delivered"] for t in obs["ticks"]):
            out.append("obs:tick-without-flusher")
        if obs["hung"]:
            out.append("obs:HUNG")
        out.append("batches=%d" % min(len(obs["batches"]), 12))
    return out


def classify(case, obs):
    if case.get("less") or case.get("target") in ("sqlx", "stat"):
        return None
    return _classify_pe(case, obs)


def _classify_pe(case, obs):
    """KNOWN finding class: a Wait that overlaps another goroutine's threshold-reaching Add returns before a task
    whose Add had returned earlier has executed.  The class applies only when that is the ONLY anomaly of the case:
    nothing hung, every added task executed exactly once, in add order, batches within the bulk bound, and the
    early Wait is the one issued by the waitrace operation itself (so any other violation is still reported)."""
    if not any(o["op"] == "waitrace" for o in case["ops"]):
        return None
    if obs.get("hung") or obs.get("pending"):
        return None
    added = [a["id"] for a in obs.get("adds", [])]
    executed = [i for b in obs.get("batches", []) for i in b["ids"]]
    if sorted(added) != sorted(executed) or len(set(executed)) != len(executed):
        return None
    if not case.get("chunk") and any(len(b["ids"]) > case["max"] for b in obs["batches"]):
        return None
    end_of = {i: b["end"] for b in obs["batches"] for i in b["ids"]}
    early = []
    for w in obs.get("calls", []):
        if w["kind"] != "wait":
            continue
        for a in obs["adds"]:
            if a["ret"] < w["call"] and end_of[a["id"]] > w["ret"]:
                early.append((w["call"], a["id"]))
    if not early:
        return None
    # only the first wait (the one racing the threshold Add) may be early
    first_wait = min(w["call"] for w in obs["calls"] if w["kind"] == "wait")
    if any(wc != first_wait for wc, _ in early):
        return None
    return "wait-overlapping-threshold-add"


def explain(case, obs):
    if "adds" in obs and obs.get("hung"):
        return "a call never returned or the executor never became quiescent: " + str(obs["hung"])
    return ("observed execute-callback batches contradict C16.Exec.spec_ok: a task executed twice / never (after Wait, "
            "Flush or two ticks), a batch out of add order or over the bulk/chunk bound, a tick refused while a task "
            "was pending (no live flusher), or Wait returned before a previously added task finished executing")
