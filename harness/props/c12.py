"""C12 Redis wrapper / sharded KV transparency: twin-miniredis differential histories.

Tie 1 (main tie): harness/c12gen (own translator, stdlib go/parser) regenerates coq/gen/C12_Table.v from
the CURRENT lib/store/redis/redis.go and lib/store/kv/store.go when this module is imported (i.e. before
vlib builds the proofs); gogen produces C12_Gen.v (constants, acceptable, getRedis/DelCtx skeletons).
Tie 2: differential drivers lib/store/redis and lib/store/kv (wrapper vs raw go-redis on twin miniredis).
"""
import hashlib
import os
import re
from fractions import Fraction

import vlib
from vlib import cZ, cnat, cbool, clist, cpair

ID = "C12"
GO_PKG = "./lib/store/redis"
KV_PKG = "./lib/store/kv"
R = "lib/store/redis/redis.go"
GEN_SPEC = {"imports": ["From God Require Import C12.GenEnv."], "items": [
    {"kind": "const", "file": R, "name": "NodeType"},
    {"kind": "const", "file": R, "name": "ClusterType"},
    {"kind": "const", "file": R, "name": "blockingQueryTimeout"},
    {"kind": "const", "file": R, "name": "defaultSlowThreshold"},
    {"kind": "const", "file": R, "name": "readWriteTimeout"},
    {"kind": "const", "file": "lib/store/redis/clientmanager.go", "name": "defaultDatabase"},
    {"kind": "const", "file": "lib/store/redis/clientmanager.go", "name": "maxRetries"},
    {"kind": "const", "file": "lib/store/redis/clientmanager.go", "name": "idleConns"},
    {"kind": "func", "file": R, "name": "acceptable", "bools": []},
    {"kind": "calls", "file": R, "func": "acceptable", "as": "acceptable_calls"},
    {"kind": "cases", "file": R, "func": "getRedis", "as": "getRedis_cases"},
    {"kind": "calls", "file": R, "func": "getRedis", "as": "getRedis_calls"},
    {"kind": "calls", "file": "lib/store/kv/store.go", "func": "kvStore.getRedis", "as": "kv_getRedis_calls"},
    {"kind": "calls", "file": "lib/store/kv/store.go", "func": "kvStore.DelCtx", "as": "kv_DelCtx_calls"},
    {"kind": "calls", "file": "lib/store/kv/store.go", "func": "New", "as": "kv_New_calls"},
    {"kind": "calls", "file": "lib/store/redis/clientmanager.go", "func": "getClient", "as": "getClient_calls"},
    {"kind": "calls", "file": "lib/store/redis/clustermanager.go", "func": "getCluster", "as": "getCluster_calls"},
    {"kind": "calls", "file": "lib/store/redis/scriptcache.go", "func": "ScriptCache.GetSha", "as": "sc_GetSha_calls"},
    {"kind": "calls", "file": "lib/store/redis/scriptcache.go", "func": "ScriptCache.SetSha", "as": "sc_SetSha_calls"},
]}
CHUNK = 250          # cases per driver process (bounds whatever a long-lived driver process accumulates)
PARALLEL = 4         # driver processes at a time
RETRY_MAX = 60       # suspects re-run in a fresh process
QUICK_N = 130
THOROUGH_N = 3000
SEARCH_N = 60
SHARD = 20
DRIVER_TIMEOUT = 1500
COQ_FILES = ["theories/C12/Props.v", "theories/C12/Link.v"]
RULE = ("round 8 adds: BLPopWithTimeout on an empty list (blocks 1 s = the caller's timeout, redis.Nil; wall time vs raw in 2 s "
        "buckets), TTL streams (SetNX/SetNXEx on existing persistent/expiring keys, SetEx, Expire, Persist; value and TTL of the key "
        "compared on the servers after every such step, in every history); round 7 adds: error histories (WRONGTYPE, non-numeric increments, redis.Nil, NOSCRIPT, dead contexts, pipelines with a "
        "failing command, hang-up peers; context and plain forms; node and cluster clients; kv) in a driver process with the "
        "Prometheus agent ENABLED; round 6 adds: kv shard-fault streams (2-4 shards behind switchable proxies; one shard unreachable; multi-key Del of "
        "3-6 keys in random order against the twin's per-key DELs of the reachable keys; shard back up); round 5 adds: breaker phases against peers that accept, read the request and hang up (bare io.EOF) / reset / never answer "
        "(30 calls cycling over 16 command kinds, real breaker), per-command connection-failure runs (every guarded method twice, "
        "recording breaker), count streams (populated hash/set/zset/keys, calls naming 0-3 existing members at once; adds vs "
        "updates); round 4 adds: construction options node/cluster x pass x tls (New(addr, options...) and Config.NewRedis) against "
        "servers that enforce the password / TLS, with the raw twin configured with the same arguments, incl. misconfigured "
        "pairs; kv shards with per-shard type/pass/tls; blocking-node histories (create -> BLPop family -> close -> ordinary "
        "commands on the same *Redis, a second *Redis of the address and the still-open node); per-command runs of 30 "
        "redis.Nil / cancelled replies on a fresh handle with the real breaker for every guarded method; round 2 adds: histories over 2-4 addresses in one process with server restarts (clients re-dial), kv histories with "
        "shard restarts and key-placement snapshots, one dead-context stream per table (every context-form method with a "
        "cancelled / expired context after a mark; keyspace frozen), SetSha/GetSha streams, EvalSha via the script cache; "
        "differential histories of 30-60 operations: 55% redis.Redis (all context-form methods except GeoHash, in "
        "context / plain / cancelled-context form) vs raw go-redis on twin miniredis, 43% kv.Store over 1-4 weighted "
        "shards vs raw go-redis on one server, 2% breaker phases (30 absent-key calls, 30 cancelled calls, 30 calls to a "
        "dead server); keys drawn from typed pools (strings, hashes, lists, sets, zsets, hll, bitmaps, geo) with 12% "
        "wrong-type/absent picks, values/scores/ranges/ttls from small boundary sets, virtual time steps; non-trivial = "
        ">= 10 executed steps with at least one converted reply and one error or redis.Nil reply; distinct = canonical JSON")
TRUSTED = ["miniredis v2.23.1 as the server semantics of the twin runs (the theorems are for every `exec`)",
           "go-redis v8.11.5 command encoding on both sides of the comparison",
           "harness/c12gen (own translator: go/parser -> C12_Table.v) and the raw side of the drivers "
           "(internal/verifdrv/c12raw.go), which restates the documented correspondence in Go",
           "int = int64 (64-bit platform): CInt is the identity"]
ASSUMPTIONS = ["differential histories (redis and kv) run the wrappers with a breaker that never rejects (redis.VerifNeverReject / the "
               "recording pass-through breaker): server errors and expired contexts count as breaker failures by design and would "
               "make the real breaker reject at random; the breaker clauses are checked on the breaker and runs streams with the "
               "real breaker",
               "drive(): %d cases per driver process, %d processes at a time; the drivers close the wrapper's cached go-redis "
               "clients after every case (redis.VerifResetClients); a case whose wrapper met a connection-level error its raw twin "
               "did not meet is re-run once in a fresh process and the second observation counts" % (CHUNK, PARALLEL),
               "raw_err_zero: go-redis returns the zero value together with any error (hypothesis of c12_transparent)",
               "key_local + total deterministic owner function (C13) for c12_shard_equiv / c12_multidel; SPop/SRandMember "
               "(server-side randomness) are compared on the single-server twin only",
               "blocking BLPop* compared only when an element is present; GeoHash unsupported by miniredis (table only)",
               "the size<=0 guard of Z(Rev)RangeByScoreWithScoresAndLimit is part of the documented table"]

C12GEN_DIR = os.path.join(vlib.VERIF, "harness", "c12gen")
TABLE_V = os.path.join(vlib.COQ, "gen", "C12_Table.v")


def regen_table():
    """Build and run the C12 translator; on failure leave a marker that breaks Link.v."""
    os.makedirs(os.path.dirname(TABLE_V), exist_ok=True)
    b = os.path.join(C12GEN_DIR, "c12gen")
    src = os.path.join(C12GEN_DIR, "main.go")
    out = ""
    rc = 0
    if not os.path.exists(b) or os.path.getmtime(b) < os.path.getmtime(src):
        rc, out = vlib.sh(["go", "build", "-o", b, "."], cwd=C12GEN_DIR, env=dict(vlib.GOENV, GOFLAGS=""), timeout=300)
    if rc == 0:
        rc, out = vlib.sh("%s -repo %s 2>&1" % (b, vlib.REPO), timeout=120)
    if rc != 0 or "Definition redis_table" not in out:
        msg = re.sub(r"[^ -~]", "?", out)[:400].replace('"', "'")
        out = "(* c12gen failed *)\nFrom Coq Require Import String.\nDefinition c12gen_failed : string := \"%s\"%%string.\n" % msg
    vlib.write_if_changed(TABLE_V, out)
    return rc == 0


TABLE_OK = regen_table()


def pick_exec_mod():
    """Exec.v (model_ok) imports the regenerated GodGen.C12_Gen.  When that file no longer compiles (say `acceptable`
    mentions io.EOF, which the GoLite environment does not know) Exec cannot be built and vlib could not search for a
    failing input at all: fall back to ExecFallback (same spec_ok, model_ok = false)."""
    genenv = os.path.join(vlib.COQ, "theories", "C12", "GenEnv.vo")
    if not os.path.exists(genenv):
        return "C12.Exec"
    ok, _ = vlib.run_gogen(ID, GEN_SPEC)
    if not ok:
        return "C12.ExecFallback"
    d = os.path.join(vlib.WORK, "C12_gen_probe_%d" % os.getpid())
    os.makedirs(d, exist_ok=True)
    rc, _ = vlib.sh(["coqc", "-Q", "theories", "God", "-Q", "gen", "GodGen", "-w", "-all", "-o", os.path.join(d, "C12_Gen.vo"),
                     "gen/C12_Gen.v"], cwd=vlib.COQ, timeout=120)
    import shutil
    shutil.rmtree(d, ignore_errors=True)
    return "C12.Exec" if rc == 0 else "C12.ExecFallback"


EXEC_MOD = pick_exec_mod()

LUA = [
    "return redis.call('GET', KEYS[1])",
    "redis.call('SET', KEYS[1], ARGV[1]); return ARGV[1]",
    "return redis.call('INCRBY', KEYS[1], ARGV[1])",
    "return {1, 2, 'x', KEYS[1]}",
    "return redis.call('HGET', KEYS[1], ARGV[1])",
    "if redis.call('EXISTS', KEYS[1]) == 1 then return redis.call('DEL', KEYS[1]) else return 0 end",
]
EPOCH = 1700000000
POOL = {"str": ["s0", "s1", "s2", "n0", "n1"], "hash": ["h0", "h1"], "list": ["l0", "l1"], "set": ["t0", "t1", "t2"],
        "zset": ["z0", "z1", "z2"], "hll": ["p0", "p1"], "bit": ["b0", "b1"], "geo": ["g0"]}
ALLKEYS = [k for ks in POOL.values() for k in ks] + ["nokey"]
VALS = ["a", "b", "c", "", "10", "-3", "7", "x y", "hello"]
MEMB = ["a", "b", "c", "d", "e"]
INTS = [-100, -3, -2, -1, 0, 1, 2, 3, 5, 10, 100]
FLOATS = [0.5, 1.5, 2.25, -0.75, 3.0, 1000.125, -2.5, 0.0]
# destinations of S*Store: never touched by SAdd (miniredis 2.23.1 panics on SADD to an empty stored set)
DEST = ["ds0", "ds1"]
CITIES = [["rome", 12.4964, 41.9028], ["paris", 2.3522, 48.8566], ["catania", 15.087269, 37.502669], ["palermo", 13.361389, 38.115556]]


def _k(rng, kind):
    if rng.random() < 0.12:
        return rng.choice(ALLKEYS)
    return rng.choice(POOL[kind])


def _ks(rng, kind, lo=1, hi=3):
    return [_k(rng, kind) for _ in range(rng.randint(lo, hi))]


def _ms(rng, lo=1, hi=3):
    return [rng.choice(MEMB) for _ in range(rng.randint(lo, hi))]


def _rng2(rng):
    return rng.choice([-3, -2, -1, 0, 1, 2]), rng.choice([-1, 0, 1, 2, 3, 10])


def _pipe(rng):
    out = []
    for _ in range(rng.randint(1, 4)):
        c = rng.choice(["set", "incr", "get", "hset", "lpush"])
        if c == "set":
            out.append(["set", _k(rng, "str"), rng.choice(VALS)])
        elif c == "incr":
            out.append(["incr", rng.choice(["n0", "n1", "s0"])])
        elif c == "get":
            out.append(["get", _k(rng, "str")])
        elif c == "hset":
            out.append(["hset", _k(rng, "hash"), rng.choice(MEMB), rng.choice(VALS)])
        else:
            out.append(["lpush", _k(rng, "list"), rng.choice(VALS)])
    return out


def _sha(rng):
    return hashlib.sha1(rng.choice(LUA).encode()).hexdigest() if rng.random() < 0.8 else "0" * 40


def _eval_args(rng):
    i = rng.randrange(len(LUA))
    key = {0: "str", 1: "str", 2: "str", 3: "str", 4: "hash", 5: "set"}[i]
    argv = {1: [rng.choice(VALS)], 2: [str(rng.choice(INTS))], 4: [rng.choice(MEMB)]}.get(i, [])
    return i, _k(rng, key if key != "str" or i != 2 else "str"), argv


# method -> argument generator (redis.Redis context-form names)
def _redis_ops():
    z3 = lambda r: [_k(r, "zset")] + list(_rng2(r))
    zs = lambda r: [_k(r, "zset"), r.choice([-5, 0, 1, 2]), r.choice([0, 2, 3, 100])]
    zl = lambda r: zs(r) + [r.choice([0, 0, 1, 2]), r.choice([-1, 0, 1, 2, 3])]

    def ev(r):
        i, k, argv = _eval_args(r)
        return [i, [k], argv]

    def evsha(r):
        i, k, argv = _eval_args(r)
        return [hashlib.sha1(LUA[i].encode()).hexdigest() if r.random() < 0.8 else "0" * 40, [k], argv]

    return {
        "BitCountCtx": lambda r: [_k(r, "bit"), r.choice([0, 1, -1]), r.choice([-1, 0, 1, 5])],
        "BitOpAndCtx": lambda r: [_k(r, "bit"), _ks(r, "bit")],
        "BitOpOrCtx": lambda r: [_k(r, "bit"), _ks(r, "bit")],
        "BitOpXorCtx": lambda r: [_k(r, "bit"), _ks(r, "bit")],
        "BitOpNotCtx": lambda r: [_k(r, "bit"), _k(r, "bit")],
        "BitPosCtx": lambda r: [_k(r, "bit"), r.choice([0, 1]), r.choice([0, 1]), r.choice([-1, 1, 3])],
        "BLPopCtx": lambda r: [_k(r, "list")],
        "BLPopExCtx": lambda r: [_k(r, "list")],
        "BLPopWithTimeoutCtx": lambda r: [r.choice([1, 2]) * 10 ** 9, _k(r, "list")],
        "DecrCtx": lambda r: [r.choice(["n0", "n1", "s0", "nokey"])],
        "DecrByCtx": lambda r: [r.choice(["n0", "n1", "s0"]), r.choice(INTS)],
        "DelCtx": lambda r: [[r.choice(ALLKEYS) for _ in range(r.randint(1, 3))]],
        "EvalCtx": ev,
        "EvalShaCtx": evsha,
        "ExistsCtx": lambda r: [r.choice(ALLKEYS)],
        "ExpireCtx": lambda r: [r.choice(ALLKEYS), r.choice([1, 5, 10, 100, 0, -1])],
        "ExpireAtCtx": lambda r: [r.choice(ALLKEYS), EPOCH + r.choice([-5, 1, 7, 60, 3600])],
        "GeoAddCtx": lambda r: [_k(r, "geo"), r.sample(CITIES, r.randint(1, 3))],
        "GeoDistCtx": lambda r: [_k(r, "geo"), r.choice(CITIES)[0], r.choice(CITIES)[0], r.choice(["m", "km", "mi", "ft"])],
        "GeoPosCtx": lambda r: [_k(r, "geo"), [r.choice(CITIES + [["nowhere"]])[0] for _ in range(r.randint(1, 3))]],
        "GeoRadiusCtx": lambda r: [_k(r, "geo"), r.choice([12.5, 15.0, 2.0]), r.choice([41.9, 37.5, 48.8]), [r.choice([50, 200, 1500]), "km"]],
        "GeoRadiusByMemberCtx": lambda r: [_k(r, "geo"), r.choice(CITIES)[0], [r.choice([100, 600, 2000]), "km"]],
        "GetCtx": lambda r: [_k(r, "str")],
        "GetBitCtx": lambda r: [_k(r, "bit"), r.choice([0, 1, 7, 8, 100])],
        "GetSetCtx": lambda r: [_k(r, "str"), r.choice(VALS)],
        "HDelCtx": lambda r: [_k(r, "hash"), _ms(r)],
        "HExistsCtx": lambda r: [_k(r, "hash"), r.choice(MEMB)],
        "HGetCtx": lambda r: [_k(r, "hash"), r.choice(MEMB)],
        "HGetAllCtx": lambda r: [_k(r, "hash")],
        "HIncrByCtx": lambda r: [_k(r, "hash"), r.choice(MEMB), r.choice(INTS)],
        "HKeysCtx": lambda r: [_k(r, "hash")],
        "HLenCtx": lambda r: [_k(r, "hash")],
        "HMGetCtx": lambda r: [_k(r, "hash"), _ms(r)],
        "HSetCtx": lambda r: [_k(r, "hash"), r.choice(MEMB), r.choice(VALS)],
        "HSetNXCtx": lambda r: [_k(r, "hash"), r.choice(MEMB), r.choice(VALS)],
        "HMSetCtx": lambda r: [_k(r, "hash"), [[m, r.choice(VALS)] for m in sorted(set(_ms(r)))]],
        "HScanCtx": lambda r: [_k(r, "hash"), 0, r.choice(["*", "a*"]), 100],
        "HValsCtx": lambda r: [_k(r, "hash")],
        "IncrCtx": lambda r: [r.choice(["n0", "n1", "s0", "nokey"])],
        "IncrByCtx": lambda r: [r.choice(["n0", "n1", "s0"]), r.choice(INTS)],
        "KeysCtx": lambda r: [r.choice(["*", "s*", "z?", "nomatch"])],
        "LLenCtx": lambda r: [_k(r, "list")],
        "LIndexCtx": lambda r: [_k(r, "list"), r.choice([-2, -1, 0, 1, 5])],
        "LPopCtx": lambda r: [_k(r, "list")],
        "LPushCtx": lambda r: [_k(r, "list"), [r.choice(VALS) for _ in range(r.randint(1, 3))]],
        "LRangeCtx": lambda r: [_k(r, "list")] + list(_rng2(r)),
        "LRemCtx": lambda r: [_k(r, "list"), r.choice([-2, -1, 0, 1, 2]), r.choice(VALS)],
        "LTrimCtx": lambda r: [_k(r, "list")] + list(_rng2(r)),
        "MGetCtx": lambda r: [[r.choice(ALLKEYS) for _ in range(r.randint(1, 4))]],
        "PersistCtx": lambda r: [r.choice(ALLKEYS)],
        "PFAddCtx": lambda r: [_k(r, "hll"), _ms(r)],
        "PFCountCtx": lambda r: [_k(r, "hll")],
        "PFMergeCtx": lambda r: [_k(r, "hll"), _ks(r, "hll", 1, 2)],
        "PingCtx": lambda r: [],
        "PipelinedCtx": lambda r: [_pipe(r)],
        "RPopCtx": lambda r: [_k(r, "list")],
        "RPushCtx": lambda r: [_k(r, "list"), [r.choice(VALS) for _ in range(r.randint(1, 3))]],
        "SAddCtx": lambda r: [_k(r, "set"), _ms(r)],
        "ScanCtx": lambda r: [0, r.choice(["*", "s*", "z*"]), 100],
        "SetBitCtx": lambda r: [_k(r, "bit"), r.choice([0, 1, 7, 8, 20]), r.choice([0, 1, 1, 2])],
        "SScanCtx": lambda r: [_k(r, "set"), 0, r.choice(["*", "a*"]), 100],
        "SCardCtx": lambda r: [_k(r, "set")],
        "ScriptLoadCtx": lambda r: [r.randrange(len(LUA))],
        "SetCtx": lambda r: [_k(r, "str"), r.choice(VALS)],
        "SetExCtx": lambda r: [_k(r, "str"), r.choice(VALS), r.choice([1, 5, 10, 100])],
        "SetNXCtx": lambda r: [_k(r, "str"), r.choice(VALS)],
        "SetNXExCtx": lambda r: [_k(r, "str"), r.choice(VALS), r.choice([1, 5, 10, 100])],
        "SIsMemberCtx": lambda r: [_k(r, "set"), r.choice(MEMB)],
        "SMembersCtx": lambda r: [_k(r, "set")],
        "SPopCtx": lambda r: [_k(r, "set")],
        "SRandMemberCtx": lambda r: [_k(r, "set"), r.choice([-2, 1, 2, 5])],
        "SRemCtx": lambda r: [_k(r, "set"), _ms(r)],
        "SUnionCtx": lambda r: [_ks(r, "set")],
        "SUnionStoreCtx": lambda r: [r.choice(DEST), _ks(r, "set")],
        "SDiffCtx": lambda r: [_ks(r, "set")],
        "SDiffStoreCtx": lambda r: [r.choice(DEST), _ks(r, "set")],
        "SInterCtx": lambda r: [_ks(r, "set")],
        "SInterStoreCtx": lambda r: [r.choice(DEST), _ks(r, "set")],
        "TTLCtx": lambda r: [r.choice(ALLKEYS)],
        "ZAddCtx": lambda r: [_k(r, "zset"), r.choice(INTS), r.choice(MEMB)],
        "ZAddFloatCtx": lambda r: [_k(r, "zset"), r.choice(FLOATS), r.choice(MEMB)],
        "ZAddsCtx": lambda r: [_k(r, "zset"), [[m, r.choice(INTS)] for m in sorted(set(_ms(r)))]],
        "ZCardCtx": lambda r: [_k(r, "zset")],
        "ZCountCtx": zs,
        "ZIncrByCtx": lambda r: [_k(r, "zset"), r.choice(INTS), r.choice(MEMB)],
        "ZScoreCtx": lambda r: [_k(r, "zset"), r.choice(MEMB)],
        "ZRankCtx": lambda r: [_k(r, "zset"), r.choice(MEMB)],
        "ZRemCtx": lambda r: [_k(r, "zset"), _ms(r)],
        "ZRemRangeByScoreCtx": zs,
        "ZRemRangeByRankCtx": z3,
        "ZRangeCtx": z3,
        "ZRangeWithScoresCtx": z3,
        "ZRevRangeWithScoresCtx": z3,
        "ZRangeByScoreWithScoresCtx": zs,
        "ZRangeByScoreWithScoresAndLimitCtx": zl,
        "ZRevRangeCtx": z3,
        "ZRevRangeByScoreWithScoresCtx": zs,
        "ZRevRangeByScoreWithScoresAndLimitCtx": zl,
        "ZRevRankCtx": lambda r: [_k(r, "zset"), r.choice(MEMB)],
        "ZUnionStoreCtx": lambda r: [_k(r, "zset"), _ks(r, "zset"), r.choice(["SUM", "MIN", "MAX"])],
    }


REDIS_OPS = _redis_ops()
KV_SAME = ["DecrCtx", "DecrByCtx", "DelCtx", "ExistsCtx", "ExpireCtx", "ExpireAtCtx", "GetCtx", "GetSetCtx", "GetBitCtx",
           "HExistsCtx", "HGetCtx", "HGetAllCtx", "HIncrByCtx", "HKeysCtx", "HLenCtx", "HMGetCtx", "HSetCtx", "HMSetCtx",
           "HValsCtx", "IncrCtx", "IncrByCtx", "LLenCtx", "LIndexCtx", "LPopCtx", "LPushCtx", "LRangeCtx", "LRemCtx",
           "LTrimCtx", "PersistCtx", "PFAddCtx", "PFCountCtx", "RPopCtx", "RPushCtx", "SAddCtx", "SScanCtx", "SCardCtx",
           "SetCtx", "SetBitCtx", "SetExCtx", "SetNXCtx", "SetNXExCtx", "SIsMemberCtx", "SMembersCtx", "SRemCtx", "TTLCtx",
           "ZAddCtx", "ZAddFloatCtx", "ZAddsCtx", "ZCardCtx", "ZCountCtx", "ZIncrByCtx", "ZScoreCtx", "ZRankCtx", "ZRemCtx",
           "ZRemRangeByScoreCtx", "ZRemRangeByRankCtx", "ZRangeCtx", "ZRangeWithScoresCtx", "ZRevRangeWithScoresCtx",
           "ZRangeByScoreWithScoresCtx", "ZRangeByScoreWithScoresAndLimitCtx", "ZRevRangeCtx",
           "ZRevRangeByScoreWithScoresCtx", "ZRevRangeByScoreWithScoresAndLimitCtx", "ZRevRankCtx"]
KV_OPS = {m: REDIS_OPS[m] for m in KV_SAME}
KV_OPS["HSetNxCtx"] = REDIS_OPS["HSetNXCtx"]
KV_OPS["HDelCtx"] = lambda r: [_k(r, "hash"), r.choice(MEMB)]


def _kv_eval(r):
    i, k, argv = _eval_args(r)
    return [i, k, argv]


KV_OPS["EvalCtx"] = _kv_eval
# SPopCtx / SRandMemberCtx exist on kv.Store but draw server-side randomness: not comparable shard vs single
WRITERS = ["SetCtx", "HSetCtx", "LPushCtx", "RPushCtx", "SAddCtx", "ZAddCtx", "ZAddFloatCtx", "ZAddsCtx", "PFAddCtx",
           "SetBitCtx", "IncrByCtx", "HMSetCtx", "SetExCtx"]


def _form(rng):
    x = rng.random()
    return "ctx" if x < 0.6 else ("plain" if x < 0.93 else ("canceled" if x < 0.97 else "deadline"))


def _history(rng, ops, nops, focus=None):
    out = []
    names = sorted(ops)
    for i in range(nops):
        x = rng.random()
        if i < nops // 4 or x < 0.25:
            m = rng.choice([w for w in WRITERS if w in ops])
        elif focus and x < 0.75:
            m = focus
        elif x < 0.29:
            out.append({"m": "#ff", "form": "ctx", "a": [rng.randint(1, 7)]})
            continue
        else:
            m = rng.choice(names)
        out.append({"m": m, "form": _form(rng), "a": ops[m](rng)})
    return out


def _weights(rng):
    n = rng.randint(1, 4)
    ws = [rng.choice([1, 10, 50, 100, 100, 200]) for _ in range(n)]
    if n > 1 and rng.random() < 0.15:
        ws[rng.randrange(n)] = 0
        if sum(ws) == 0:
            ws[0] = 100
    return ws


def _multi(rng):
    """several addresses in one process: wrappers 0..n-1 created in that order, commands on all of them, the servers
    of earlier-created wrappers restarted (pooled connections must be re-dialled), commands again"""
    n = rng.randint(2, 4)
    ops = []
    for phase in range(rng.randint(2, 4)):
        for _ in range(rng.randint(8, 14)):
            op = _history(rng, REDIS_OPS, 1)[0] if phase else {"m": rng.choice(WRITERS), "form": "ctx", "a": None}
            if op["a"] is None:
                op["a"] = REDIS_OPS[op["m"]](rng)
            op["w"] = rng.randrange(n)
            ops.append(op)
        victims = [0] if rng.random() < 0.5 else sorted(rng.sample(range(n), rng.randint(1, n)))
        for v in victims:
            ops.append({"m": "#restart", "w": v, "form": "ctx", "a": []})
    for i in range(n):      # every wrapper speaks once more after the last restart
        for m in ("IncrByCtx", "RPushCtx", "GetCtx"):
            ops.append({"m": m, "w": i, "form": "ctx", "a": REDIS_OPS[m](rng)})
    c = {"kind": "diff", "n": n, "seed": rng.randrange(1 << 16), "ops": ops}
    if rng.random() < 0.3:
        c["opts"] = _opts(rng, False, True, False)
    return c


def _dead(rng, kv):
    """every context-form method once with a context that is already cancelled / past its deadline, after a live
    set-up; the server must not be touched after the mark"""
    ops_tbl = KV_OPS if kv else REDIS_OPS
    ops = [{"m": m, "form": "ctx", "a": ops_tbl[m](rng)} for m in [rng.choice([w for w in WRITERS if w in ops_tbl]) for _ in range(16)]]
    if not kv:
        ops.append({"m": "#bopen", "slot": 0, "form": "ctx", "a": []})
    ops.append({"m": "#mark", "form": "ctx", "a": []})
    names = sorted(ops_tbl)
    rng.shuffle(names)
    for m in names:
        ops.append({"m": m, "form": "deadline" if rng.random() < (0.1 if kv else 0.5) else "canceled", "a": ops_tbl[m](rng)})
    if kv:
        return {"kind": "kv", "seed": rng.randrange(1 << 16), "weights": [100, 50, 100], "ops": ops, "dead": True}
    return {"kind": "diff", "n": 1, "seed": rng.randrange(1 << 16), "ops": ops, "dead": True}


def _sha(rng):
    """SetSha / GetSha histories over few script texts (texts registered repeatedly with different shas)"""
    texts = LUA[:3] + ["return 1", ""]
    ops = []
    for _ in range(rng.randint(10, 40)):
        t = rng.choice(texts)
        if rng.random() < 0.5:
            ops.append({"m": "set", "a": [t, hashlib.sha1((t + str(rng.randrange(3))).encode()).hexdigest()]})
        else:
            ops.append({"m": "get", "a": [t]})
    return {"kind": "sha", "ops": ops}


def _with_cached_eval(rng, case):
    for _ in range(rng.randint(1, 4)):
        i, k, argv = _eval_args(rng)
        case["ops"].insert(rng.randrange(len(case["ops"]) + 1), {"m": "#EvalCached", "form": "ctx", "a": [i, [k], argv]})
    return case


def _with_restarts(rng, case):
    for _ in range(rng.randint(1, 3)):
        case["ops"].insert(rng.randrange(5, len(case["ops"])), {"m": "#restart", "w": rng.randrange(len(case["weights"])), "form": "ctx", "a": []})
    return case


# ---- round 4: construction options, shard configurations, blocking nodes, per-command breaker runs ----
def _opts(rng, cluster=None, pw=None, tls=None):
    cluster = rng.random() < 0.5 if cluster is None else cluster
    pw = rng.random() < 0.6 if pw is None else pw
    tls = rng.random() < 0.3 if tls is None else tls
    p = rng.choice(["pw", "s3cret", "p w"]) if pw else ""
    return {"cluster": cluster, "pass": p, "tls": tls, "spass": p, "stls": tls, "via": "config" if rng.random() < 0.35 else ""}


def _misconfigured(rng):
    """client and server disagree (wrong / missing / unexpected password): the wrapper must fail like the raw client"""
    o = _opts(rng, tls=False)
    o["spass"], o["pass"] = rng.choice([("pw", "bad"), ("pw", ""), ("", "pw")])
    ops = [{"m": m, "form": rng.choice(["ctx", "plain"]), "a": REDIS_OPS[m](rng)} for m in
           [rng.choice(["SetCtx", "GetCtx", "IncrCtx", "HSetCtx", "PingCtx", "RPopCtx", "PipelinedCtx"]) for _ in range(6)]]
    return {"kind": "diff", "n": 1, "seed": rng.randrange(1 << 16), "opts": o, "ops": ops}


def _with_blocking(rng, case):
    """create blocking nodes -> BLPop family -> close one -> ordinary commands on the same address (same *Redis, a
    second *Redis of that address, the still-open node) -> ..."""
    ops = case["ops"]
    pos = min(len(ops), rng.randint(6, 12))
    blk = lambda slot: {"m": rng.choice(["BLPopCtx", "BLPopExCtx", "BLPopWithTimeoutCtx"]), "slot": slot, "form": rng.choice(["ctx", "plain"])}
    seq = []
    for l in POOL["list"]:
        seq.append({"m": "RPushCtx", "form": "ctx", "a": [l, [rng.choice(VALS) for _ in range(6)]]})
    seq += [{"m": "#bopen", "slot": 0, "form": "ctx", "a": []}, {"m": "#bopen", "slot": 1, "form": "ctx", "a": []}]
    for rnd in range(rng.randint(2, 3)):
        victim = rnd % 2
        for _ in range(rng.randint(1, 3)):
            b = blk(rng.randrange(2))
            b["a"] = REDIS_OPS[b["m"]](rng)
            b["a"][-1] = rng.choice(POOL["list"])
            seq.append(b)
        seq.append({"m": "#bclose", "slot": victim, "form": "ctx", "a": []})
        for _ in range(rng.randint(3, 6)):       # ordinary commands right after the close
            m = rng.choice(["GetCtx", "SetCtx", "IncrCtx", "LLenCtx", "RPushCtx", "HSetCtx", "PingCtx", "LRangeCtx"])
            seq.append({"m": m, "form": rng.choice(["ctx", "plain"]), "alt": rng.random() < 0.4, "a": REDIS_OPS[m](rng)})
        b = blk(1 - victim)                      # the other node is still open
        b["a"] = REDIS_OPS[b["m"]](rng)
        b["a"][-1] = rng.choice(POOL["list"])
        seq.append(b)
        seq.append({"m": "#bopen", "slot": victim, "form": "ctx", "a": []})
    case["ops"] = ops[:pos] + seq + ops[pos:]
    for op in case["ops"][pos + len(seq):]:
        if op["m"].startswith("BLPop"):
            op["slot"] = rng.randrange(2)
        elif not op["m"].startswith("#") and rng.random() < 0.15:
            op["alt"] = True
    return case


def _diff(rng, opts=None, nops=None, blocking=None):
    c = {"kind": "diff", "n": 1, "seed": rng.randrange(1 << 16), "ops": _history(rng, REDIS_OPS, nops or rng.randint(30, 60))}
    if opts is None and rng.random() < 0.45:
        opts = _opts(rng)
    if opts:
        c["opts"] = opts
    if rng.random() < 0.4:
        c = _with_cached_eval(rng, c)
    if blocking if blocking is not None else rng.random() < 0.35:
        c = _with_blocking(rng, c)
    return c


def _shards(rng, n, fixed=None):
    out = []
    for i in range(n):
        if fixed:
            cl, pw, tl = fixed[i % len(fixed)]
        else:
            cl, pw, tl = rng.random() < 0.5, rng.random() < 0.6, rng.random() < 0.25
        out.append({"cluster": cl, "pass": rng.choice(["pw", "s3cret"]) if pw else "", "tls": tl})
    return out


def _kv(rng, shards=None, weights=None, nops=None):
    c = {"kind": "kv", "seed": rng.randrange(1 << 16), "weights": weights or _weights(rng),
         "ops": _history(rng, KV_OPS, nops or rng.randint(30, 60))}
    if shards is None and rng.random() < 0.5:
        shards = _shards(rng, len(c["weights"]))
    if shards:
        c["shards"] = shards
    return _with_restarts(rng, c) if rng.random() < 0.4 else c


NIL_RUNS = [("HGetCtx", ["absent", "f"]), ("LPopCtx", ["absent"]), ("RPopCtx", ["absent"]), ("LIndexCtx", ["absent", 0]),
            ("SPopCtx", ["absent"]), ("ZScoreCtx", ["absent", "m"]), ("ZRankCtx", ["absent", "m"]), ("ZRevRankCtx", ["absent", "m"]),
            ("GetCtx", ["absent"]), ("GetSetCtx", ["absent2", "v"]), ("EvalCtx", [0, ["absent"], []]), ("EvalCtx", [4, ["absent"], ["f"]])]
UNGUARDED = ("BLPopCtx", "BLPopExCtx", "BLPopWithTimeoutCtx", "ScriptLoadCtx")


def _runs(rng):
    """per-command breaker acceptance: every redis.Nil-capable command 30 times in a row on an absent key, and EVERY
    guarded context-form method 30 times in a row with a cancelled context, each on a fresh handle with the real
    breaker, then a probe on that handle"""
    ops = [{"m": m, "form": "ctx", "a": a} for m, a in NIL_RUNS]
    ops += [{"m": m, "form": "canceled", "a": REDIS_OPS[m](rng)} for m in sorted(REDIS_OPS) if m not in UNGUARDED]
    return {"kind": "runs", "n": 30, "ops": ops}


# ---- round 5: count-valued replies with several hits; connection failures of particular shapes ----
def _counts(rng, kv):
    """commands whose reply is a COUNT (passed through, or turned into a bool): populated containers, then calls
    naming 0, 1, 2 or 3 existing members/keys at once (and updates vs additions for the sorted-set adds)"""
    tbl = KV_OPS if kv else REDIS_OPS
    ms = ["a", "b", "c", "d", "e", "f"]
    ops = []
    put = lambda m, a: ops.append({"m": m, "form": rng.choice(["ctx", "plain"]), "a": a}) if m in tbl else None
    hit = lambda k: rng.sample(ms, k) + rng.sample(["x1", "x2", "x3"], rng.randint(0, 2))   # k existing + some absent
    for rnd in range(2):
        h, t, z, p = rng.choice(POOL["hash"]), rng.choice(POOL["set"]), rng.choice(POOL["zset"]), rng.choice(POOL["hll"])
        put("HMSetCtx", [h, [[m, rng.choice(VALS)] for m in ms]])
        put("SAddCtx", [t, ms])
        put("ZAddsCtx", [z, [[m, i] for i, m in enumerate(ms)]])
        for k in POOL["str"]:
            put("SetCtx", [k, rng.choice(VALS)])
        put("PFAddCtx", [p, ms[:3]])
        put("RPushCtx", [rng.choice(POOL["list"]), [rng.choice(["a", "b"]) for _ in range(6)]])
        calls = []
        for k in (0, 1, 2, 3):
            if kv:
                calls.append(("HDelCtx", [h, (hit(k) or ["x1"])[0]]))
            else:
                calls.append(("HDelCtx", [h, hit(k) or ["x1"]]))
            calls.append(("SRemCtx", [t, hit(k) or ["x1"]]))
            calls.append(("ZRemCtx", [z, hit(k) or ["x1"]]))
            calls.append(("SAddCtx", [t, hit(k) or ["x1"]]))
            calls.append(("PFAddCtx", [p, hit(k) or ["a"]]))
            calls.append(("DelCtx", [rng.sample(POOL["str"], k) + rng.sample(["nokey", "nokey2"], rng.randint(0 if k else 1, 2))]))
            calls.append(("ZAddsCtx", [z, [[m, rng.choice(INTS)] for m in (hit(k) or ["x1"])]]))
            calls.append(("MGetCtx", [rng.sample(POOL["str"], k) + ["nokey"]]))
            calls.append(("HMGetCtx", [h, hit(k) or ["x1"]]))
        calls += [("ZAddCtx", [z, 7, rng.choice(ms)]), ("ZAddCtx", [z, 7, "fresh%d" % rnd]), ("ZAddFloatCtx", [z, 2.5, rng.choice(ms)]),
                  ("ZAddFloatCtx", [z, 2.5, "ffresh%d" % rnd]), ("ExistsCtx", [rng.choice(POOL["str"])]), ("ExistsCtx", ["nokey"]),
                  ("LRemCtx", [rng.choice(POOL["list"]), rng.choice([0, 2, -2]), "a"]), ("ZRemRangeByRankCtx", [z, 0, 1]),
                  ("ZRemRangeByScoreCtx", [z, 0, 2]), ("ZCountCtx", [z, 0, 100]), ("SCardCtx", [t]), ("HLenCtx", [h]), ("ZCardCtx", [z]),
                  ("SUnionStoreCtx", [rng.choice(DEST), POOL["set"][:2]]), ("SInterStoreCtx", [rng.choice(DEST), [t, t]]),
                  ("SDiffStoreCtx", [rng.choice(DEST), [t, "t9"]]), ("LPushCtx", [rng.choice(POOL["list"]), ["p", "q", "r"]]),
                  ("RPushCtx", [rng.choice(POOL["list"]), ["p", "q"]]), ("PFCountCtx", [p]), ("LLenCtx", [rng.choice(POOL["list"])]),
                  ("BitCountCtx", [rng.choice(POOL["str"]), 0, -1]), ("GetBitCtx", [rng.choice(POOL["str"]), 1])]
        rng.shuffle(calls)
        for m, a in calls:
            put(m, a)
    if kv:
        return {"kind": "kv", "seed": rng.randrange(1 << 16), "weights": [100, 50, 100], "ops": ops, "counts": True}
    return {"kind": "diff", "n": 1, "seed": rng.randrange(1 << 16), "ops": ops, "counts": True}


GUARDED = [m for m in sorted(REDIS_OPS) if m not in UNGUARDED and m != "PingCtx"]   # PingCtx swallows every error by design
FAIL_CYCLE = ["GetCtx", "SetCtx", "HSetCtx", "RPopCtx", "LPushCtx", "SAddCtx", "ZAddCtx", "IncrCtx", "EvalCtx", "PipelinedCtx",
              "MGetCtx", "DelCtx", "ExpireCtx", "HGetAllCtx", "ZRangeWithScoresCtx", "SetNXCtx"]


def _breaker(rng):
    """real breaker: absent keys, cancelled contexts, a dead server -- and peers that accept the connection, read the
    request and then hang up (bare io.EOF), reset, or never answer, over a cycle of command kinds"""
    return {"kind": "breaker", "n": 30, "ops": [{"m": m, "form": "ctx", "a": REDIS_OPS[m](rng)} for m in FAIL_CYCLE]}



def _connfail(rng, mode, sample=None, n=2):
    """every guarded command (or a sample) twice against a peer failing in `mode`; the breaker only records"""
    ms = GUARDED if sample is None else sorted(rng.sample(GUARDED, sample))
    ops = [{"m": m, "form": "ctx", "a": REDIS_OPS[m](rng)} for m in ms]
    for op in ops:
        if op["m"].endswith("AndLimitCtx"):
            op["a"][4] = max(1, op["a"][4])      # size <= 0 is answered without a round trip (documented guard)
    return {"kind": "connfail", "mode": mode, "n": n, "ops": ops}


def _fixed_round5(rng, tier, first=True):
    full = tier not in ("quick",) and first      # every guarded method, twice, in all three modes: once per run
    return [_shard_fault(rng, 2), _shard_fault(rng, 3), _shard_fault(rng),
            _counts(rng, False), _counts(rng, True), _connfail(rng, "eof", None, 2 if full else 1),
            _connfail(rng, "reset", None if full else 30), _connfail(rng, "hang", None if full else 12)]


# ---- round 6: multi-key delete on the sharded store while a shard is unreachable ----
def _shard_fault(rng, nshards=None):
    """>= 2 shards behind switchable proxies: populate, take one shard down, multi-key Dels naming 3-6 keys in random
    order (the unreachable keys come first / in the middle / last), other commands on reachable keys, shard up again,
    more deletes"""
    n = nshards or rng.randint(2, 4)
    keys = ["fk%d" % i for i in range(14)]
    ops = []
    fill = lambda: [ops.append({"m": "SetCtx", "form": "ctx", "a": [k, rng.choice(VALS)]}) for k in keys]
    fill()
    for rnd in range(rng.randint(2, 3)):
        victim = rng.randrange(n)
        ops.append({"m": "#down", "w": victim, "form": "ctx", "a": []})
        for _ in range(rng.randint(3, 5)):
            ks = rng.sample(keys, rng.randint(3, 6))
            if rng.random() < 0.3:
                ks.insert(rng.randrange(len(ks) + 1), "nokey")
            ops.append({"m": "DelCtx", "form": rng.choice(["ctx", "plain"]), "a": [ks]})
            for _ in range(rng.randint(0, 2)):
                m = rng.choice(["GetCtx", "SetCtx", "ExistsCtx", "IncrCtx"])
                ops.append({"m": m, "form": "ctx", "a": [rng.choice(keys)] + ([rng.choice(VALS)] if m == "SetCtx" else [])})
        ops.append({"m": "#up", "w": victim, "form": "ctx", "a": []})
        ops.append({"m": "DelCtx", "form": "ctx", "a": [rng.sample(keys, 4)]})
        fill()
    shards = [{"cluster": False, "pass": rng.choice(["", "pw"]), "tls": False} for _ in range(n)]
    return {"kind": "kv", "seed": rng.randrange(1 << 16), "weights": [rng.choice([50, 100, 100, 200]) for _ in range(n)],
            "shards": shards, "proxy": True, "fault": True, "ops": ops}


# ---- round 7: error replies with the Prometheus agent enabled (the go-redis hook then really records) ----
def _errors(rng, kv):
    """error-heavy history: typed keys, then commands on keys of the wrong type (WRONGTYPE), non-numeric increments,
    absent keys (redis.Nil), unknown shas, dead contexts -- in context and plain form -- and pipelines with a failing
    command in the middle"""
    tbl = KV_OPS if kv else REDIS_OPS
    ops = [{"m": "SetCtx", "form": "ctx", "a": ["s0", "abc"]}, {"m": "HSetCtx", "form": "ctx", "a": ["h0", "a", "1"]},
           {"m": "RPushCtx", "form": "ctx", "a": ["l0", ["x", "y"]]}, {"m": "SAddCtx", "form": "ctx", "a": ["t0", ["a", "b"]]},
           {"m": "ZAddCtx", "form": "ctx", "a": ["z0", 1, "a"]}]
    wrong = [("HGetCtx", ["s0", "a"]), ("HSetCtx", ["s0", "a", "1"]), ("LPushCtx", ["s0", ["v"]]), ("RPopCtx", ["h0"]), ("LPopCtx", ["t0"]),
             ("SAddCtx", ["l0", ["m"]]), ("ZAddCtx", ["l0", 1, "m"]), ("ZScoreCtx", ["t0", "a"]), ("IncrCtx", ["s0"]), ("IncrByCtx", ["s0", 2]),
             ("GetCtx", ["h0"]), ("HIncrByCtx", ["h0", "a2", 1]), ("SMembersCtx", ["z0"]), ("ZRangeWithScoresCtx", ["s0", 0, -1]),
             ("HGetAllCtx", ["l0"]), ("LRangeCtx", ["s0", 0, -1]), ("SetBitCtx", ["s0", 1, 5]), ("ExpireCtx", ["nokey", 5]),
             ("HGetCtx", ["h0", "absent"]), ("LIndexCtx", ["l0", 9]), ("ZRankCtx", ["z0", "absent"]), ("GetCtx", ["nokey"])]
    if not kv:
        wrong += [("EvalShaCtx", ["0" * 40, ["s0"], []]), ("EvalCtx", [2, ["s0"], ["1"]]), ("MGetCtx", [["s0", "nokey"]]),
                  ("PFCountCtx", ["s0"]), ("BitCountCtx", ["h0", 0, -1])]
    rng.shuffle(wrong)
    for m, a in wrong:
        if m in tbl:
            ops.append({"m": m, "form": rng.choice(["ctx", "plain", "ctx", "canceled"]), "a": a})
        if not kv and rng.random() < 0.35:
            ops.append({"m": "PipelinedCtx", "form": rng.choice(["ctx", "plain"]),
                        "a": [[["set", "p0", "1"], ["incr", "s0"], ["hset", "s0", "f", "v"], ["get", "p0"], ["lpush", "h0", "x"]][:rng.randint(2, 5)]]})
    c = {"kind": "kv", "seed": 7, "weights": [100, 100], "ops": ops} if kv else {"kind": "diff", "n": 1, "seed": 7, "ops": ops}
    c["metrics"] = True
    return c


def _fixed_round7(rng):
    out = [_errors(rng, False), _errors(rng, False), _errors(rng, True), dict(_connfail(rng, "eof", 10, 1), metrics=True)]
    o = _errors(rng, False)
    o["opts"] = _opts(rng, True, True, False)      # cluster client + password: the same hook on the cluster client
    return out + [o]


# ---- round 8: arguments that matter on the EMPTY path only; no-op writes must leave the TTL alone ----
def _blocking_empty(rng, tier):
    """BLPopWithTimeout(Ctx) on an absent / emptied list: blocks for the CALLER's timeout (1 s, go-redis' minimum, not the
    5 s package default) and ends in redis.Nil; wall time compared with raw BLPop(timeout) in 2 s buckets"""
    ops = [{"m": "#bopen", "slot": 0, "form": "ctx", "a": []},
           {"m": "BLPopWithTimeoutCtx", "slot": 0, "form": "ctx", "block": True, "a": [10 ** 9, "nolist"]},
           {"m": "RPushCtx", "form": "ctx", "a": ["l0", ["a"]]},
           {"m": "BLPopWithTimeoutCtx", "slot": 0, "form": "plain", "block": True, "a": [10 ** 9, "l0"]},    # pops "a" at once
           {"m": "BLPopWithTimeoutCtx", "slot": 0, "form": "plain", "block": True, "a": [10 ** 9, "l0"]}]    # now empty
    if tier not in ("quick", "search"):
        ops.append({"m": rng.choice(["BLPopCtx", "BLPopExCtx"]), "slot": 0, "form": "ctx", "block": True, "a": ["nolist"]})   # 5 s default
    return {"kind": "diff", "n": 1, "seed": rng.randrange(1 << 16), "ops": ops, "blocking_empty": True}


def _ttl(rng, kv):
    """writes that must be no-ops on an existing key (SetNX / SetNXEx on a persistent key or one with another TTL) and
    writes that (re)set or drop the TTL; value and TTL of the key are compared on the servers after every such step"""
    ops = []
    put = lambda m, a: ops.append({"m": m, "form": rng.choice(["ctx", "plain"]), "a": a})
    for k in ("s0", "s1", "s2", "n0"):
        first = rng.choice(["SetCtx", "SetExCtx", "none"])
        if first == "SetCtx":
            put("SetCtx", [k, "v0"])
        elif first == "SetExCtx":
            put("SetExCtx", [k, "v0", rng.choice([50, 100])])
        for _ in range(rng.randint(4, 7)):
            m = rng.choice(["SetNXExCtx", "SetNXExCtx", "SetNXCtx", "SetExCtx", "ExpireCtx", "PersistCtx", "TTLCtx", "GetCtx", "#ff", "DelCtx"])
            if m == "#ff":
                ops.append({"m": "#ff", "form": "ctx", "a": [rng.randint(1, 4)]})
            elif m == "SetNXExCtx":
                put(m, [k, "v%d" % rng.randrange(9), rng.choice([5, 7, 300])])
            elif m == "SetNXCtx":
                put(m, [k, "v%d" % rng.randrange(9)])
            elif m == "SetExCtx":
                put(m, [k, "v%d" % rng.randrange(9), rng.choice([5, 20, 100])])
            elif m == "ExpireCtx":
                put(m, [k, rng.choice([3, 60])])
            elif m == "DelCtx":
                put(m, [[k]])
            else:
                put(m, [k])
    if kv:
        return {"kind": "kv", "seed": rng.randrange(1 << 16), "weights": [100, 100, 50], "ops": ops, "ttl": True}
    return {"kind": "diff", "n": 1, "seed": rng.randrange(1 << 16), "ops": ops, "ttl": True}


def _fixed_round8(rng, tier):
    return [_blocking_empty(rng, tier), _ttl(rng, False), _ttl(rng, True), _ttl(rng, True)]


def _fixed_round4(rng):
    """pass x {node, cluster} (and a TLS combination) are in every run, for the wrapper and for the sharded store"""
    out = [_diff(rng, _opts(rng, False, True, False), 30, blocking=True), _diff(rng, _opts(rng, True, True, False), 30, blocking=True),
           _diff(rng, _opts(rng, False, False, True), 25, blocking=True), _diff(rng, _opts(rng, True, True, True), 25, blocking=True),
           _misconfigured(rng),
           _kv(rng, _shards(rng, 2, [(False, True, False), (True, True, False)]), [100, 100], 40),
           _kv(rng, _shards(rng, 3, [(True, True, True), (False, True, False), (True, False, True)]), [100, 50, 100], 40),
           _runs(rng)]
    return out


def generate(rng, tier, n):
    cases = []
    nb = 1 if tier in ("quick", "search") else max(2, n // 200)
    fixed = []
    for k in range(nb):
        fixed += [_breaker(rng), _dead(rng, False), _dead(rng, True)] + [_sha(rng) for _ in range(4)] + _fixed_round4(rng) + _fixed_round5(rng, tier, k == 0) + (_fixed_round7(rng) + _fixed_round8(rng, tier) if k == 0 else [_ttl(rng, False), _ttl(rng, True)])
    cases.extend(fixed[:n])
    while len(cases) < n:
        x = rng.random()
        if x < 0.40:
            cases.append(_diff(rng))
        elif x < 0.43:
            cases.append(_misconfigured(rng))
        elif x < 0.58:
            cases.append(_multi(rng))
        else:
            cases.append(_kv(rng))
    return cases


def search(rng, problems):
    """Directed: one short history per method, dense in that method (the failing-input search after a table change),
    plus the dead-context, several-address, restart and script-cache streams."""
    cases = []
    for m in sorted(REDIS_OPS):
        cases.append({"kind": "diff", "n": 1, "seed": rng.randrange(1 << 16), "ops": _history(rng, REDIS_OPS, 22, focus=m)})
    for m in sorted(KV_OPS):
        cases.append({"kind": "kv", "seed": rng.randrange(1 << 16), "weights": [100, 50, 100],
                      "ops": _history(rng, KV_OPS, 22, focus=m)})
    cases.append(_breaker(rng))
    cases += _fixed_round5(rng, "search")
    cases += _fixed_round7(rng)
    cases += _fixed_round8(rng, "search")
    cases += [_dead(rng, False), _dead(rng, True), _sha(rng), _sha(rng)]
    cases += [_multi(rng) for _ in range(6)]
    cases += [_with_restarts(rng, {"kind": "kv", "seed": rng.randrange(1 << 16), "weights": [100, 100, 50],
                                   "ops": _history(rng, KV_OPS, 30)}) for _ in range(4)]
    cases += _fixed_round4(rng)
    for cl in (False, True):
        for pw in (False, True):
            for tl in (False, True):
                cases.append(_diff(rng, _opts(rng, cl, pw, tl), 25, blocking=True))
                cases.append(_kv(rng, _shards(rng, 2, [(cl, pw, tl), (not cl, True, False)]), [100, 100], 30))
    return cases




def _env_suspect(case, obs):
    """a connection-level error that hit the wrapper but not the raw twin (or a driver-level error): possibly the
    environment (descriptors, ports, a listener that was not up yet) -- to be re-run once in a fresh process"""
    if obs is None or "error" in obs or "driver_panic" in obs:
        return True
    if case["kind"] == "runs":
        return any(e == "Other:conn" for run in obs.get("runs", []) for e, _ in run)
    if case["kind"] in ("breaker", "sha"):
        return False
    return any("skip" not in st and st["w"]["e"] == "Other:conn" and st["r"]["e"] != "Other:conn" for st in obs.get("steps", []))


def _run_chunks(jobs, tag):
    """jobs: list of (pkg, [case indices]); runs every job in its own driver process, PARALLEL at a time.
    Returns {index: obs} or (None, log)."""
    import concurrent.futures as cf

    def one(job):
        k, (pkg, idx, cs_) = job
        # cases flagged "metrics" run in a driver process of their own, with the Prometheus agent enabled
        env = {"VERIF_C12_METRICS": "1"} if cs_ and cs_[0].get("metrics") else None
        o, lg = vlib.run_driver(pkg, cs_, name="C12_%s_%s_%d" % (pkg.split("/")[-1], tag, k), timeout=DRIVER_TIMEOUT, env=env)
        return pkg, idx, o, lg

    out, logs = {}, []
    with cf.ThreadPoolExecutor(max_workers=PARALLEL) as ex:
        for pkg, idx, o, lg in ex.map(one, list(enumerate(jobs))):
            logs.append(lg[-2000:])
            if o is None:
                return None, "\n".join(logs)
            for i, x in zip(idx, o):
                out[i] = x
    return out, "\n".join(logs)


def drive(cases, tier):
    """redis cases -> lib/store/redis driver, kv cases -> lib/store/kv driver, in chunks of CHUNK cases per driver
    process (PARALLEL processes at a time); results merged in order.  A case whose wrapper met a connection-level error
    that its raw twin did not meet is re-run ONCE in a fresh process and the second observation is the one that counts:
    a regression reproduces (and is reported as usual), an environment hiccup does not."""
    groups = {GO_PKG: [], KV_PKG: []}
    mgroups = {GO_PKG: [], KV_PKG: []}
    for i, c in enumerate(cases):
        (mgroups if c.get("metrics") else groups)[KV_PKG if c["kind"] == "kv" else GO_PKG].append(i)
    jobs = []
    for pkg, idx in mgroups.items():
        if idx:
            jobs.append((pkg, idx, [cases[i] for i in idx]))
    for pkg, idx in groups.items():
        # at least two processes per package (the fixed heavy cases come first: deal the cases out round-robin)
        nproc = max(-(-len(idx) // CHUNK), 2 if len(idx) >= 8 else 1)
        for k in range(nproc):
            part = idx[k::nproc]
            if part:
                jobs.append((pkg, part, [cases[i] for i in part]))
    jobs.sort(key=lambda j: -len(j[1]))
    res, log = _run_chunks(jobs, tier)
    if res is None:
        return None, log
    obs = [res[i] for i in range(len(cases))]
    suspects = [i for i in range(len(cases)) if _env_suspect(cases[i], obs[i])]
    if suspects:
        todo = suspects[:RETRY_MAX]
        rjobs = []
        for pkg in (GO_PKG, KV_PKG):
            for met in (False, True):
                part = [i for i in todo if (cases[i]["kind"] == "kv") == (pkg == KV_PKG) and bool(cases[i].get("metrics")) == met]
                for k in range(0, len(part), 20):
                    rjobs.append((pkg, part[k:k + 20], [cases[i] for i in part[k:k + 20]]))
        res2, log2 = _run_chunks(rjobs, tier + "_retry")
        log += "\n" + log2
        if res2 is not None:
            again = 0
            for i, x in res2.items():
                obs[i] = x
                again += 1 if _env_suspect(cases[i], x) else 0
            vlib.log("C12 drive: %d case(s) with a wrapper-only connection error, %d re-run in a fresh process: %d clean, %d reproduced"
                     % (len(suspects), len(todo), len(todo) - again, again))
    return obs, log


# ------------------------------------------------------------------------------------- encoding
def cs(s):
    s = "".join(ch if 32 <= ord(ch) < 127 else "?" for ch in s)
    return '"' + s.replace('"', '""') + '"%string'


def enc_val(j):
    if "zero" in j:
        return "VZero"
    if "nil" in j:
        return "VNilI"
    if "z" in j:
        return "(VZ %s)" % cZ(j["z"])
    if "b" in j:
        return "(VB %s)" % cbool(j["b"])
    if "s" in j:
        return "(VS %s)" % cs(j["s"])
    if "q" in j:
        f = Fraction(j["q"])
        return "(VQ %s %d%%positive)" % (cZ(f.numerator), f.denominator)
    if "d" in j:
        return "(VDur %s)" % cZ(j["d"])
    if "l" in j:
        return "(VL %s)" % clist([enc_val(x) for x in j["l"]])
    if "r" in j:
        return "(VRec %s %s)" % (cs(j["r"]), clist([cpair(cs(f[0]), enc_val(f[1])) for f in j["f"]]))
    raise ValueError("enc_val: %r" % (j,))


def enc_err(e):
    return {"nil": "ENone", "Nil": "ENil", "Canceled": "ECanceled", "Unavailable": "EUnavailable"}.get(e) or \
        "(EOther %s)" % cs(e.split(":", 1)[1] if ":" in e else e)


def enc_arg(a):
    if isinstance(a, bool):
        return "(VB %s)" % cbool(a)
    if isinstance(a, int):
        return "(VZ %s)" % cZ(a)
    if isinstance(a, float):
        f = Fraction(repr(a))
        return "(VQ %s %d%%positive)" % (cZ(f.numerator), f.denominator)
    if isinstance(a, str):
        return "(VS %s)" % cs(a)
    return "(VL %s)" % clist([enc_arg(x) for x in a])


TOLD = {"n/a": 0, "none": 1, "ok": 2, "fail": 3, "rejected": 4, "other": 5}


def enc_reply(r):
    return cpair(enc_val(r["v"]), enc_err(r["e"]))


TAIL0 = "false [] [] []"


def encode(case, obs):
    if "error" in obs or "driver_panic" in obs:
        # a driver failure is a mismatch, not a crash of the pipeline
        return ("mkcase 0%nat [mkstep \"driver error\"%string false [] (VZero, ENone) (VZero, ENone) 0%nat \"\"%string "
                "\"\"%string] [] [] [] " + TAIL0)
    if case["kind"] == "breaker":
        ph = [clist([cpair(enc_err(e), cnat(TOLD[t])) for e, t in obs[k]]) for k in ("nil", "canceled", "dead")]
        ph += [clist([cpair(enc_err(x[0]), cnat(TOLD[x[1]])) for x in obs["fails"][k]]) for k in ("eof", "reset", "hang") if k in obs.get("fails", {})]
        return "mkcase 2%%nat [] [] [] %s %s" % (clist(ph), TAIL0)
    if case["kind"] == "connfail":
        runs = [clist([cpair(enc_err(e), cnat(TOLD[t])) for e, t in run]) for run in obs["runs"]]
        return "mkcase 5%%nat [] [] [] %s %s" % (clist(runs), TAIL0)
    if case["kind"] == "runs":
        runs = [clist([cpair(enc_err(e), cnat(TOLD[t])) for e, t in run]) for run in obs["runs"]]
        return "mkcase 4%%nat [] [] [] %s %s" % (clist(runs), TAIL0)
    if case["kind"] == "sha":
        ops = []
        for op, o in zip(case["ops"], obs["sha"]):
            if op["m"] == "set":
                ops.append("SSet %s %s" % (cs(op["a"][0]), cs(op["a"][1])))
            else:
                ops.append("SGet %s %s" % (cs(op["a"][0]), "None" if o is False else "(Some %s)" % cs(o)))
        return "mkcase 3%%nat [] [] [] [] false [] [] %s" % clist(ops)
    steps = []
    for op, st in zip(case["ops"], obs["steps"]):
        if "skip" in st:
            unknown = st["skip"].startswith("unknown")
            # an unknown method is executed nowhere: keep it visible as a non-skipped step that no table resolves
            steps.append("mkstep %s %s [] (VZero, ENone) (VZero, ENone) 0%%nat \"\"%%string \"\"%%string" % (
                cs(op["m"] if not unknown else "?" + op["m"]), cbool(not unknown)))
            continue
        m = "EvalCtx" if op["m"] == "#EvalCached" else op["m"]   # EvalSha(GetSha(script)) is documented to be Eval(script)
        steps.append("mkstep %s false %s %s %s %s %s %s" % (
            cs(m), clist([enc_arg(a) for a in op["a"]]), enc_reply(st["r"]), enc_reply(st["w"]),
            cnat(TOLD[st["brk"]]), cs(st["xw"]), cs(st["xr"])))
    dump = lambda d: clist([cpair(cs(k), cs(v)) for k, v in d])
    places = clist([cpair(cs(k), cnat(i)) for k, i in obs.get("places", [])])
    return "mkcase %s %s %s %s [] %s %s %s []" % (
        cnat(1 if case["kind"] == "kv" else 0), clist(steps), dump(obs["dump_w"]), dump(obs["dump_r"]),
        cbool("dump_w0" in obs), dump(obs.get("dump_w0", [])), places)


# ------------------------------------------------------------------------------------- evidence
def _executed(obs):
    return [s for s in obs.get("steps", []) if "skip" not in s]


def nontrivial(case, obs):
    if case["kind"] == "breaker":
        return any(e == "Unavailable" for e, _ in obs.get("dead", [])) and all(
            any(x[0] == "Unavailable" for x in ph) for ph in obs.get("fails", {"-": [["Unavailable"]]}).values())
    if case["kind"] == "connfail":
        return all(e.startswith("Other:") for run in obs.get("runs", []) for e, _ in run)
    if case["kind"] == "runs":
        return any(e == "Nil" for run in obs.get("runs", []) for e, _ in run) and any(e == "Canceled" for run in obs.get("runs", []) for e, _ in run)
    if case["kind"] == "sha":
        got = [o for op, o in zip(case["ops"], obs.get("sha", [])) if op["m"] == "get"]
        return any(o is False for o in got) and len({o for o in got if o}) >= 2
    ex = _executed(obs)
    conv = any(s["w"]["v"] != s["r"]["v"] and s["w"]["e"] == "nil" for s in ex)
    errs = any(s["r"]["e"] != "nil" for s in ex)
    return len(ex) >= 10 and conv and errs


def bucket(case, obs):
    out = ["kind:" + case["kind"]]
    if case["kind"] == "breaker":
        out.append("breaker:rejected=%d" % sum(1 for e, _ in obs.get("dead", []) if e == "Unavailable"))
        for k, ph in obs.get("fails", {}).items():
            out.append("breaker:%s:rejected=%d" % (k, sum(1 for x in ph if x[0] == "Unavailable")))
            out += ["breaker:%s:%s" % (k, x[2]) for x in ph if x[0] != "Unavailable"]
        return out
    if case["kind"] == "connfail":
        return out + ["connfail:%s:%s" % (case["mode"], op["m"]) for op in case["ops"]]
    if case["kind"] == "sha":
        return out + ["sha:" + op["m"] for op in case["ops"]]
    if case["kind"] == "runs":
        return out + ["run:%s:%s" % (op["form"], op["m"]) for op in case["ops"]]
    o = case.get("opts")
    if o:
        out.append("opts:%s%s%s%s%s" % ("cluster" if o["cluster"] else "node", "+pass" if o["pass"] else "", "+tls" if o["tls"] else "",
                                        ":via-config" if o.get("via") else "", "" if (o["pass"], o["tls"]) == (o["spass"], o["stls"]) else ":MISCONFIGURED"))
    for sh in case.get("shards", []):
        out.append("shard:%s%s%s" % ("cluster" if sh["cluster"] else "node", "+pass" if sh["pass"] else "", "+tls" if sh["tls"] else ""))
    if any(op.get("alt") for op in case.get("ops", [])):
        out.append("second-handle-same-address")
    if case.get("dead"):
        out.append("stream:dead-context")
    if case.get("n", 1) > 1:
        out.append("addresses=%d" % case["n"])
    if case["kind"] == "kv":
        out.append("shards=%d" % len(case["weights"]))
        if len({i for _, i in obs.get("places", [])}) > 1:
            out.append("kvstate:keys-on-several-shards")
    if case.get("fault"):
        out.append("stream:shard-fault")
    if case.get("metrics"):
        out.append("stream:metrics-enabled")
    if case.get("ttl"):
        out.append("stream:ttl-noop-writes")
    if case.get("blocking_empty"):
        out += ["blocking-empty:" + st["xw"] for st in obs.get("steps", []) if st.get("xw", "").startswith("blocked~")]
    for op, st in zip(case["ops"], obs.get("steps", [])):
        if st.get("downpos"):
            dp, nk = st["downpos"], st["nkeys"]
            out.append("faultdel:unreachable-" + ("first" if dp[0] == 0 else "last" if dp[0] == nk - 1 else "middle") +
                       (":then-reachable" if dp[0] < nk - 1 and any(p not in dp for p in range(dp[0] + 1, nk)) else ""))
            out.append("faultdel:count=%s" % st["r"]["v"].get("z"))
        if "skip" in st:
            out.append("skip:" + st["skip"].split(" ")[0] + (":kv" if case["kind"] == "kv" and st["skip"] == "restart" else ""))
            continue
        out.append(("kv:" if case["kind"] == "kv" else "m:") + op["m"])
        out.append("form:" + op["form"])
        out.append("raw-err:" + st["r"]["e"].split(":")[0])
        if isinstance(st["r"]["v"], dict) and st["r"]["v"].get("z", 0) >= 2 and st["w"]["v"].get("b") is True:
            out.append("count>=2->true:" + op["m"])
        elif isinstance(st["r"]["v"], dict) and st["r"]["v"].get("z", 0) >= 2:
            out.append("count>=2:" + op["m"])
        if case["kind"] == "diff":
            out.append("brk:" + st["brk"])
    return out


def explain(case, obs):
    if case["kind"] == "runs":
        return ("per-command breaker runs contradict C12.Exec.spec_ok: on a fresh handle some command answered 30 times in a "
                "row with redis.Nil / context.Canceled was reported to the breaker as a failure, or calls were rejected "
                "(ErrServiceUnavailable), or the handle was unusable afterwards")
    if case["kind"] == "sha":
        return ("script cache stream contradicts C12.Exec.spec_ok: some GetSha(script) did not answer the most recent sha "
                "registered by SetSha for exactly that text (or answered for a text never registered)")
    if case["kind"] == "breaker":
        return ("breaker phases contradict C12.Exec.spec_ok: a redis.Nil / context.Canceled call was rejected or counted as a "
                "failure, or connection-level failures (refused; accepted then bare io.EOF / reset / no answer) were not counted "
                "/ never led to ErrServiceUnavailable")
    if case["kind"] == "connfail":
        return ("per-command connection-failure runs contradict C12.Exec.spec_ok: against a peer that accepts the connection and "
                "then hangs up / resets / never answers (mode %s) some command did not end in a connection-level error reported "
                "to the breaker as a failure" % case.get("mode"))
    for op, st in zip(case["ops"], obs.get("steps", [])):
        if "skip" in st:
            continue
    return ("differential history contradicts C12.Exec.spec_ok: some wrapper reply is not the documented conversion "
            "(RedisSpec.redis_spec / kv_spec) of the raw go-redis reply on the twin server, or the breaker was told something "
            "else than acceptable(err), or the final keyspaces differ (kv: union of the shards vs one server; several addresses: each wrapper's server vs its "
            "twin), or a call with a dead context touched the server, or a key was found on a shard other than its owner's")


def shrink(v):
    """Keep the history up to (and including) the first step whose wrapper and raw replies look unrelated;
    best effort, never grows the case."""
    return v
