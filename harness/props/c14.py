"""C14 P2C balancer: pick / completion / advance histories on the virtual clock.

A case is {"n": ready connections, "start": clock ns, "ops": [...]} with ops
  {"op":"pick","draws":[a,b,a,b,a,b]}   values returned by the successive p.r.Intn calls (a < n, b < n-1)
  {"op":"done","k":j,"code":c,"flags":f} call the done func of the j-th successful pick with DoneInfo{Err, BytesSent (f&1),
                                        BytesReceived (f&2), Trailer (f&4), ServerLoad (f&8)}; c = -1 nil error,
                                        -2 plain error, else grpc status code; optional "codes":[..] gives the
                                        code per connection position (the driver reports the one it used)
  {"op":"adv","dt":ns}
Client-wiring cases ({"kind":"client","backends":2|3,"calls":300,"opts":[{"o":"dial","tag":t}|{"o":"nonblock"}|
{"o":"timeout","ms":m}|{"o":"creds"}|{"o":"unary"}|{"o":"stream"}]}) go to the second driver (rpc/internal):
NewClient with these ClientOptions against in-process backends; see drive().
The p2c driver reports, after every step, every counter of every subConn, the chosen connection, the number of
random values consumed and, for completions, td and the bits of w = math.Exp(float64(-td)/float64(decayTime)).
"""
import math
import struct

from vlib import cZ, cnat, cbool, clist, cpair

ID = "C14"
GO_PKG = "./rpc/internal/balancer/p2c"
_P = "rpc/internal/balancer/p2c/p2c.go"
_C = "rpc/internal/client.go"
GEN_SPEC = {"items": [
    {"kind": "const", "file": _P, "name": "initSuccess"},
    {"kind": "const", "file": _P, "name": "throttleSuccess"},
    {"kind": "const", "file": _P, "name": "pickTimes"},
    {"kind": "const", "file": _P, "name": "forcePick"},
    {"kind": "const", "file": _P, "name": "logInterval"},
    {"kind": "const", "file": _P, "name": "decayTime"},
    {"kind": "cases", "file": "rpc/internal/codes/accept.go", "func": "Acceptable", "as": "acceptable_cases"},
    {"kind": "calls", "file": _P, "func": "p2cPicker.Pick", "as": "pick_calls"},
    {"kind": "calls", "file": _P, "func": "p2cPicker.choose", "as": "choose_calls"},
    {"kind": "calls", "file": _P, "func": "p2cPicker.buildDoneFunc", "as": "done_calls"},
    {"kind": "calls", "file": _P, "func": "ewma", "as": "ewma_calls"},
    {"kind": "calls", "file": _P, "func": "subConn.healthy", "as": "healthy_calls"},
    {"kind": "calls", "file": _P, "func": "subConn.load", "as": "load_calls"},
    {"kind": "calls", "file": _P, "func": "p2cPickerBuilder.Build", "as": "build_picker_calls"},
    {"kind": "calls", "file": _P, "func": "newBuilder", "as": "newbuilder_calls"},
    # client wiring (rpc/internal/client.go)
    {"kind": "const", "file": _P, "name": "Name"},
    {"kind": "calls", "file": _C, "func": "NewClient", "as": "newclient_calls"},
    {"kind": "calls", "file": _C, "func": "client.buildDialOptions", "as": "build_calls"},
    {"kind": "calls", "file": _C, "func": "WithDialOption", "as": "with_dialoption_calls"},
    {"kind": "calls", "file": _C, "func": "WithNonBlock", "as": "with_nonblock_calls"},
    {"kind": "calls", "file": _C, "func": "WithTimeout", "as": "with_timeout_calls"},
    {"kind": "calls", "file": _C, "func": "WithTransportCredentials", "as": "with_creds_calls"},
    {"kind": "calls", "file": _C, "func": "WithUnaryClientInterceptor", "as": "with_unary_calls"},
    {"kind": "calls", "file": _C, "func": "WithStreamClientInterceptor", "as": "with_stream_calls"},
    {"kind": "calls", "file": _C, "func": "WithUnaryClientInterceptors", "as": "unary_chain_calls"},
    {"kind": "calls", "file": _C, "func": "WithStreamClientInterceptors", "as": "stream_chain_calls"},
]}
QUICK_N = 300
THOROUGH_N = 4000
SHARD = 30
DRIVER_TIMEOUT = 900
RULE = ("histories of 8-60 pick/done/advance steps over n in {0,1,2,3,4,5,8} ready connections on the virtual clock "
        "(clock starting at 1 h, or at 1 ns..10 s in a quarter of the random cases; advances from 0 ns to 8000 s: same-instant, ns, ms, around the 1 s force-pick bound, around the 6.93 s "
        "half-life, the 60 s log interval, w denormal/0), scripted Intn draws, grpc codes -1/-2/0..16 with "
        "per-connection failure profiles, every combination of the DoneInfo flags BytesSent/BytesReceived/Trailer/ServerLoad x "
        "acceptable/unacceptable status, every status message variant (verif, context deadline exceeded via "
        "status.FromContextError, deadline, empty, context canceled, transport is closing, long unicode) with every code, "
        "an answering-with-errors family, a hung-backend family (all calls end in DeadlineExceeded), a few double-called done funcs; ReadySCs maps in which several SubConns share one "
        "Address.Addr (exact duplicates, or differing in ServerName / Attributes) for N = 2..8 in about half of the cases, "
        "incl. a sweep family that hands every position to choose; directed families: score exactly at the "
        "500 threshold with >= 3 conns, 2-conn force-pick boundary (1 s +- 1 ns), 500+ consecutive failing "
        "completions 1-3 ns apart (slowest possible decay), float-rounding regressions (corpus); non-trivial = "
        ">= 2 successful picks and >= 1 completion; distinct = distinct canonical case JSON; multi-picker cases: 2-4 Builds with equal / smaller / "
        "overlapping / disjoint / empty ready sets on the registered picker builder, picks, completions and advances "
        "interleaved over all live pickers, every live picker dumped after every step; plus client-wiring cases: "
        "NewClient with every single exported ClientOption, every option before/after WithTransportCredentials and random "
        "sequences (0-8 options, repeats, full permutations) against 2-3 in-process grpc backends behind direct:///a,b[,c] or behind a "
        "comma-less target of a manual resolver (Timeout set or not, blocking or not), "
        "300 calls each")
TRUSTED = ["math.Exp: w is taken from the driver (same Go expression, in-package) and only checked against "
           "0 <= w <= 1, td > 0 -> w < 1, td = 0 -> w = 1 on every value used",
           "Coq primitive binary64 floats (PrimFloat under vm_compute) perform the same IEEE-754 mul/add/sub/sqrt and "
           "uint64->float64 conversion as Go on amd64 (GOAMD64=v1: no FMA fusion)",
           "grpc status code numbering (codes.DeadlineExceeded=4, Unimplemented=12, Internal=13, Unavailable=14, DataLoss=15)",
           "penalty = int64(math.MaxInt32) is not translatable by gogen (math.MaxInt32); the model's constant is "
           "checked by correspondence only (double-done cases reach inflight = -1)"]
TRUSTED += ["client cases: grpc v1.50.1 internals read by reflection from the ClientConn NewClient returns "
            "(dopts.defaultServiceConfigRawJSON, balancerWrapper.curBalancerName); dial options are opaque, so the "
            "assembled list is labelled by identity (balancer option, user options) and '?' for the rest",
            "client cases run on the wall clock with real loopback TCP servers and grpc's own rand: 300 calls, extended "
            "to at most 6000 calls / 3 s while some backend is still unserved"]
ASSUMPTIONS = ["each Pick and each done func is atomic in the executable model (the driver is single-threaded); "
               "the interleaved reading of the done func is covered by theorems c14_conc_* only",
               ">= 3 connections: 'chosen markedly less often' / 'picked about once per second' are probabilistic in "
               "the random pair draws; they are checked as a statistical test (thorough tier) and not proved",
               "the all-fail bound needs w < 1 for every failing completion (td > 0); a completion with td = 0 has w = 1 "
               "and leaves the score unchanged"]

START = 3600 * 10 ** 9
FAIL_CODES = [4, 12, 13, 14, 15]
OK_CODES = [-1, -1, -1, 0, 1, 2, 3, 5, 6, 7, 8, 9, 10, 11, 16, 16, 17, 17, 100, 100, 1000, -2]   # incl. codes above the named range
S = 10 ** 9
MS = 10 ** 6


def _draws(rng, n):
    if n < 3:
        return []
    out = []
    for _ in range(3):
        out += [rng.randrange(n), rng.randrange(n - 1)]
    return out


def _dt(rng):
    r = rng.random()
    if r < 0.12:
        return 0
    if r < 0.2:
        return rng.randint(1, 50)
    if r < 0.5:
        return rng.randint(1, 80) * MS + rng.randint(0, 999)
    if r < 0.68:
        return rng.choice([S - 1, S, S + 1, 2 * S // 5, 3 * S // 5, 3 * S // 2, 99 * S // 100]) + rng.choice([0, 0, 1, 7])
    if r < 0.8:
        return rng.randint(2 * S, 25 * S)
    if r < 0.86:
        return rng.randint(6911500000, 6931400000)      # floor(1000*w) = 500
    if r < 0.92:
        return rng.choice([60 * S, 61 * S, 59 * S])
    if r < 0.97:
        return rng.randint(100 * S, 400 * S)
    return rng.choice([7000 * S, 7300 * S, 8000 * S])


def _addr_layout(rng, n, force_shared=False):
    """Addresses of the n ready SubConns: distinct, or several SubConns on one Addr (differing in ServerName and/or
    Attributes, or exact duplicates). Returns the case fields."""
    if n < 2 or (not force_shared and rng.random() < 0.45):
        return {}
    r = rng.random()
    if r < 0.3:
        addrs = [1] * n                                     # everybody on one Addr
    elif r < 0.6:
        addrs = [rng.randint(1, 2) for _ in range(n)]
        addrs[rng.randrange(n)] = addrs[(rng.randrange(n))]
    else:
        addrs = [rng.randint(1, max(2, n // 2)) for _ in range(n)]
    if len(set(addrs)) == n:
        addrs[1] = addrs[0]
    mode = rng.choice(["dup", "sname", "attr", "mixed"])
    snames = [0] * n
    attrs = [0] * n
    for i in range(n):
        if mode == "sname":
            snames[i] = i + 1
        elif mode == "attr":
            attrs[i] = i + 1
        elif mode == "mixed":
            snames[i] = rng.choice([0, 1, 2])
            attrs[i] = rng.choice([0, 0, 1, 2])
    return {"addrs": addrs, "snames": snames, "attrs": attrs}


def _sweep_case(rng):
    """N = 2..8 ready SubConns sharing Addr values; picks that hand every position to choose (fresh partner) so that
    each tracked connection is picked, then a second round after > 1 s."""
    n = rng.randint(2, 8)
    ops = []
    np_ = 0
    for rnd in range(2):
        for i in range(n):
            if n >= 3:
                other = (i + 1 + rng.randrange(n - 1)) % n
                b0 = other if other < i else other - 1
                ops.append({"op": "pick", "draws": [i, b0] + _draws(rng, n)[:4]})
            else:
                ops.append({"op": "pick", "draws": []})
            np_ += 1
            if rng.random() < 0.5:
                ops.append({"op": "adv", "dt": rng.choice([0, 1, MS, 20 * MS])})
            if rng.random() < 0.4:
                ops.append({"op": "done", "k": rng.randrange(np_), "code": rng.choice([-1, -1, 14])})
        ops.append({"op": "adv", "dt": rng.choice([S + 1, 2 * S, S // 2, S])})
    case = {"n": n, "start": START, "ops": ops}
    case.update(_addr_layout(rng, n, force_shared=True))
    return case


def _random_case(rng):
    n = rng.choice([0, 1, 1, 2, 2, 2, 3, 3, 3, 3, 4, 5, 5, 8])
    nops = rng.randint(8, 60)
    ops = []
    npicks = 0
    outstanding = []
    bad = [rng.random() < 0.35 for _ in range(max(n, 1))]
    pfail_bad = rng.choice([0.7, 0.9, 1.0])
    pfail_good = rng.choice([0.0, 0.0, 0.05, 0.3])
    for _ in range(nops):
        r = rng.random()
        if n == 0:
            ops.append({"op": "pick", "draws": []} if r < 0.6 else {"op": "adv", "dt": _dt(rng)})
            continue
        if r < 0.4:
            ops.append({"op": "pick", "draws": _draws(rng, n)})
            outstanding.append(npicks)
            npicks += 1
        elif r < 0.72 and (outstanding or (npicks > 0 and rng.random() < 0.04)):
            if outstanding and rng.random() < 0.99:
                k = outstanding.pop(rng.randrange(len(outstanding)) if rng.random() < 0.5 else 0)
            else:
                k = rng.randrange(npicks)       # a done func called twice
            codes = [(rng.choice(FAIL_CODES) if rng.random() < (pfail_bad if bad[i] else pfail_good) else rng.choice(OK_CODES))
                     for i in range(n)]
            ops.append({"op": "done", "k": k, "code": codes[0], "codes": codes})
        else:
            ops.append({"op": "adv", "dt": _dt(rng)})
    start = START if rng.random() < 0.75 else rng.choice([1, 5 * MS, S, 3 * S, 10 * S])
    case = {"n": n, "start": start, "ops": ops}
    case.update(_addr_layout(rng, n))
    return case


def _threshold_case(rng):
    """>= 3 conns; one connection is driven to score exactly 500 (old 1000, one failure 6.92 s after its
    previous completion), then pairs containing it are drawn."""
    n = rng.choice([3, 3, 4, 5])
    victim = rng.randrange(n)
    ops = []
    np_ = 0
    allok = [-1] * n
    for _ in range(2 * n + 2):
        ops.append({"op": "pick", "draws": _draws(rng, n)})
        np_ += 1
    ops.append({"op": "adv", "dt": rng.randint(1, 30) * MS})
    for k in range(np_):
        ops.append({"op": "done", "k": k, "code": -1, "codes": allok})
    ops.append({"op": "adv", "dt": rng.randint(6912000000, 6930000000)})
    first = np_
    for _ in range(2 * n + 2):
        a = victim if rng.random() < 0.7 else rng.randrange(n)
        ops.append({"op": "pick", "draws": [a, rng.randrange(n - 1)] + _draws(rng, n)[:4]})
        np_ += 1
    ops.append({"op": "adv", "dt": rng.randint(0, 3) * MS})
    codes = [14 if i == victim else -1 for i in range(n)]
    for k in range(first, np_):
        ops.append({"op": "done", "k": k, "code": codes[0], "codes": codes})
    for _ in range(rng.randint(6, 14)):
        if rng.random() < 0.5:
            ops.append({"op": "adv", "dt": rng.choice([0, MS, 300 * MS, S + 1, 2 * S])})
        other = rng.randrange(n - 1)
        d = [victim, other] if rng.random() < 0.6 else [rng.randrange(n), rng.randrange(n - 1)]
        ops.append({"op": "pick", "draws": d + _draws(rng, n)[:4]})
        np_ += 1
    case = {"n": n, "start": START, "ops": ops}
    case.update(_addr_layout(rng, n))
    return case


def _force_case(rng):
    """2 conns, pick spacing around the force-pick second, unequal loads through outstanding calls and lags."""
    ops = []
    np_ = 0
    outstanding = []
    for _ in range(rng.randint(12, 40)):
        r = rng.random()
        if r < 0.5:
            ops.append({"op": "pick", "draws": []})
            outstanding.append(np_)
            np_ += 1
        elif r < 0.65 and outstanding:
            k = outstanding.pop(rng.randrange(len(outstanding)))
            c = rng.choice([-1, -1, 17, 100, 16, 14])
            ops.append({"op": "done", "k": k, "code": c})
        else:
            ops.append({"op": "adv", "dt": rng.choice([S, S + 1, S - 1, S // 2, S // 2 + 1, S // 3, 2 * S, 10 * MS, 1, 0, 700 * MS])})
    case = {"n": 2, "start": START, "ops": ops}
    case.update(_addr_layout(rng, 2))
    return case


def _slow_decay_case(rng):
    """One healthy connection, then 500+ failing completions a few ns apart: the score loses exactly 1 each time."""
    n = rng.choice([1, 1, 2])
    ops = [{"op": "pick", "draws": []}, {"op": "adv", "dt": rng.randint(1, 9) * MS}, {"op": "done", "k": 0, "code": -1}]
    np_ = 1
    if n == 2:
        ops += [{"op": "pick", "draws": []}, {"op": "adv", "dt": rng.randint(1, 9) * MS}, {"op": "done", "k": 1, "code": -1}]
        np_ = 2
    for _ in range(rng.randint(502, 520)):
        ops.append({"op": "pick", "draws": []})
        ops.append({"op": "adv", "dt": rng.randint(1, 3)})
        ops.append({"op": "done", "k": np_, "code": rng.choice(FAIL_CODES), "flags": rng.choice([3, 7, 15, 3, 0])})
        np_ += 1
    ops.append({"op": "pick", "draws": []})
    return {"n": n, "start": START, "ops": ops}


def _round_case(rng):
    """constant latency / constant outcome with a long decay gap: the float sum rounds below the integer."""
    lat = rng.randint(1, 10 ** 9)
    ops = []
    np_ = 0
    for _ in range(rng.randint(4, 12)):
        gap = rng.randint(S, 40 * S)
        ops += [{"op": "adv", "dt": gap}, {"op": "pick", "draws": []}, {"op": "adv", "dt": lat},
                {"op": "done", "k": np_, "code": -1}]
        np_ += 1
    return {"n": 1, "start": START, "ops": ops}


def _stat_case(rng, n, npicks):
    """>= 3 conns, uniformly random pair draws, the connection at position 0 always fails, ~300 picks per second:
    input of the statistical test in drive() (probabilistic clauses of the property)."""
    ops = []
    codes = [14] + [-1] * (n - 1)
    for j in range(npicks):
        ops.append({"op": "pick", "draws": _draws(rng, n)})
        ops.append({"op": "adv", "dt": MS + rng.randint(0, 999)})
        ops.append({"op": "done", "k": j, "code": codes[0], "codes": codes})
        ops.append({"op": "adv", "dt": rng.randint(0, 3) * MS})
    return {"n": n, "start": START, "ops": ops, "stat": True}


def stat_check(case, obs):
    """None if fine, else a message. Tolerances: failing conn picked < 0.7 x the least-picked healthy conn;
    no conn unpicked for more than 2 s."""
    n = case["n"]
    cnt = [0] * n
    lastp = [None] * n
    gap = [0] * n
    for op, st in zip(case["ops"], obs["steps"]):
        if op["op"] == "pick" and st["idx"] >= 0:
            i = st["idx"]
            cnt[i] += 1
            for j in range(n):
                if lastp[j] is not None:
                    gap[j] = max(gap[j], st["now"] - lastp[j])
            lastp[i] = st["now"]
    healthy = cnt[1:]
    if cnt[0] >= 0.7 * min(healthy):
        return "statistical test: failing conn picked %d times, healthy %s" % (cnt[0], healthy)
    if any(l is None for l in lastp) or max(gap) > 2 * S:
        return "statistical test: a connection was not picked for %.3f s (counts %s)" % (max(gap) / S, cnt)
    return None


def drive(cases, tier):
    import vlib
    sfx = "s" if tier == "search" else ""
    bal = [c for c in cases if c.get("kind") != "client"]
    cli = [c for c in cases if c.get("kind") == "client"]
    log = ""
    obs_b, obs_c = [], []
    if bal:
        obs_b, log = vlib.run_driver(GO_PKG, bal, name=ID + sfx, timeout=DRIVER_TIMEOUT)
        if obs_b is None:
            return None, log
    if cli:
        obs_c, log2 = vlib.run_driver(CLI_PKG, cli, name=ID + "c" + sfx, timeout=DRIVER_TIMEOUT)
        if obs_c is None:
            return None, log2
        log += log2[-2000:]
    ib, ic = iter(obs_b), iter(obs_c)
    return [next(ic) if c.get("kind") == "client" else next(ib) for c in cases], log


CLI_PKG = "./rpc/internal"
CLI_KINDS = ["dial", "nonblock", "timeout", "creds", "unary", "stream"]


def _cli_opt(rng, kind, tags):
    if kind == "dial":
        tags[0] += 1
        return {"o": "dial", "tag": tags[0]}
    if kind == "timeout":
        return {"o": "timeout", "ms": rng.choice([500, 1000, 2000, 5000])}
    return {"o": kind}


def _client_case(rng, kinds=None):
    """NewClient with a sequence of exported ClientOptions (any subset, order, multiplicity) against 2-3 in-process
    backends behind direct:///; 300 calls."""
    tags = [0]
    if kinds is None:
        kinds = [rng.choice(CLI_KINDS) for _ in range(rng.choice([0, 1, 1, 2, 2, 3, 3, 4, 5, 6, 8]))]
        if rng.random() < 0.3:
            kinds = rng.sample(CLI_KINDS, len(CLI_KINDS))       # a permutation of all of them
    return {"kind": "client", "backends": rng.choice([2, 2, 3]), "calls": 300,
            "target": rng.choice(["direct", "manual"]),
            "opts": [_cli_opt(rng, k, tags) for k in kinds]}


def _client_cases(rng, n):
    out = [_client_case(rng, [])]
    for k in CLI_KINDS:                                         # every option alone
        out.append(_client_case(rng, [k]))
    for kinds in ([], ["timeout"], ["nonblock"], ["timeout", "nonblock"], ["nonblock", "timeout", "creds"]):
        c = _client_case(rng, kinds)                            # comma-less target, Timeout set or not, blocking or not
        c["target"] = "manual"
        out.append(c)
    for a in CLI_KINDS:                                         # every option before / after credentials
        out.append(_client_case(rng, [a, "creds"]))
        out.append(_client_case(rng, ["creds", a]))
    while len(out) < n:
        out.append(_client_case(rng))
    return out[:max(n, 24)]


def _answer_error_case(rng):
    """A backend that ANSWERS: every completion carries BytesSent/BytesReceived (and often a trailer / load report);
    one connection answers with unacceptable statuses forever, the others with acceptable ones."""
    n = rng.choice([1, 2, 2, 3, 4])
    bad = rng.randrange(n)
    ops = []
    np_ = 0
    for j in range(rng.randint(6, 24)):
        ops.append({"op": "pick", "draws": _draws(rng, n)})
        ops.append({"op": "adv", "dt": rng.choice([MS, 3 * MS, 40 * MS, S // 4, S + 1, 3 * S])})
        codes = [(rng.choice(FAIL_CODES) if i == bad else rng.choice(OK_CODES)) for i in range(n)]
        ops.append({"op": "done", "k": np_, "code": codes[0], "codes": codes,
                    "flags": rng.choice([3, 3, 7, 15, 11, 2, 1])})
        np_ += 1
    case = {"n": n, "start": START, "ops": ops}
    case.update(_addr_layout(rng, n))
    return case


def _multi_case(rng):
    """2-4 Builds with different (overlapping, equal, smaller, empty) ready sets on ONE picker builder; picks,
    completions and advances interleaved over all live pickers."""
    pool = rng.randint(4, 8)
    nb = rng.randint(2, 4)
    ops = []
    sizes = []          # ready-set size per picker
    npicks = []         # successful picks per picker
    outstanding = []    # per picker

    def build():
        r = rng.random()
        if sizes and r < 0.3:
            prev = [o for o in ops if o["op"] == "build"][rng.randrange(len(sizes))]["ready"]
            ready = list(prev) if rng.random() < 0.5 else rng.sample(prev, rng.randint(0, len(prev)))   # equal / smaller
        else:
            ready = rng.sample(range(pool), rng.choice([1, 2, 2, 3, 3, 4, min(5, pool)]))
        rng.shuffle(ready)
        ops.append({"op": "build", "ready": ready})
        sizes.append(len(ready))
        npicks.append(0)
        outstanding.append([])

    build()
    built = 1
    for _ in range(rng.randint(12, 45)):
        r = rng.random()
        if built < nb and r < 0.12:
            build()
            built += 1
        elif r < 0.55:
            p = rng.randrange(len(sizes))
            ops.append({"op": "pick", "p": p, "draws": _draws(rng, sizes[p])})
            if sizes[p] > 0:
                outstanding[p].append(npicks[p])
                npicks[p] += 1
        elif r < 0.8:
            cand = [p for p in range(len(sizes)) if outstanding[p]]
            if cand:
                p = rng.choice(cand)
                k = outstanding[p].pop(rng.randrange(len(outstanding[p])))
                ops.append({"op": "done", "p": p, "k": k,
                            "code": rng.choice(FAIL_CODES) if rng.random() < 0.35 else rng.choice(OK_CODES + [16, 17, 100])})
        else:
            ops.append({"op": "adv", "dt": _dt(rng) if rng.random() < 0.5 else rng.choice([MS, 30 * MS, S // 2, S + 1])})
    while built < nb:
        build()
        built += 1
        for p in range(len(sizes)):                       # every live picker is used again after the last Build
            ops.append({"op": "pick", "p": p, "draws": _draws(rng, sizes[p])})
    return {"multi": True, "start": START, "ops": ops}


def _hung_backend_case(rng):
    """A hung backend: every call to it ends with the caller's deadline firing (DeadlineExceeded, mostly the
    status.FromContextError message), the timeout apart; the other connections answer."""
    n = rng.choice([1, 2, 2, 3, 4])
    hung = rng.randrange(n)
    timeout = rng.choice([500 * MS, S, 2 * S, 5 * S])
    ops = []
    np_ = 0
    if rng.random() < 0.6:          # the backend worked before it hung
        for _ in range(rng.randint(1, 3)):
            ops += [{"op": "pick", "draws": _draws(rng, n)}, {"op": "adv", "dt": rng.randint(1, 30) * MS},
                    {"op": "done", "k": np_, "code": -1, "flags": 3}]
            np_ += 1
    for _ in range(rng.randint(4, 16)):
        ops.append({"op": "pick", "draws": _draws(rng, n)})
        ops.append({"op": "adv", "dt": timeout})
        codes = [(4 if i == hung else rng.choice(OK_CODES)) for i in range(n)]
        ops.append({"op": "done", "k": np_, "code": codes[0], "codes": codes, "flags": rng.choice([0, 1, 1, 3]),
                    "msg": rng.choice([1, 1, 1, 2, 3, 0, 6])})
        np_ += 1
    case = {"n": n, "start": START, "ops": ops}
    case.update(_addr_layout(rng, n))
    return case


def _flag_pass(rng, case):
    """every flag combination x acceptable/unacceptable codes on the completions that do not fix their flags"""
    for op in case.get("ops", []):
        if op["op"] == "done" and "flags" not in op:
            op["flags"] = rng.choice([0, 0, 3, 3, 7, 15] + list(range(16)))
        if op["op"] == "done" and "msg" not in op:
            op["msg"] = rng.choice([0, 1, 1, 2, 2, 3, 4, 5, 6])      # every message with every code
    return case


def generate(rng, tier, n):
    return [_flag_pass(rng, c) for c in _generate(rng, tier, n)]


def _generate(rng, tier, n):
    cases = []
    for i in range(n):
        r = rng.random()
        if r < 0.52:
            cases.append(_random_case(rng))
        elif r < 0.60:
            cases.append(_sweep_case(rng))
        elif r < 0.67:
            cases.append(_answer_error_case(rng))
        elif r < 0.73:
            cases.append(_multi_case(rng))
        elif r < 0.79:
            cases.append(_hung_backend_case(rng))
        elif r < 0.77:
            cases.append(_threshold_case(rng))
        elif r < 0.9:
            cases.append(_force_case(rng))
        else:
            cases.append(_round_case(rng))
    if tier != "search":
        cases.append(_slow_decay_case(rng))
        cases.append(_stat_case(rng, 3, 500))
    cases += _client_cases(rng, 300 if tier == "thorough" else 40 if tier == "quick" else 60)
    if tier == "thorough":
        for m in (3, 5, 8):
            cases.append(_stat_case(rng, m, 2000))
            cases.append(_stat_case(rng, m, 2000))
    return cases


def search(rng, problems):
    out = []
    for _ in range(40):
        out.append(_threshold_case(rng))
        out.append(_force_case(rng))
        out.append(_round_case(rng))
        out.append(_sweep_case(rng))
        out.append(_answer_error_case(rng))
        out.append(_multi_case(rng))
        out.append(_hung_backend_case(rng))
    out.append(_slow_decay_case(rng))
    for c in out:
        _flag_pass(rng, c)
    return out


def _signed(u):
    u = int(u)
    return u - (1 << 64) if u >= (1 << 63) else u


def _row(r):
    return clist([cZ(r[0]), cZ(_signed(r[1])), cZ(r[2]), cZ(_signed(r[3])), cZ(_signed(r[4])), cZ(_signed(r[5]))])


_ERR = {"": 0, "noconn": 1, "other": 2}


def _encode_client(case, obs):
    xs = []
    for o in case["opts"]:
        k = o["o"]
        xs.append({"dial": "XDial %s" % cnat(o.get("tag", 0)), "nonblock": "XNonBlock",
                   "timeout": "XTimeout %s" % cZ(o.get("ms", 0)), "creds": "XCreds", "unary": "XUnary",
                   "stream": "XStream"}[k])
    labels = []
    for l in obs.get("labels") or []:
        labels.append(cZ(-2 if l == "svc" else int(l[1:]) if l.startswith("u") else -1))
    failed = bool(obs.get("dial_err")) or "error" in obs or "driver_panic" in obs
    return "CC (mkccase %s %s %s %s %s %s %s %s %s %s %s)" % (
        cnat(case["backends"]), cbool(case.get("target") == "manual"), clist(xs), cZ(case["calls"]), clist(labels), cbool(failed),
        _cs(obs.get("svc", "")), _cs(obs.get("balancer", "")), clist([cZ(x) for x in obs.get("counts") or []]),
        cZ(obs.get("calls", 0)), cZ(obs.get("errs", 0)))


def _cs(x):
    from vlib import cstr
    return cstr("".join(ch if 32 <= ord(ch) < 127 else "?" for ch in x))


def _row7(r):
    return clist([cZ(r[0]), cZ(_signed(r[1])), cZ(r[2]), cZ(_signed(r[3])), cZ(_signed(r[4])), cZ(_signed(r[5])), cZ(r[6])])


def _encode_multi(case, obs):
    steps = []
    prev = []
    for op, st in zip(case["ops"], obs["steps"]):
        cur = [row for pk in (st.get("pickers") or []) for row in pk]
        k = op["op"]
        if k == "build":
            order = [row[6] for row in (st["pickers"][-1] if st.get("pickers") else [])]
            m = "MBuild %s %s" % (clist([cnat(i) for i in op["ready"]]), clist([cnat(i) for i in order]))
            delta = [cpair(cnat(i), _row7(r)) for i, r in enumerate(cur) if i >= len(prev) or r != prev[i]]
        else:
            if k == "pick":
                m = "MPick %s %s" % (cnat(op["p"]), clist([cZ(d) for d in op.get("draws", [])]))
            elif k == "done":
                code = 2 if op["code"] == -2 else op["code"]
                m = "MDone %s %s %s %s %s" % (cnat(op["p"]), cnat(op["k"]), cZ(code), cZ(op.get("flags", 0)), cnat(op.get("msg", 0)))
            else:
                m = "MAdv %s" % cZ(op["dt"])
            if len(cur) == len(prev):
                delta = [cpair(cnat(i), _row7(r)) for i, r in enumerate(cur) if r != prev[i]]
            else:       # the number of tracked connections changed without a Build: ship everything, checkers reject
                delta = [cpair(cnat(i), _row7(r)) for i, r in enumerate(cur)]
        prev = cur
        o = "(mkobs %s %s %s %s %s %s %s %s %s %s %s)" % (
            cZ(st["idx"]), cZ(st["id"]), cZ(_ERR.get(st["err"], 2)), cZ(st["used"]), cZ(st["over"]), cZ(st["conn"]),
            cZ(st["td"]), cZ(st["wbits"]), cZ(st["now"]), clist(delta), cZ(st["stamp"]))
        steps.append("(%s, %s)" % (m, o))
    return "CM (mkmcase %s %s %s)" % (cZ(case["start"]), cZ(obs.get("healthcheck", -1)), clist(steps))


def encode(case, obs):
    if case.get("kind") == "client":
        return _encode_client(case, obs)
    if case.get("multi"):
        return _encode_multi(case, obs)
    steps = []
    prev = [[0, 0, 1000, 0, 0, 0] for _ in range(case["n"])]
    for op, st in zip(case["ops"], obs["steps"]):
        cur = st["conns"] or []
        if len(cur) == len(prev):       # lossless delta against the previous dump (Exec.apply_delta)
            delta = [cpair(cnat(i), _row(r)) for i, r in enumerate(cur) if r != prev[i]]
        else:                           # wrong shape: ship everything, the checkers will reject it
            delta = [cpair(cnat(i), _row(r)) for i, r in enumerate(cur)]
        prev = cur if len(cur) == len(prev) else prev
        k = op["op"]
        if k == "pick":
            x = "XPick %s" % clist([cZ(d) for d in op.get("draws", [])])
        elif k == "done":
            code = st.get("code", op.get("code", -1))
            if code == -2:
                code = 2        # a non-status error has status.Code Unknown
            x = "XDone %s %s %s %s" % (cnat(op["k"]), cZ(code), cZ(op.get("flags", 0)), cnat(op.get("msg", 0)))
        else:
            x = "XAdv %s" % cZ(op["dt"])
        o = "(mkobs %s %s %s %s %s %s %s %s %s %s %s)" % (
            cZ(st["idx"]), cZ(st["id"]), cZ(_ERR.get(st["err"], 2)), cZ(st["used"]), cZ(st["over"]), cZ(st["conn"]),
            cZ(st["td"]), cZ(st["wbits"]), cZ(st["now"]), clist(delta), cZ(st["stamp"]))
        steps.append("(%s, %s)" % (x, o))
    n = case["n"]
    addrs = case.get("addrs") or list(range(n))
    snames = case.get("snames") or [0] * n
    inaddr = [cpair(cZ(addrs[i] if i < len(addrs) else i), cZ(snames[i] if i < len(snames) else 0)) for i in range(n)]
    connaddr = [cpair(cZ(a), cZ(k)) for a, k in (obs.get("connaddr") or [])]
    stat = stat_check(case, obs) is None if case.get("stat") else True
    return "CB (mkcase %s %s %s %s %s %s %s)" % (cnat(n), cZ(case["start"]), clist([cnat(i) for i in obs["order"]]),
                                               clist(inaddr), clist(connaddr), cbool(stat), clist(steps))


def nontrivial(case, obs):
    if case.get("multi"):
        return sum(1 for o in case["ops"] if o["op"] == "build") >= 2 and sum(1 for st in obs["steps"] if st["idx"] >= 0) >= 2
    if case.get("kind") == "client":
        return len(case["opts"]) >= 1 and case["backends"] >= 2
    picks = sum(1 for st in obs["steps"] if st["idx"] >= 0)
    dones = sum(1 for st in obs["steps"] if st["conn"] >= 0)
    return picks >= 2 and dones >= 1


def _w(bits):
    return struct.unpack("<d", struct.pack("<Q", int(bits)))[0]


def bucket(case, obs):
    if case.get("multi"):
        builds = [o["ready"] for o in case["ops"] if o["op"] == "build"]
        out = ["multi:builds=%d" % len(builds), "multi:healthcheck=%s" % obs.get("healthcheck")]
        for a in range(len(builds)):
            for b in range(a + 1, len(builds)):
                sa, sb = set(builds[a]), set(builds[b])
                out.append("multi:" + ("equal" if sa == sb else "subset" if sb < sa else "overlap" if sa & sb else "disjoint"))
        if any(not b for b in builds):
            out.append("multi:empty-ready-set")
        last_build = max(i for i, o in enumerate(case["ops"]) if o["op"] == "build")
        if any(o["op"] == "pick" and o["p"] < len(builds) - 1 for o in case["ops"][last_build:]):
            out.append("multi:old-picker-used-after-later-build")
        return sorted(set(out))
    if case.get("kind") == "client":
        out = ["client:backends=%d" % case["backends"], "client:opts=%d" % len(case["opts"]),
               "client:target=" + case.get("target", "direct")]
        out += ["client:opt:" + o["o"] for o in case["opts"]]
        out.append("client:balancer=" + str(obs.get("balancer")))
        if obs.get("counts") and min(obs["counts"]) == 0:
            out.append("client:UNSERVED-BACKEND")
        return sorted(set(out))
    shared = case.get("addrs") and len(set(case["addrs"])) < len(case["addrs"])
    out = ["n=%d" % case["n"], "addr:shared" if shared else "addr:distinct", "ops<=%d" % (10 ** len(str(len(case["ops"]))))]
    seen = set()
    called = set()
    for op, st in zip(case["ops"], obs["steps"]):
        if op["op"] == "pick" and st["idx"] >= 0:
            seen.add(st["idx"])
            if st["used"] >= 4:
                out.append("pick:redraw")
        if op["op"] == "done":
            if op["k"] in called:
                out.append("done:twice")
            called.add(op["k"])
            out.append("done:flags=%d:%s" % (op.get("flags", 0), "fail" if st.get("code") in FAIL_CODES else "ok"))
            out.append("done:code=%s:msg=%d" % (st.get("code"), op.get("msg", 0)))
            w = _w(st["wbits"])
            out.append("w:" + ("1" if w == 1.0 else "0" if w == 0.0 else "<1e-300" if w < 1e-300 else "<.5" if w < 0.5 else "<1"))
        if st["conns"]:
            for r in st["conns"]:
                if r[2] == 500:
                    out.append("score:=500")
                elif r[2] < 500:
                    out.append("score:<500")
                if _signed(r[1]) < 0:
                    out.append("inflight:<0")
    out.append("conns-picked=%d" % len(seen))
    if shared:
        out.append("shared:all-picked" if len(seen) == case["n"] else "shared:some-unpicked")
    return sorted(set(out))


def explain(case, obs):
    return ("the observed counters contradict C14.Exec.spec_ok: a Pick returned a non-ready SubConn, or inflight != "
            "picks - completions, or a success score outside [0,1000] / moving away from its target on a completion "
            "(c14_success_range / c14_success_monotone), or a latency estimate outside the observed latencies "
            "(c14_lag_between_min_max), or a score above max 0 (1000 - f) after f consecutive failing completions with td > 0 "
            "whatever BytesSent/BytesReceived/Trailer/ServerLoad the DoneInfo carried (c14_error_answer_lowers_score, "
            "c14_all_fail_unhealthy_within_500), or (>= 3 conns) a "
            "connection outside the first all-healthy drawn pair was chosen (c14_unhealthy_avoided), or (2 conns) the "
            "connection not picked for more than 1 s was not picked (c14_force_pick); multi-picker cases: a Build or an "
            "operation on one picker changed the connections of another live picker, or a picker returned a SubConn that "
            "is not in ITS ready set (c14_pickers_independent); client cases: the ClientConn built by "
            "NewClient does not run the p2c_ewma balancer / lost its default service config, or a ready backend "
            "received no call (c14_client_keeps_balancer)")
