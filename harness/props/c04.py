"""C04 authentication gates: JWT (parser + Authorize), signed requests (ContentSecurityHandler), RPC authenticator.

Four kinds of case, three Go packages (custom drive()):
  parser  api/token              histories through one Parser, hit counters dumped after every request
  jwt     api/handler            histories through one Authorize middleware: status / handler ran / context claims
  sig     api/handler            one signed (or tampered / malformed) request through ContentSecurityHandler
  rpc     rpc/internal/auth      store mutations, outages and calls through one Authenticator
Crypto is tabulated by the drivers with the real libraries (jwt verdict per (header, secret); RSA, base64, HMAC,
SHA-256, url.Parse per request) and handed to the Coq model / Spec as finite oracle tables.
"""
import base64
import copy
import re

import vlib
from vlib import cZ, cN, cbool, clist, copt, cpair, cstr, cbytes

ID = "C04"
GO_PKG = "./api/handler"
PKGS = {"parser": ("./api/token", "^TestVerifDriver$"), "jwt": ("./api/handler", "^TestVerifDriver$"),
        "sig": ("./api/handler", "^TestVerifDriver$"), "rpc": ("./rpc/internal/auth", "^TestVerifDriver$"),
        "grp": ("./api", "^TestVerifDriverC04$"), "ejwt": ("./api", "^TestVerifDriverC04$"),
        "rpcs": ("./rpc/internal", "^TestVerifDriverC04$"), "rpcn": ("./rpc", "^TestVerifDriverC04$"), "rpci": ("./rpc/internal/serverinterceptors", "^TestVerifDriverC04$")}

_A = "api/handler/authhandler.go"
_T = "api/token/tokenparser.go"
_S = "api/internal/security/contentsecurity.go"
_H = "api/handler/contentsecurityhandler.go"
_V = "api/httpx/vars.go"
_R = "rpc/internal/auth/auth.go"
_RV = "rpc/internal/auth/vars.go"
_I = "rpc/internal/serverinterceptors/authinterceptor.go"
_Q = "api/httpx/requests.go"
_E = "api/engine.go"
_C = "api/handler/cryptohandler.go"
_AC = "rpc/internal/codes/accept.go"
_BI = "rpc/internal/serverinterceptors/breakerinterceptor.go"


def _gen_spec():
    items = []
    for n in ["jwtAudience", "jwtExpire", "jwtId", "jwtIssueAt", "jwtIssuer", "jwtNotBefore", "jwtSubject"]:
        items.append({"kind": "const", "file": _A, "name": n})
    items.append({"kind": "const", "file": _T, "name": "claimHistoryResetDuration"})
    items.append({"kind": "const", "file": _R, "name": "defaultExpiration"})
    for n in ["fingerprintField", "secretField", "signatureField", "typeField", "keyField", "timeField", "EncryptionType", "requestUriHeader"]:
        items.append({"kind": "const", "file": _S, "name": n})
    for n in ["ContentSecurity", "CodeSignaturePass", "CodeSignatureInvalidHeader", "CodeSignatureWrongTime", "CodeSignatureInvalidToken"]:
        items.append({"kind": "const", "file": _V, "name": n})
    for n in ["separator", "tokensInAttribute"]:
        items.append({"kind": "const", "file": _Q, "name": n})
    for n in ["appKey", "tokenKey"]:
        items.append({"kind": "const", "file": _RV, "name": n})
    for f, fn, as_ in [(_A, "Authorize", "authorize_calls"), (_A, "unauthorized", "unauthorized_calls"),
                       (_T, "Parser.ParseToken", "parse_token_calls"), (_T, "Parser.incrCount", "incr_count_calls"),
                       (_T, "Parser.doParseToken", "do_parse_calls"), (_H, "ContentSecurityHandler", "csh_calls"),
                       (_H, "handleVerificationFailure", "hvf_calls"), (_H, "executeCallbacks", "exec_cb_calls"),
                       (_S, "VerifySignature", "verify_calls"), (_S, "ParseContentSecurity", "parse_cs_calls"),
                       (_S, "getPathQuery", "path_query_calls"), (_R, "Authenticator.Authenticate", "authenticate_calls"),
                       (_R, "Authenticator.validate", "validate_calls"), (_I, "UnaryAuthorizeInterceptor", "unary_calls"),
                       (_I, "StreamAuthorizeInterceptor", "stream_calls"),
                       (_E, "engine.bindFeaturedRoutes", "bind_featured_calls"), (_E, "engine.bindRoutes", "bind_routes_calls"),
                       (_E, "engine.signatureVerifier", "signature_verifier_calls")]:
        items.append({"kind": "calls", "file": f, "func": fn, "as": as_})
    items.append({"kind": "const", "file": _C, "name": "maxBytes"})
    items.append({"kind": "cases", "file": _AC, "func": "Acceptable", "as": "acceptable_cases"})
    items.append({"kind": "calls", "file": _BI, "func": "UnaryBreakerInterceptor", "as": "unary_breaker_calls"})
    items.append({"kind": "cases", "file": _H, "func": "ContentSecurityHandler", "as": "csh_methods"})
    items.append({"kind": "cases", "file": _A, "func": "Authorize", "as": "skipped_claims"})
    items.append({"kind": "func", "file": _S, "name": "ContentSecurityHeader.Encrypted", "as": "encrypted"})
    return {"imports": ["From God Require Import C04.GenEnv."], "items": items}


GEN_SPEC = _gen_spec()
QUICK_N = 480
THOROUGH_N = 6000
SHARD = 70
DRIVER_TIMEOUT = 1200
RULE = ("mix of 4 case kinds: parser histories (22%: 1-60 requests through one token.Parser with secret/prevSecret, "
        "virtual clock advances incl. >24h and custom reset durations, counters dumped after each request), JWT gate "
        "histories (20%: same through one Authorize instance incl. unauthorized callbacks; tokens minted under secrets "
        "{s1,s2,s3}, algs HS256/384/512/none/RS256-junk, exp/nbf/iat at +-1h and at +40..250 s with the jwt clock (jwt.TimeFunc) moving 20..3000 s between requests, truncated/flipped/garbage tokens, "
        "Bearer/bearer/absent schemes), signed requests (43%: correctly signed + every single-field tampering + key/secret/"
        "fingerprint/header defects + timestamps at tol-1,tol,tol+1,+-5 and extreme/non-numeric values, strict and non-strict, "
        "all methods, X-Request-Uri, encrypted bodies; body framing in {declared Content-Length, unknown length -1 via an opaque reader, chunked through a real httptest.Server, declared length through a real server, empty body} x {correct, body tampered, signed-for-empty-body with a body sent}), route groups on one engine (8%: 2-3 WithSignature groups with their own fingerprint->key tables over 3 RSA keys generated at run time, every (fp,key) pair in use sent to every group), JWT route groups built by the engine from api.WithJwt/WithJwtTransition with previous secrets of every length 0..33 and current secrets around the 8-byte limit (5.5%), rpc.NewServer config matrix (1.5%: Auth x StrictControl x stored/not stored/outage x right/wrong/missing token, unary and stream), percent-escapes in the signed path/query incl. %d %! with a digit of an escape altered after signing, unsigned HEAD/OPTIONS/PATCH/TRACE/... requests on every group route registered with GET / POST / both / all four, real rpc server bursts (1%: 300-800 wrong/missing-token calls on one method then correct pairs), long client keys (35% of signed requests: secret plaintext of 113..349 bytes = 1, exactly 117, 2 and 3 RSA blocks), 3 fixed encrypted-body size cases in the corpus (wire body 1048575 / 1048576 / 1048577 bytes), RPC floods (1%: 1500-4000 calls for apps without stored token, then right/forged tokens on 5-9 fresh known apps), RPC interceptor histories (7%: Unary/Stream interceptors with FullMethod names incl. health/reflection/empty), RPC authenticator histories (7%: miniredis hash contents x metadata "
        "shapes x strict x outages); the thorough tier adds the original and all 6 single-field/key tamperings of 200 base requests. non-trivial = a history with both an accepted and a refused request / a signed request "
        "on a guarded method with a parsable header / an RPC history with both outcomes; distinct = distinct canonical case JSON")
TRUSTED = ["golang-jwt/jwt v4 (signature + time-claim verdict per (Authorization header, secret) tabulated by the driver by "
           "calling request.ParseFromRequest directly; contract err==nil <-> Valid & MapClaims measured per case)",
           "crypto/rsa PKCS1v15, encoding/base64, crypto/hmac, crypto/sha256, net/url.Parse, net/http request parsing "
           "(tabulated per request by the driver with the same library calls)",
           "collection.Cache expiry (5 min) and timing wheel are C17's; cases run well inside the cache lifetime",
           "miniredis as the store; redis breaker not tripped (at most 4 failing store calls per history)"]
ASSUMPTIONS = ["HMAC-SHA256 injective per key and SHA-256 injective (section hypotheses of c04_tamper_rejected only)",
               "the Authorization header value, with an optional case-insensitive 'Bearer ' prefix stripped, is 'the bearer token' "
               "(jwt's AuthorizationHeaderExtractor also accepts a bare token without the prefix)",
               "'header decrypts' includes well-formedness of the decrypted secret (base64 key, numeric type)",
               "the signed path/query are the X-Request-Uri ones when that header is present and parseable",
               "a request announcing type=1 with a body additionally needs that body to decrypt (else 400, cryptohandler.go)",
               "the framing of the body (Content-Length / chunked / unknown) is not an input of the Spec's accept predicate; the body hash is over the bytes sent",
               "a type=1 request whose body length is unknown (ContentLength <= 0) is NOT decrypted by the gate: the handler receives the ciphertext (recorded note)",
               "sequential histories only (no concurrent requests through one parser)"]

SECRETS = ["s1-7f3a9c", "s2-prev-51be", "s3-other-00d2"]
SID = {"": 0, SECRETS[0]: 1, SECRETS[1]: 2, SECRETS[2]: 3}
REGISTERED = ["aud", "exp", "jti", "iat", "iss", "nbf", "sub"]
START_NS = 3600 * 10 ** 9


# ------------------------------------------------------------------------------------------- generators
HS_ALGS = ["HS256", "HS384", "HS512"]
JUNK_ALGS = ["none", "RS256junk", "RS384junk", "RS512junk", "ES256junk", "ES384junk", "PS256junk", "PS512junk", "hs256lower", "noalg"]


def gen_jwt_algs(rng):
    """the algorithm dimension, fixed shape: every HMAC-family alg x signing secret in {current, previous, foreign} with valid time
    claims (must be accepted iff the secret is configured), an expired one, and every non-HMAC / malformed alg variant (refused)"""
    secret, prev = SECRETS[0], SECRETS[1]
    toks = []
    for alg in HS_ALGS + ["HS256typ"]:
        for sg in SECRETS:
            toks.append({"alg": alg, "secret": sg, "claims": {"uid": len(toks), "role": "r"}, "exp": 3600, "nbf": None, "iat": None,
                         "mangle": "", "raw": "", "cut": 0, "expect": 1 if sg in (secret, prev) else 2})
    for alg in HS_ALGS:
        toks.append({"alg": alg, "secret": secret, "claims": {"uid": len(toks)}, "exp": -3600, "nbf": None, "iat": None,
                     "mangle": "", "raw": "", "cut": 0, "expect": 2})
    for alg in JUNK_ALGS:
        toks.append({"alg": alg, "secret": rng.choice([secret, prev]), "claims": {"uid": len(toks)}, "exp": 3600, "nbf": None, "iat": None,
                     "mangle": "", "raw": "", "cut": 0, "expect": 2})
    order = list(range(len(toks)))
    rng.shuffle(order)
    reqs = [{"tok": i, "scheme": "Bearer ", "advance": 0, "jadv": 0} for i in order + order[:8]]
    return {"kind": "jwt", "secret": secret, "prev": prev, "secrets": SECRETS, "callback": rng.choice(["none", "observe"]),
            "probe": sorted(REGISTERED + ["uid", "role"]), "tokens": toks, "reqs": reqs}


def _gen_tokens(rng, secret, prev):
    toks = []
    pool = [("uid", [1, 7, 123456789012, 1.5]), ("name", ["alice", "bob", ""]), ("role", ["admin", "user"]),
            ("aud", ["svc-a"]), ("iss", ["issuer-1"]), ("sub", ["subject"]), ("jti", ["id-1", "id-2"]),
            ("AUD", ["upper"]), ("Exp", [5]), ("x-y", [True, False]), ("nested", [{"a": 1}, {"b": [1, 2]}]),
            ("list", [[1, "two"], []]), ("expx", ["almost"]), ("i", [0])]
    for _ in range(rng.randint(2, 7)):
        r = rng.random()
        alg = "HS256" if r < 0.6 else (rng.choice(["HS384", "HS512"]) if r < 0.86 else rng.choice(JUNK_ALGS))
        claims = {}
        for k, vals in rng.sample(pool, rng.randint(0, 5)):
            claims[k] = rng.choice(vals)
        own = [x for x in (secret, prev) if x]
        t = {"alg": alg, "secret": rng.choice(own) if rng.random() < 0.85 else rng.choice(SECRETS), "claims": claims,
             "exp": rng.choice([3600, 3600, 7200, 7200, 100, 100, 250, 40, -3600, None, None]),
             "nbf": rng.choice([None] * 8 + [-3600, -3600, 3600, 60, 150]),
             "iat": rng.choice([None] * 9 + [-3600, -3600, 3600, 30]),
             "mangle": "", "raw": "", "cut": 0}
        m = rng.random()
        if m < 0.04:
            t["mangle"], t["cut"] = "truncate", rng.choice([1, 2, 5, 20, 60])
        elif m < 0.08:
            t["mangle"] = "flipsig"
        elif m < 0.11:
            t["mangle"] = "flippayload"
        elif m < 0.13:
            t["mangle"] = "twoparts"
        elif m < 0.15:
            t["mangle"] = "nosig"
        elif m < 0.2:
            t["mangle"] = "raw"
            t["raw"] = rng.choice(["", "abc", "a.b.c", "..", "Bearer", "eyJhbGciOiJIUzI1NiJ9.e30.", "x" * 200,
                                   "eyJhbGciOiJIUzI1NiIsInR5cCI6IkpXVCJ9", "null", "e30.e30.e30"])
        toks.append(t)
    return toks


def _gen_reqs(rng, ntok, long_hist):
    n = rng.randint(1, 60) if long_hist else rng.randint(1, 12)
    reqs = []
    fav = rng.randrange(ntok)
    for _ in range(n):
        r = rng.random()
        tok = fav if r < 0.35 else (rng.randrange(ntok) if r < 0.95 else -1)
        if rng.random() < 0.15:
            fav = rng.randrange(ntok)
        s = rng.random()
        scheme = "Bearer " if s < 0.78 else rng.choice(["bearer ", "BEARER ", "", "Basic ", "Bearer  ", "Bearer"])
        a = rng.random()
        adv = 0 if a < 0.86 else rng.choice([1, 30, 3600, 50000, 90000])
        # the wall clock seen by the jwt library moves: tokens expire / become valid during the history
        j = rng.random()
        jadv = 0 if j < 0.86 else rng.choice([20, 45, 70, 120, 300, 3000])
        reqs.append({"tok": tok, "scheme": scheme, "advance": adv, "jadv": jadv})
    return reqs


def _gen_secrets(rng):
    secret = rng.choice(SECRETS)
    r = rng.random()
    if r < 0.25:
        prev = ""
    elif r < 0.32:
        prev = secret
    else:
        prev = rng.choice([s for s in SECRETS if s != secret])
    return secret, prev


def gen_parser(rng):
    secret, prev = _gen_secrets(rng)
    toks = _gen_tokens(rng, secret, prev)
    reset = rng.choice([None, None, None, 10, 3600, 0])
    return {"kind": "parser", "secret": secret, "prev": prev, "secrets": SECRETS, "reset": reset, "tokens": toks,
            "reqs": _gen_reqs(rng, len(toks), rng.random() < 0.6)}


def gen_jwt(rng):
    secret, prev = _gen_secrets(rng)
    toks = _gen_tokens(rng, secret, prev)
    keys = set(REGISTERED)
    for t in toks:
        keys.update(t["claims"].keys())
    return {"kind": "jwt", "secret": secret, "prev": prev, "secrets": SECRETS,
            "callback": rng.choice(["none", "none", "observe", "status"]), "probe": sorted(keys), "tokens": toks,
            "reqs": _gen_reqs(rng, len(toks), rng.random() < 0.5)}


KEYS = [base64.b64encode(b"q4t7w!z%C*F-JaNdRgUjXn2r5u8x/A?D").decode(),
        base64.b64encode(b"0123456789abcdef").decode(),
        base64.b64encode(b"another-hmac-key-of-24-b").decode()]
# long client keys: the secret plaintext "key=<b64>; time=<10 digits>; type=0" is 29 + len(b64) bytes; one PKCS#1 v1.5 block
# of the 1024-bit test key holds 117: 66 raw bytes -> exactly 117 (block boundary), 69 -> 121 (2 blocks, 4 bytes in the second),
# 96 -> 157 (2 blocks), 160 -> 245 (3 blocks), 240 -> 349 (3 blocks)
LONG_KEYS = [base64.b64encode(bytes((7 * i + n) % 251 for i in range(n))).decode() for n in (66, 69, 96, 160, 240, 63)]
H_OK = "fingerprint={FP}; secret={SECRET}; signature={SIG}"
PATHS = ["/", "/a", "/a/b", "/users/42/items", "/a%0Ab", "/sp%20ace", "/a/b/", "/p%2Fq", "/lit%25d", "/x%25%21s", "/u%41"]
QUERIES = ["", "x=1", "a=1&b=2", "q=%0A", "k=v&k=w", "z", "name=%41&page=1", "f=%25d", "p=%2F&q=%7e", "fmt=%25%21d%25s"]
PCT_QUERIES = ["name=%41&page=1", "f=%25d&g=%30", "p=%2F&q=%7e", "fmt=%25%21d%25s&n=%31"]
BODIES = ["", "hello", '{"a":1}', "line1\nline2", "x" * 64]


def _sig_base(rng):
    method = rng.choice(["GET", "POST", "PUT", "DELETE"])
    path = rng.choice(PATHS)
    query = rng.choice(QUERIES)
    body = rng.choice(BODIES)
    tol = rng.choice([30, 100, 600, 10, 0, 1, 3600])
    key = rng.choice(KEYS) if rng.random() < 0.65 else rng.choice(LONG_KEYS)
    fp = rng.choice(["fp-1", "fp-2"])
    c = {"kind": "sig", "strict": rng.random() < 0.7, "tol": tol, "decryptors": ["fp-1", "fp-2"],
         "method": method, "target": "http://localhost" + path + ("?" + query if query else ""), "body": body,
         "encbody": False, "xuri": "", "noheader": False, "header": H_OK.replace("{FP}", fp),
         "plain": "key=%s; time={TS}; type=0" % key, "tsoff": rng.choice([0, 0, 1, -1, 3, -4]), "tsraw": "", "corrupt": False,
         "keyb64": key, "signkey": key, "signts": "{TS}", "signmeth": method,
         "signpath": _unescape(path), "signquery": query, "signbody": "{SENT}", "sigraw": None,
         "b64cands": [""], "secretcands": [], "framing": _framing(rng), "bodygen": 0, "bodynl": 0,
         # generator's description of the request, for the Spec
         "intent": {"wellformed": True, "fp": fp, "type": 0, "variant": "valid"}}
    r = rng.random()
    if r < 0.3:
        xp, xq = rng.choice(["/real/path", "/x%0Ay", "/"]), rng.choice(QUERIES)
        c["xuri"] = xp + ("?" + xq if xq else "")
        c["signpath"], c["signquery"] = _unescape(xp), xq
    elif r < 0.36:
        c["xuri"] = rng.choice(["%zz", ":bad", "http://[::1"])   # url.Parse fails: falls back to the request URL
    return c


FRAMINGS = ["declared", "unknown", "chunked", "server"]


def _framing(rng):
    """how the body length reaches the server: Content-Length (handler called directly / through a real server),
    unknown length (ContentLength -1: opaque reader / chunked transfer through a real server)"""
    r = rng.random()
    return "declared" if r < 0.5 else ("unknown" if r < 0.68 else ("chunked" if r < 0.88 else "server"))


def _unescape(p):
    return re.sub(r"%([0-9A-Fa-f]{2})", lambda m: chr(int(m.group(1), 16)), p)


SIG_VARIANTS = ["valid", "valid", "valid", "pct-valid", "pct-valid", "t-escape", "t-escape", "t-ts", "t-method", "t-path", "t-query", "t-body", "t-body", "t-body-empty", "t-body-empty",
                "empty-body", "t-key", "routed-path",
                "off-in", "off-edge", "off-out-past", "off-out-future", "off-out-future", "ts-extreme", "ts-far", "ts-far", "ts-junk", "corrupt", "unknown-fp", "hdr-missing",
                "hdr-shape", "hdr-dup", "plain-defect", "sig-junk", "other-method", "enc-ok", "enc-bad", "junk-secret"]


def gen_sig(rng, variant=None):
    c = _sig_base(rng)
    v = variant or rng.choice(SIG_VARIANTS)
    if v == "valid" and rng.random() < 0.4:
        k = rng.choice(LONG_KEYS)
        c["plain"] = c["plain"].replace(c["keyb64"], k)
        c["keyb64"] = c["signkey"] = k
    it = c["intent"]
    it["variant"] = v
    tol = c["tol"]
    if v == "t-ts":
        c["signts"] = rng.choice(["1{TS}", "{TS}0", "0"])
    elif v == "t-method":
        c["signmeth"] = rng.choice([m for m in ["GET", "POST", "PUT", "DELETE"] if m != c["method"]])
    elif v == "t-path":
        c["signpath"] = c["signpath"] + rng.choice(["x", "/", "\n"])
    elif v == "t-query":
        c["signquery"] = rng.choice([c["signquery"] + "&t=1", "", "x=2"]) if c["signquery"] not in ("", "x=2") else c["signquery"] + "&t=1"
    elif v in ("pct-valid", "t-escape"):
        # percent-escapes in the signed content (raw query and, decoded, the path); t-escape: a digit inside one escape of the
        # query is altered after signing
        q = rng.choice(PCT_QUERIES)
        path = rng.choice(["/lit%25d", "/p%2Fq", "/x%25%21s", "/plain"])
        c["xuri"] = ""
        c["target"] = "http://localhost" + path + "?" + q
        c["signpath"], c["signquery"] = _unescape(path), q
        if v == "t-escape":
            i = [m.start() for m in re.finditer(r"%[0-9A-Fa-f]{2}", q)]
            k = rng.choice(i)
            d = q[k + 2]
            sent = q[:k + 2] + ("1" if d != "1" else "2") + q[k + 3:]
            c["target"] = "http://localhost" + path + "?" + sent
    elif v == "t-body":
        if c["body"] == "" and rng.random() < 0.7:
            c["body"] = rng.choice(BODIES[1:])
        c["signbody"] = c["body"] + "!"
    elif v == "t-body-empty":
        # replay with a forged body: the signature was computed for the EMPTY body, a non-empty one is sent
        if c["body"] == "":
            c["body"] = rng.choice(BODIES[1:])
        c["signbody"] = ""
    elif v == "empty-body":
        # declared 0 / no body at all, correctly signed
        c["body"] = ""
    elif v == "t-key":
        c["signkey"] = rng.choice([k for k in KEYS + LONG_KEYS if k != c["keyb64"]])
    elif v == "routed-path":
        # X-Request-Uri present: the routed path differs from the signed one, still accepted (recorded note)
        c["xuri"] = "/signed/path?s=1"
        c["signpath"], c["signquery"] = "/signed/path", "s=1"
    elif v == "off-in":
        c["tsoff"] = rng.choice([-1, 1]) * max(0, tol - rng.choice([5, 6, 9]))
    elif v == "off-edge":
        c["tsoff"] = rng.choice([-1, 1]) * (tol + rng.choice([-1, 0, 1]))
    elif v in ("off-out-past", "off-out-future"):
        c["tsoff"] = (1 if v == "off-out-future" else -1) * (tol + rng.choice([5, 6, 60, 86400]))
    elif v == "ts-far":
        # correctly signed, the clock offset is astronomically large: multiples of 2^55 s are multiples of 2^64 ns, so any
        # comparison done in nanoseconds (time.Duration) wraps to a small value; the int64 seconds test must still refuse
        big = 2 ** 55
        c["tsoff"] = rng.choice([1, -1]) * rng.choice([big, big + 17, big - 3, 3 * big, 3 * big + 5, 2 * big, 2 ** 56 + 1, 2 ** 61])
    elif v == "ts-extreme":
        c["tsoff"] = None
        c["tsraw"] = rng.choice(["9223372036854775807", "-9223372036854775808", "9223372036854775808", "-1", "0", "-1700000000",
                                 "9223372036854775000", "-9223372036854775000", "18446744073709551616", "+5", "-36028797018963968",
                                 "9223372036854775807", "-9223372036854775808"])
    elif v == "ts-junk":
        c["tsoff"] = None
        c["tsraw"] = rng.choice(["12x", "", "abc", "1e9", "0x10", "1_000", "--1", "+", "1.5"])
    elif v == "corrupt":
        c["corrupt"] = True
        it["wellformed"] = False
    elif v == "unknown-fp":
        c["header"] = H_OK.replace("{FP}", "fp-9")
        it["fp"] = "fp-9"
    elif v == "hdr-missing":
        fp = it["fp"]
        c["header"] = rng.choice(["fingerprint=%s; secret={SECRET}" % fp, "fingerprint=%s; signature={SIG}" % fp,
                                  "secret={SECRET}; signature={SIG}", "", "abc", "fingerprint=; secret={SECRET}; signature={SIG}",
                                  "fingerprint=%s; secret={SECRET}; signature=" % fp, ";;;", "fingerprint secret signature"])
        if c["header"] == "" and rng.random() < 0.5:
            c["noheader"] = True
        it["wellformed"] = False
    elif v == "hdr-shape":
        fp = it["fp"]
        c["header"] = rng.choice(["fingerprint=%s;secret={SECRET};signature={SIG}" % fp,
                                  "signature={SIG}; foo=bar; secret={SECRET}; fingerprint=%s" % fp,
                                  "  fingerprint=%s ;\tsecret={SECRET} ;  signature={SIG};" % fp,
                                  "fingerprint=%s; secret={SECRET}; signature={SIG}; novalue; =x" % fp])
    elif v == "hdr-dup":
        fp = it["fp"]
        c["header"] = rng.choice(["fingerprint=fp-9; fingerprint=%s; secret={SECRET}; signature={SIG}" % fp,
                                  "fingerprint=%s; secret={SECRET}; signature={SIG}; fingerprint=fp-9" % fp,
                                  "fingerprint=%s; secret={SECRET}; signature=AAAA; signature={SIG}" % fp,
                                  "fingerprint=%s; secret={SECRET}; signature={SIG}; signature=AAAA" % fp])
        it["skip"] = True
    elif v == "plain-defect":
        k = c["keyb64"]
        d = rng.choice(["notype", "badtype", "badkey", "notime", "nokey"])
        if d == "notype":
            c["plain"] = "key=%s; time={TS}" % k
            it["wellformed"] = False
        elif d == "badtype":
            c["plain"] = "key=%s; time={TS}; type=abc" % k
            it["wellformed"] = False
        elif d == "badkey":
            c["plain"] = "key=!!!; time={TS}; type=0"
            c["keyb64"] = "!!!"
            it["wellformed"] = False
        elif d == "notime":
            c["plain"] = "key=%s; type=0" % k
            it["notime"] = True
        else:
            # no key attribute: the HMAC key is the empty string; the client signs with it
            c["plain"] = "time={TS}; type=0"
            c["keyb64"] = ""
            c["signkey"] = ""
    elif v == "sig-junk":
        c["sigraw"] = rng.choice(["garbage", "AAAA", "bm90IGEgbWFj"])
    elif v == "other-method":
        c["method"] = rng.choice(["PATCH", "HEAD", "OPTIONS", "get", "TRACE"])
        c["signmeth"] = rng.choice([c["method"], "GET"])
        if rng.random() < 0.5:
            c["noheader"] = True
    elif v in ("enc-ok", "enc-bad"):
        c["plain"] = "key=%s; time={TS}; type=1" % c["keyb64"]
        it["type"] = 1
        c["keyb64"] = c["signkey"] = KEYS[0] if rng.random() < 0.5 else KEYS[1]   # AES key sizes 32 / 16
        c["plain"] = "key=%s; time={TS}; type=1" % c["keyb64"]
        if c["body"] == "":
            c["body"] = "secret payload"
        c["encbody"] = v == "enc-ok"
    elif v == "junk-secret":
        c["header"] = "fingerprint=%s; secret=QUJD; signature={SIG}" % it["fp"]
        c["secretcands"] = ["QUJD"]
        it["wellformed"] = False
    return c


APPS = ["app-a", "app-b", "app-c"]
TOKS = ["t-one", "t-two", "t-three"]


def gen_rpc(rng):
    ops = []
    down = False
    fails = 0
    for _ in range(rng.randint(3, 14)):
        r = rng.random()
        if r < 0.22 and not down:
            ops.append({"op": "set", "app": rng.choice(APPS), "token": rng.choice(TOKS + [""] if rng.random() < 0.1 else TOKS)})
        elif r < 0.28 and not down:
            ops.append({"op": "del", "app": rng.choice(APPS)})
        elif r < 0.36:
            ops.append({"op": "up" if down else "down"})
            down = not down
        else:
            if down:
                if fails >= 4:
                    ops.append({"op": "up"})
                    down = False
                else:
                    fails += 1
            m = rng.random()
            op = {"op": "call", "nomd": False, "apps": [rng.choice(APPS)], "tokens": [rng.choice(TOKS)]}
            if m < 0.06:
                op["nomd"] = True
            elif m < 0.1:
                op["apps"] = None
            elif m < 0.14:
                op["tokens"] = None
            elif m < 0.17:
                op["apps"] = []
            elif m < 0.2:
                op["tokens"] = [""]
            elif m < 0.23:
                op["apps"] = ["", rng.choice(APPS)]
            elif m < 0.3:
                op["apps"] = [rng.choice(APPS), rng.choice(APPS)]
                op["tokens"] = [rng.choice(TOKS), rng.choice(TOKS)]
            ops.append(op)
    if not any(o["op"] == "call" for o in ops):
        ops.append({"op": "call", "nomd": False, "apps": [APPS[0]], "tokens": [TOKS[0]]})
    return {"kind": "rpc", "strict": rng.random() < 0.5, "ops": ops}


def gen_grp(rng):
    """2-3 signature-protected route groups on one engine, each with its own fingerprint -> key table (fingerprints
    may repeat ACROSS groups with different keys), strictness and tolerance; requests for each (fp, key) pair in use
    are sent to every group"""
    ng = rng.choice([2, 2, 3])
    fps = ["fp-a", "fp-b", "fp-c"]
    groups = []
    for _ in range(ng):
        nk = rng.choice([1, 1, 2])
        gfps = rng.sample(fps, nk)
        groups.append({"strict": rng.random() < 0.8, "tol": rng.choice([0, 0, 1, 10, 100, 600, 3600]),   # SignatureConfig.Expire built in code
                       "keys": [{"fp": f, "key": rng.randrange(3)} for f in gfps],
                       "methods": rng.choice([["GET"], ["GET"], ["POST"], ["GET", "POST"], ["POST", "GET", "PUT", "DELETE"]])})
    pairs = sorted({(k["fp"], k["key"]) for g in groups for k in g["keys"]})
    pairs += [(rng.choice(fps), rng.randrange(3))]
    reqs = []
    for fp, key in pairs:
        for gi in range(ng):
            t = rng.random()
            reqs.append({"group": gi, "fp": fp, "enckey": key, "hmackey": rng.choice(KEYS),
                         "tsoff": rng.choice([0, 0, 0, 0, -1, -2, -2, 2, 50, -50, 700, -1800, -1800, -3700]),
                         "method": rng.choice(["POST", "POST", "GET", "PUT", "DELETE"]),
                         "query": rng.choice(["", "x=1", "a=1&b=2"]), "body": rng.choice(["", "hi", "payload-1"]),
                         "tamper": "" if t < 0.85 else rng.choice(["body", "query"])})
    for r_ in reqs:
        r_["method"] = rng.choice(groups[r_["group"]]["methods"]) if rng.random() < 0.85 else r_["method"]
    # the method dimension: UNSIGNED requests with every method on every group's route
    fp0, key0 = pairs[0]
    for gi in range(ng):
        for m in ["HEAD", "OPTIONS", "PATCH", "TRACE", "GET", "POST", "PUT", "DELETE"]:
            reqs.append({"group": gi, "fp": fp0, "enckey": key0, "hmackey": KEYS[0], "tsoff": 0, "method": m, "query": "",
                         "body": "", "tamper": "", "nosig": True})
    rng.shuffle(reqs)
    return {"kind": "grp", "chain": rng.random() < 0.5, "groups": groups, "reqs": reqs}


METHODS = ["/pkg.Svc/Do", "/a.b.c.Deep/Call", "/x.Y/Check", "/x.Y/Watch", "/grpc.health.v1.Health/Check",
           "/grpc.health.v1.Health/Watch", "", "/", "noslash", "/grpc.reflection.v1alpha.ServerReflection/ServerReflectionInfo"]


def gen_rpci(rng):
    c = gen_rpc(rng)
    c["kind"] = "rpci"
    for op in c["ops"]:
        if op["op"] == "call":
            op["mode"] = rng.choice(["unary", "stream"])
            op["method"] = rng.choice(METHODS)
    return c


def _secret_of_len(rng, n, tag):
    alphabet = "abcdefghijklmnopqrstuvwxyzABCDEFGHIJKLMNOPQRSTUVWXYZ0123456789-_"
    return (tag + "".join(rng.choice(alphabet) for _ in range(n)))[:n] if n > 0 else ""


def gen_ejwt(rng):
    """JWT-protected route groups configured through the public route options on one engine: WithJwt(secret),
    WithJwtTransition(secret, prev) with previous secrets of EVERY length (0 = no transition, 1..7, longer), unprotected
    groups, and a few current secrets below 8 bytes (the option panics); tokens signed with each secret in play"""
    groups = []
    for gi in range(rng.choice([2, 3, 4])):
        r = rng.random()
        slen = rng.choice([8, 9, 16, 32, 40]) if rng.random() < 0.92 else rng.choice([0, 1, 5, 7])
        secret = _secret_of_len(rng, slen, "c%d" % gi)
        if r < 0.1:
            groups.append({"opt": "none", "secret": "", "prev": ""})
        elif r < 0.3:
            groups.append({"opt": "jwt", "secret": secret, "prev": ""})
        else:
            plen = rng.choice([0, 1, 2, 3, 4, 5, 6, 7, 1, 3, 7, 8, 12, 33])
            groups.append({"opt": "transition", "secret": secret, "prev": _secret_of_len(rng, plen, "p%d" % gi)})
    secrets = sorted({x for g in groups for x in (g["secret"], g["prev"]) if x} | {"stranger-secret"})
    tokens = []
    for sct in secrets:
        tokens.append({"alg": rng.choice(["HS256", "HS256", "HS384", "HS512"]), "secret": sct, "claims": {"uid": len(tokens)},
                       "exp": 3600, "nbf": None, "iat": None, "mangle": "", "raw": "", "cut": 0})
    tokens.append({"alg": "HS256", "secret": secrets[0], "claims": {}, "exp": -3600, "nbf": None, "iat": None, "mangle": "", "raw": "", "cut": 0})
    tokens.append({"alg": "none", "secret": secrets[0], "claims": {}, "exp": 3600, "nbf": None, "iat": None, "mangle": "", "raw": "", "cut": 0})
    live = [gi for gi, g in enumerate(groups) if g["opt"] == "none" or len(g["secret"]) >= 8]
    reqs = []
    for gi in live:
        for ti in range(len(tokens)):
            reqs.append({"group": gi, "tok": ti, "scheme": "Bearer "})
        reqs.append({"group": gi, "tok": -1, "scheme": ""})
    for _ in range(rng.randint(0, 12)):
        if live:
            reqs.append({"group": rng.choice(live), "tok": rng.randrange(len(tokens)), "scheme": rng.choice(["Bearer ", "bearer ", ""])})
    rng.shuffle(reqs)
    return {"kind": "ejwt", "chain": rng.random() < 0.5, "groups": groups, "secrets": secrets, "tokens": tokens, "reqs": reqs}


def gen_rpc_outage(rng):
    """a LONG store outage (the store answers every command with an error): hundreds of lookups from uncached apps, far more than the
    redis handle's breaker tolerates, so that later answers come from the breaker (ErrServiceUnavailable) instead of the redis error;
    every uncached app is rejected (Internal) in strict mode / served in lax mode throughout; cached apps keep their verdicts"""
    known = ["live-%d" % i for i in range(6)]
    ops = [{"op": "set", "app": a, "token": "tok-" + a} for a in known]
    ops.append({"op": "call", "nomd": False, "apps": [known[0]], "tokens": ["tok-" + known[0]]})      # cached before the outage
    ops.append({"op": "seterr"})
    ops.append({"op": "call", "nomd": False, "apps": [known[1]], "tokens": ["tok-" + known[1]]})
    ops.append({"op": "flood", "app": "during-", "token": rng.choice(["x", "tok-live-2"]), "n": rng.choice([400, 600])})
    for a in known[2:]:
        ops.append({"op": "call", "nomd": False, "apps": [a], "tokens": [rng.choice(["tok-" + a, "forged"])]})
    ops.append({"op": "call", "nomd": False, "apps": [known[0]], "tokens": ["tok-" + known[0]]})
    ops.append({"op": "call", "nomd": False, "apps": [known[0]], "tokens": ["forged"]})
    ops.append({"op": "flood", "app": "later-", "token": "x", "n": 50})
    return {"kind": "rpc", "strict": rng.random() < 0.6, "ops": ops}


def gen_rpc_flood(rng):
    """thousands of calls for apps without a stored token against a healthy store, then verdicts on fresh known apps"""
    known = ["known-%d" % i for i in range(rng.choice([6, 8, 10]))]
    ops = [{"op": "set", "app": a, "token": "tok-" + a} for a in known]
    pre = rng.random() < 0.5
    if pre:
        ops.append({"op": "call", "nomd": False, "apps": [known[0]], "tokens": ["tok-" + known[0]]})
    ops.append({"op": "flood", "app": "ghost-", "token": rng.choice(["x", "tok-known-1"]), "n": rng.choice([1500, 3000, 4000])})
    later = known[1:]
    rng.shuffle(later)
    for i, a in enumerate(later):
        ops.append({"op": "call", "nomd": False, "apps": [a], "tokens": ["tok-" + a if i % 2 == 0 else "forged"]})
    ops.append({"op": "call", "nomd": False, "apps": ["never-stored"], "tokens": ["x"]})
    return {"kind": "rpc", "strict": rng.random() < 0.5, "ops": ops}


def gen_rpcs(rng):
    """a real rpc server (built-in chain with the breaker in front of the authorize interceptors): an app is hammered with
    wrong / missing tokens on one method (several hundred Unauthenticated answers inside the breaker window), then correct
    app/token pairs call the same methods"""
    known = ["svc-%d" % i for i in range(rng.choice([4, 6]))]
    ops = [{"op": "set", "app": a, "token": "tok-" + a} for a in known]
    ops.append({"op": "call", "mode": "unary", "nomd": False, "apps": [known[0]], "tokens": ["tok-" + known[0]]})
    modes = rng.choice([["unary"], ["stream"], ["unary", "stream"]])
    for mode in modes:
        kind = rng.choice(["wrong", "wrong", "nomd", "empty"])
        n = rng.choice([300, 500, 800])
        if kind == "wrong":
            ops.append({"op": "burst", "mode": mode, "nomd": False, "apps": [rng.choice(known)], "tokens": ["forged"], "n": n})
        elif kind == "nomd":
            ops.append({"op": "burst", "mode": mode, "nomd": True, "n": n})
        else:
            ops.append({"op": "burst", "mode": mode, "nomd": False, "apps": [rng.choice(known)], "tokens": [""], "n": n})
    for a in known:
        for mode in ("unary", "stream"):
            ops.append({"op": "call", "mode": mode, "nomd": False, "apps": [a], "tokens": ["tok-" + a]})
    ops.append({"op": "call", "mode": rng.choice(modes), "nomd": False, "apps": [known[1]], "tokens": ["forged"]})
    return {"kind": "rpcs", "strict": rng.random() < 0.5, "ops": ops}


def gen_rpcn(rng):
    """rpc.NewServer(ServerConfig{Auth, StrictControl, Redis}): the whole matrix {stored / not stored / outage} x {right / wrong /
    missing token} on fresh apps, unary and stream"""
    apps = ["cfg-%d" % i for i in range(12)]
    it = iter(apps)
    ops = []
    stored = [next(it) for _ in range(4)]
    for a in stored:
        ops.append({"op": "set", "app": a, "token": "tok-" + a})
    mode = lambda: rng.choice(["unary", "stream"])
    calls = [{"op": "call", "mode": mode(), "nomd": False, "apps": [stored[0]], "tokens": ["tok-" + stored[0]]},
             {"op": "call", "mode": mode(), "nomd": False, "apps": [stored[1]], "tokens": ["forged"]},
             {"op": "call", "mode": mode(), "nomd": False, "apps": [stored[2]], "tokens": None},
             {"op": "call", "mode": mode(), "nomd": False, "apps": [next(it)], "tokens": ["tok-x"]},       # no stored token
             {"op": "call", "mode": mode(), "nomd": False, "apps": [next(it)], "tokens": [""]},
             {"op": "call", "mode": mode(), "nomd": True}]
    rng.shuffle(calls)
    ops += calls
    ops.append({"op": "down"})
    ops += [{"op": "call", "mode": mode(), "nomd": False, "apps": [stored[3]], "tokens": ["tok-" + stored[3]]},   # outage, not cached
            {"op": "call", "mode": mode(), "nomd": False, "apps": [next(it)], "tokens": ["forged"]},
            {"op": "call", "mode": mode(), "nomd": False, "apps": [stored[0]], "tokens": ["tok-" + stored[0]]}]   # cached before
    ops.append({"op": "up"})
    ops.append({"op": "call", "mode": mode(), "nomd": False, "apps": [stored[3]], "tokens": ["tok-" + stored[3]]})
    return {"kind": "rpcn", "auth": rng.random() < 0.75, "strict": rng.random() < 0.5, "proxy": False, "ops": ops}


def gen_rpc_proxy(rng):
    """one rpc.Proxy in front of an auth-enabled backend: for several apps a correctly authenticated call, then the SAME app with a
    wrong token, an empty token, the right token again, another app's token -- all through the same proxy"""
    apps = ["px-%d" % i for i in range(4)]
    ops = [{"op": "set", "app": a, "token": "tok-" + a} for a in apps]
    for a in apps[:3]:
        seq = [["tok-" + a], ["forged"], ["tok-" + a], ["tok-" + apps[3]], [""], ["tok-" + a]]
        if rng.random() < 0.5:
            seq = [["forged"]] + seq
        for tk in seq:
            ops.append({"op": "call", "mode": "unary", "nomd": False, "apps": [a], "tokens": tk})
    ops.append({"op": "call", "mode": "unary", "nomd": True})
    ops.append({"op": "call", "mode": "unary", "nomd": False, "apps": ["px-unknown"], "tokens": ["x"]})
    return {"kind": "rpcn", "auth": True, "strict": rng.random() < 0.7, "proxy": True, "ops": ops}


def generate(rng, tier, n):
    cases = []
    if tier != "search":
        for strict in (True, False):
            c = gen_rpc_proxy(rng)
            c["strict"] = strict
            cases.append(c)
        for chain in (True, True):
            c = gen_grp(rng)
            c["chain"] = chain
            cases.append(c)
            c = gen_ejwt(rng)
            c["chain"] = chain
            cases.append(c)
        cases.append(gen_jwt_algs(rng))
        for strict in (True, False):
            c = gen_rpc_outage(rng)
            c["strict"] = strict
            cases.append(c)
        # the four (Auth, StrictControl) configurations through rpc.NewServer, every run
        for auth in (True, False):
            for strict in (True, False):
                c = gen_rpcn(rng)
                c["auth"], c["strict"] = auth, strict
                cases.append(c)
    if tier == "thorough":
        # every single-field tampering (and the untouched original) of 200 base requests, strict mode
        import random
        for _ in range(200):
            seed = rng.getrandbits(48)
            for v in ["valid", "t-ts", "t-method", "t-path", "t-query", "t-body", "t-body-empty", "t-key"]:
                c = gen_sig(random.Random(seed), v)
                c["strict"] = True
                cases.append(c)
        for _ in range(60):
            seed = rng.getrandbits(48)
            for fr in FRAMINGS:
                for v in ["valid", "t-body", "t-body-empty", "empty-body", "enc-ok"]:
                    c = gen_sig(random.Random(seed), v)
                    c["strict"], c["framing"] = True, fr
                    cases.append(c)
    for _ in range(n):
        r = rng.random()
        if r < 0.2:
            cases.append(gen_parser(rng))
        elif r < 0.4:
            cases.append(gen_jwt(rng))
        elif r < 0.76:
            cases.append(gen_sig(rng))
        elif r < 0.82:
            cases.append(gen_grp(rng))
        elif r < 0.875:
            cases.append(gen_ejwt(rng))
        elif r < 0.895:
            cases.append(rng.choice([gen_rpc_flood, gen_rpcs, gen_rpc_outage])(rng))
        elif r < 0.91:
            cases.append(gen_rpcn(rng))
        elif r < 0.93:
            cases.append(gen_rpc(rng))
        else:
            cases.append(gen_rpci(rng))
    return cases


def search(rng, problems):
    """directed cases: every signed-request variant twice in strict mode, prev-secret histories, RPC mismatches."""
    out = []
    for v in sorted(set(SIG_VARIANTS)):
        for _ in range(3):
            c = gen_sig(rng, v)
            c["strict"] = True
            out.append(c)
    for fr in FRAMINGS:
        for v in ["valid", "t-body", "t-body-empty", "empty-body", "enc-ok", "enc-bad"]:
            for _ in range(3):
                c = gen_sig(rng, v)
                c["strict"], c["framing"] = True, fr
                out.append(c)
    for _ in range(30):
        c = gen_jwt(rng)
        c["secret"], c["prev"] = SECRETS[0], SECRETS[1]
        out.append(c)
        p = gen_parser(rng)
        p["secret"], p["prev"] = SECRETS[0], SECRETS[1]
        out.append(p)
    for auth in (True, False):
        for strict in (True, False):
            for _ in range(2):
                c = gen_rpcn(rng)
                c["auth"], c["strict"] = auth, strict
                out.append(c)
    for v in ("pct-valid", "t-escape", "ts-far", "ts-extreme"):
        for _ in range(8):
            c = gen_sig(rng, v)
            c["strict"] = True
            out.append(c)
    for _ in range(6):
        out.append(gen_rpcs(rng))
    for k in LONG_KEYS:
        for v in ("valid", "valid", "t-body"):
            c = gen_sig(rng, v)
            c["strict"] = True
            c["plain"] = c["plain"].replace(c["keyb64"], k)
            c["keyb64"] = c["signkey"] = k
            out.append(c)
    for _ in range(20):
        out.append(gen_ejwt(rng))
    for _ in range(3):
        out.append(gen_rpc_proxy(rng))
    for _ in range(3):
        out.append(gen_jwt_algs(rng))
    for strict in (True, True, False):
        c = gen_rpc_outage(rng)
        c["strict"] = strict
        out.append(c)
    for strict in (False, True, False, True):
        c = gen_rpc_flood(rng)
        c["strict"] = strict
        out.append(c)
    for _ in range(25):
        out.append(gen_grp(rng))
        out.append(gen_rpci(rng))
    for _ in range(25):
        # one token through one instance while the clock passes its exp / reaches its nbf
        c = gen_jwt(rng)
        c["secret"], c["prev"] = SECRETS[0], rng.choice(["", SECRETS[1]])
        c["tokens"] = [{"alg": "HS256", "secret": SECRETS[0], "claims": {"uid": 1}, "exp": 100, "nbf": rng.choice([None, 40]),
                        "iat": None, "mangle": "", "raw": "", "cut": 0}]
        c["reqs"] = [{"tok": 0, "scheme": "Bearer ", "advance": 0, "jadv": j} for j in [0, 0, 30, 30, 30, 30, 0, 3000]]
        c["probe"] = sorted(REGISTERED + ["uid"])
        out.append(c)
    for strict in (False, True):
        out.append({"kind": "rpci", "strict": strict, "ops": [
            {"op": "set", "app": "app-a", "token": "t-one"}] + [
            {"op": "call", "mode": mode, "method": m, "nomd": False, "apps": ["app-a"], "tokens": [tk]}
            for m in METHODS for mode in ("unary", "stream") for tk in ("t-two", "t-one")][:40] + [
            {"op": "call", "mode": "unary", "method": "/grpc.health.v1.Health/Check", "nomd": True}]})
    for strict in (False, True):
        out.append({"kind": "rpc", "strict": strict, "ops": [
            {"op": "set", "app": "app-a", "token": "t-one"},
            {"op": "call", "nomd": False, "apps": ["app-a"], "tokens": ["t-two"]},
            {"op": "call", "nomd": False, "apps": ["app-a"], "tokens": ["t-one"]},
            {"op": "call", "nomd": False, "apps": ["app-b"], "tokens": ["t-one"]},
            {"op": "call", "nomd": True}]})
    return out


# ------------------------------------------------------------------------------------------- driver
def drive(cases, tier):
    obs = [None] * len(cases)
    logs = []
    by_pkg = {}
    for i, c in enumerate(cases):
        by_pkg.setdefault(PKGS[c["kind"]], []).append(i)
    for (pkg, run), idx in sorted(by_pkg.items()):
        sub = [cases[i] for i in idx]
        name = "C04_%s_%s%s" % (tier[0], pkg.strip("./").replace("/", "_"), "_c04" if "C04" in run else "")
        o, lg = vlib.run_driver(pkg, sub, name=name, timeout=DRIVER_TIMEOUT, run=run)
        logs.append(lg[-2000:])
        if o is None:
            return None, "\n".join(logs)
        for i, x in zip(idx, o):
            obs[i] = x
    for i, o in enumerate(obs):
        # a panic escaping the code under test is an observation (encoded as a failing case); a driver-side
        # error (bad case JSON, setup failure) is a broken run
        if not isinstance(o, dict) or "error" in o:
            return None, "driver reported an error on case %d: %r\n%s" % (i, o, "\n".join(logs))
    return obs, "\n".join(logs)


# ------------------------------------------------------------------------------------------- encoding
def B(s):
    return cbytes(s.encode("utf-8"))


def optB(o):
    return copt(cbytes(base64.b64decode(o["val"])) if o["ok"] else None)


class Intern:
    def __init__(self):
        self.m = {}

    def __call__(self, s):
        if s not in self.m:
            self.m[s] = len(self.m) + 1
        return self.m[s]


def _verdict(v, intern):
    if v["err"]:
        return "JErr"
    claims = []
    for k in sorted((v.get("claims") or {}).keys()):
        claims.append(cpair(cstr(k), cN(intern(v["claims"][k]))))
    return "(JTok %s %s %s)" % (cbool(v["valid"]), cbool(v["ismap"]), clist(claims))


def _jtable(obs, intern):
    rows = []
    for ti, per_t in enumerate(obs["oracle"]):
        for hi, per in enumerate(per_t):
            for s in SECRETS:
                rows.append(cpair(cpair(cpair(cN(ti), cN(SID[s])), cN(hi + 1)), _verdict(per[s], intern)))
    return clist(rows)


def enc_parser(case, obs):
    intern = Intern()
    rows = []
    for r in obs["rows"]:
        counts = clist([cpair(cN(SID[x["secret"]]), cN(x["count"])) for x in r["counts"]])
        rows.append("(mkprow %s %s %s %s %s %s)" % (cZ(r["now"]), cZ(r["jt"]), cN(r["header"] + 1), cbool(r["ok"]), cbool(r["valid"]), counts))
    return "CParser (mkpc %s %s %s %s %s %s %s)" % (
        cN(SID[case["secret"]]), cN(SID[case["prev"]]), cZ(obs["reset_time"]), cZ(obs["reset_dur"]),
        cbool(case["reset"] is None), _jtable(obs, intern), clist(rows))


def enc_jwt(case, obs):
    intern = Intern()
    table = _jtable(obs, intern)
    rows = []
    now = START_NS
    for rq, r in zip(case["reqs"], obs["rows"]):
        now += rq["advance"] * 10 ** 9
        ctx = clist([cpair(cstr(k), cN(intern(r["ctx"][k]))) for k in sorted(r["ctx"].keys())])
        exp = case["tokens"][rq["tok"]].get("expect", 0) if rq["tok"] >= 0 and rq["scheme"] == "Bearer " and rq.get("jadv", 0) == 0 else 0
        rows.append("(mkjrow %s %s %s %s %s %s %s %s)" % (cZ(now), cZ(r["jt"]), cN(r["header"] + 1), cZ(r["status"]), cbool(r["ran"]), ctx, cbool(r["cb"]), cN(exp)))
    cb = {"none": "CbNone", "observe": "CbSilent", "status": "(CbStatus 418%Z)"}[case["callback"]]
    return "CJwt (mkjc %s %s %s %s %s %s)" % (cN(SID[case["secret"]]), cN(SID[case["prev"]]), cb, cZ(START_NS), table, clist(rows))


def go_parse_int(s):
    if not re.fullmatch(r"[+-]?[0-9]+", s):
        return None
    v = int(s)
    return v if -2 ** 63 <= v < 2 ** 63 else None


def sig_intent(case, obs):
    """the request as its maker describes it: (decrypts, key bytes, ts text, ts value, enc, skip)"""
    it = case["intent"]
    wellformed = it["wellformed"] and not case["noheader"] and it["fp"] in case["decryptors"]
    try:
        key = base64.b64decode(case["keyb64"], validate=True)
    except Exception:
        key = b""
        wellformed = False
    ts_text = "" if it.get("notime") else obs["ts"]
    return wellformed, key, ts_text, go_parse_int(ts_text), it["type"] == 1 and obs["clen"] > 0, bool(it.get("skip"))


def enc_sig(case, obs):
    req = "(mkr %s %s %s %s %s %s %s)" % (B(obs["method"]), B(obs["path"]), B(obs["query"]), B(case["xuri"]),
                                          B("" if case["noheader"] else obs["header"]), B(obs["sentbody"]), cZ(obs["clen"]))
    rsa = clist([cpair(cbytes(base64.b64decode(r["block"])), optB(r["res"])) for r in obs["rsa"]])
    b64 = clist([cpair(B(r["text"]), optB(r["res"])) for r in obs["b64"]])
    mac = clist([cpair(cpair(cbytes(base64.b64decode(r["key"])), B(r["content"])), B(r["mac"])) for r in obs["mac"]])
    sha = clist([cpair(B(r["body"]), B(r["hex"])) for r in obs["sha"]])
    url = copt(cpair(B(obs["xpath"]), B(obs["xquery"])) if obs["xok"] else None)
    decrypts, key, ts_text, ts, enc, skip = sig_intent(case, obs)
    ep, eq = (obs["xpath"], obs["xquery"]) if obs["xok"] else (obs["path"], obs["query"])
    q = "(mkq %s %s %s %s %s %s %s %s %s)" % (cbool(decrypts), cbytes(key), B(ts_text), copt(None if ts is None else cZ(ts)),
                                             B(obs["sig"]), B(obs["method"]), B(ep), B(eq), B(obs["sentbody"]))
    hdr = {"": 0, "wrong-time": 1, "invalid": 2}.get(obs["sighdr"], 9)
    return "CSig (mksc %s %s %s %s %s %s %s %s %s %s %s %s %s %s %s %s %s %s %s %s %s)" % (
        cbool(case["strict"]), cZ(case["tol"]), cZ(obs["now0"]), cZ(obs["now1"]), clist([B(d) for d in case["decryptors"]]),
        req, rsa, "%d%%nat" % obs["rsak"], b64, mac, sha, url, {"ok": "DecOk", "err": "DecErr", "panic": "DecPanic"}[obs["decbody"]], q, cbool(enc), cbool(skip),
        cZ(obs["status"]), cbool(obs["ran"]), cN(hdr), cbool(obs["panic"]), cN(obs["seen"]))


def rpc_steps(case):
    """(down, store snapshot, op) for every call op"""
    store, down, out = {}, False, []
    for op in case["ops"]:
        k = op["op"]
        if k == "set":
            store[op["app"]] = op["token"]
        elif k == "del":
            store.pop(op["app"], None)
        elif k in ("down", "seterr"):
            down = True
        elif k in ("up", "clearerr"):
            down = False
        elif k == "call":
            out.append((down, dict(store), op))
    return out


def enc_ejwt(case, obs):
    sid = {"": 0}
    for x in case["secrets"]:
        sid[x] = len(sid)
    groups = []
    for g in case["groups"]:
        if g["opt"] == "none":
            groups.append("JNone")
        elif g["opt"] == "jwt":
            groups.append("(JJwt %s %s)" % (cN(sid[g["secret"]]), cZ(len(g["secret"].encode()))))
        else:
            groups.append("(JTransition %s %s %s %s)" % (cN(sid[g["secret"]]), cZ(len(g["secret"].encode())), cN(sid[g["prev"]]), cZ(len(g["prev"].encode()))))
    intern = Intern()
    table = []
    for hi, per in enumerate(obs["oracle"]):
        for x in case["secrets"]:
            table.append(cpair(cpair(cpair(cN(0), cN(sid[x])), cN(hi + 1)), _verdict(per[x], intern)))
    rows = ["(mker %d%%nat %s %s %s)" % (rq["group"], cN(r["header"] + 1), cZ(r["status"]), cbool(r["ran"]))
            for rq, r in zip(case["reqs"], obs["rows"])]
    return "CEJwt (mkej %s %s %s %s)" % (clist(groups), clist([cbool(b) for b in obs["confpanic"]]), clist(table), clist(rows))


def enc_rpcf(case, obs):
    """an RPC history containing flood ops"""
    ids = {"": 0}

    def sid(s):
        if s not in ids:
            ids[s] = len(ids)
        return ids[s]
    store, down, ops = {}, False, []
    rows = iter(obs["rows"])
    base = 1000000
    for op in case["ops"]:
        k = op["op"]
        if k == "set":
            store[op["app"]] = op["token"]
        elif k == "del":
            store.pop(op["app"], None)
        elif k in ("down", "seterr"):
            down = True
        elif k in ("up", "clearerr"):
            down = False
        elif k == "flood":
            row = next(rows)
            hist = row["flood"]
            code = int(next(iter(hist))) if len(hist) == 1 else -2     # not uniform: a code no model produces
            st = clist([cpair(cN(sid(a)), cN(sid(t))) for a, t in sorted(store.items())])
            ops.append("(OFlood %s %s %s %s %s %s)" % (cbool(down), cN(op["n"]), cN(base), cN(sid(op["token"])), st, cZ(code)))
            base += op["n"] + 10
        elif k in ("call", "burst"):
            row = next(rows)
            st = clist([cpair(cN(sid(a)), cN(sid(t))) for a, t in sorted(store.items())])
            if op.get("nomd"):
                md = "None"
            else:
                md = "(Some %s)" % cpair(clist([cN(sid(a)) for a in (op.get("apps") or [])]), clist([cN(sid(t)) for t in (op.get("tokens") or [])]))
            if k == "call":
                ops.append("(OCall (mkrs %s %s %s %s))" % (cbool(down), st, md, cZ(row["code"])))
            else:
                hist = row["burst"]
                code = int(next(iter(hist))) if len(hist) == 1 else -2
                ops.append("(OBurst %s (mkrs %s %s %s %s))" % (cN(op["n"]), cbool(down), st, md, cZ(code)))
    return "CRpcF (mkrf %s %s)" % (cbool(case["strict"]), clist(ops))


def enc_rpc(case, obs):
    if any(o["op"] == "flood" for o in case["ops"]):
        return enc_rpcf(case, obs)
    ids = {"": 0}

    def sid(s):
        if s not in ids:
            ids[s] = len(ids)
        return ids[s]
    steps = []
    for (down, store, op), row in zip(rpc_steps(case), obs["rows"]):
        st = clist([cpair(cN(sid(a)), cN(sid(t))) for a, t in sorted(store.items())])
        if op.get("nomd"):
            md = "None"
        else:
            md = "(Some %s)" % cpair(clist([cN(sid(a)) for a in (op.get("apps") or [])]), clist([cN(sid(t)) for t in (op.get("tokens") or [])]))
        steps.append("(mkrs %s %s %s %s)" % (cbool(down), st, md, cZ(row["code"])))
    return "CRpc (mkrc %s %s)" % (cbool(case["strict"]), clist(steps))


def enc_grp(case, obs):
    groups = clist(["(mkg %s %s %s)" % (clist([cpair(B(k["fp"]), cN(k["key"])) for k in g["keys"]]), cbool(g["strict"]), cZ(g["tol"]))
                    for g in case["groups"]])
    reqs = []
    for rq, o in zip(case["reqs"], obs["rows"]):
        rsa = clist([cpair(cpair(cN(i), B(o["secret"])), optB(r)) for i, r in enumerate(o["rsa"])])
        key = base64.b64decode(o["keybytes"])
        req = "(mkr %s %s %s %s %s %s %s)" % (B(o["method"]), B(o["path"]), B(o["query"]), B(""), B(o["header"]), B(rq["body"]), cZ(o["clen"]))
        b64 = clist([cpair(B(rq["hmackey"]), copt(cbytes(key))), cpair(B(""), copt(cbytes(b"")))])
        mac = clist([cpair(cpair(cbytes(key), B(o["sentcontent"])), B(o["sentmac"])), cpair(cpair(cbytes(key), B(o["signcontent"])), B(o["signmac"]))])
        sha = clist([cpair(B(rq["body"]), B(o["sha"]))])
        ts = go_parse_int(o["ts"])
        q = "(mkq %s %s %s %s %s %s %s %s %s)" % (cbool(not rq.get("nosig")), cbytes(key), B(o["ts"]), copt(None if ts is None else cZ(ts)), B(o["sig"]),
                                                 B(o["method"]), B(o["path"]), B(o["query"]), B(rq["body"]))
        hdr = {"": 0, "wrong-time": 1, "invalid": 2}.get(o["sighdr"], 9)
        sig = "(mksc false 0%%Z %s %s [] %s [] 0%%nat %s %s %s None DecErr %s false false %s %s %s %s 0%%N)" % (
            cZ(o["now0"]), cZ(o["now1"]), req, b64, mac, sha, q, cZ(o["status"]), cbool(o["ran"]), cN(hdr), cbool(o["panic"]))
        meths = case["groups"][rq["group"]].get("methods") or ["POST", "GET", "PUT", "DELETE"]
        reqs.append("(mkgr %s %s %s %s %s %s)" % ("%d%%nat" % rq["group"], rsa, B(rq["fp"]), cN(rq["enckey"]), sig, clist([B(m) for m in meths])))
    return "CGrp (mkgc %s %s)" % (groups, clist(reqs))


def enc_rpcn(case, obs):
    ids = {"": 0}

    def sid(s):
        if s not in ids:
            ids[s] = len(ids)
        return ids[s]
    steps = []
    for (down, store, op), row in zip(rpc_steps(case), obs["rows"]):
        st = clist([cpair(cN(sid(a)), cN(sid(t))) for a, t in sorted(store.items())])
        if op.get("nomd"):
            md = "None"
        else:
            md = "(Some %s)" % cpair(clist([cN(sid(a)) for a in (op.get("apps") or [])]), clist([cN(sid(t)) for t in (op.get("tokens") or [])]))
        steps.append("(mkrs %s %s %s %s)" % (cbool(down), st, md, cZ(row["code"])))
    return "CRpcN (mkrn %s %s %s %s)" % (cbool(case["auth"]), cbool(case["strict"]), cbool(case.get("proxy", False)), clist(steps))


def enc_rpci(case, obs):
    ids = {"": 0}

    def sid(s):
        if s not in ids:
            ids[s] = len(ids)
        return ids[s]
    mids = {}
    steps = []
    for (down, store, op), row in zip(rpc_steps(case), obs["rows"]):
        st = clist([cpair(cN(sid(a)), cN(sid(t))) for a, t in sorted(store.items())])
        if op.get("nomd"):
            md = "None"
        else:
            md = "(Some %s)" % cpair(clist([cN(sid(a)) for a in (op.get("apps") or [])]), clist([cN(sid(t)) for t in (op.get("tokens") or [])]))
        m = mids.setdefault(op["method"], len(mids))
        steps.append("(mkis (mkrs %s %s %s %s) %s %s %s)" % (cbool(down), st, md, cZ(row["code"]),
                                                            "Stream" if op["mode"] == "stream" else "Unary", cN(m), cbool(row["ran"])))
    return "CRpcI (mkri %s %s)" % (cbool(case["strict"]), clist(steps))


# a gate that panics neither accepts nor refuses properly: encoded as a case both checkers reject
PANIC_TERM = "CRpc (mkrc true [mkrs false [] None (0)%Z])"


def encode(case, obs):
    if "driver_panic" in obs:
        return PANIC_TERM
    return {"parser": enc_parser, "jwt": enc_jwt, "sig": enc_sig, "rpc": enc_rpc, "grp": enc_grp, "rpci": enc_rpci, "ejwt": enc_ejwt, "rpcs": enc_rpcf, "rpcn": enc_rpcn}[case["kind"]](case, obs)


# ------------------------------------------------------------------------------------------- evidence
def nontrivial(case, obs):
    k = case["kind"]
    if "driver_panic" in obs:
        return False
    if k == "parser":
        oks = {r["ok"] for r in obs["rows"]}
        return len(oks) == 2
    if k == "jwt":
        rans = {r["ran"] for r in obs["rows"]}
        return len(rans) == 2
    if k == "sig":
        return case["method"] in ("GET", "POST", "PUT", "DELETE") and not case["noheader"] and case["intent"]["wellformed"]
    if k in ("grp", "ejwt"):
        return len({r["ran"] for r in obs["rows"]}) == 2
    if k in ("rpcs", "rpcn"):
        return True
    codes = {r["code"] == 0 for r in obs["rows"]}
    return len(codes) == 2


def bucket(case, obs):
    k = case["kind"]
    out = ["kind:" + k]
    if "driver_panic" in obs:
        return out + ["PANIC"]
    if k in ("parser", "jwt"):
        out.append("%s:prev=%s" % (k, "none" if case["prev"] == "" else ("same" if case["prev"] == case["secret"] else "other")))
        out.append("%s:len=%s" % (k, "1-5" if len(case["reqs"]) <= 5 else ("6-20" if len(case["reqs"]) <= 20 else "21-60")))
        contract = all((v["err"] or (v["valid"] and v["ismap"])) for per_t in obs["oracle"] for per in per_t for v in per.values())
        out.append("hyp:lib_contract" if contract else "hyp:LIB-CONTRACT-BROKEN")
        # a header whose verdict under the configured secrets changes with the clock during this history
        nt = len(obs["oracle"])
        out.append("%s:clock-readings=%s" % (k, "1" if nt == 1 else ("2-3" if nt <= 3 else "4+")))
        own = [x for x in (case["secret"], case["prev"]) if x]
        seen = {}
        for r in obs["rows"]:
            key = "ok" if k == "parser" else "ran"
            seen.setdefault(r["header"], set()).add(r[key])
        changing = [h for h, vs in seen.items() if len(vs) == 2]
        if changing:
            out.append("%s:same-token-accepted-and-refused-as-time-passes" % k)
        if k == "parser":
            if any(len(r["counts"]) == 2 for r in obs["rows"]):
                out.append("parser:both-secrets-counted")
            prevc = [len(r["counts"]) for r in obs["rows"]]
            if any(b < a for a, b in zip(prevc, prevc[1:])) or (case["reset"] is not None and any(rq["advance"] > case["reset"] for rq in case["reqs"])):
                out.append("parser:history-reset")
            for r in obs["rows"]:
                out.append("parser:" + ("accept" if r["ok"] else "refuse"))
        else:
            out.append("jwt:callback=" + case["callback"])
            for rq, r in zip(case["reqs"], obs["rows"]):
                if rq["tok"] >= 0 and "expect" in case["tokens"][rq["tok"]]:
                    t = case["tokens"][rq["tok"]]
                    who = "current" if t["secret"] == case["secret"] else ("previous" if t["secret"] == case["prev"] else "foreign")
                    out.append("jwt:alg=%s:%s%s:%d" % (t["alg"], who, ":expired" if (t["exp"] or 0) < 0 else "", r["status"]))
            for r in obs["rows"]:
                out.append("jwt:%d" % r["status"])
            # bearer-less but valid header accepted (recorded note)
            for rq, r in zip(case["reqs"], obs["rows"]):
                if r["ran"] and rq["scheme"] == "":
                    out.append("note:accepted-without-Bearer-prefix")
    elif k == "sig":
        out.append("sig:" + case["intent"]["variant"])
        if "%" in obs["sentcontent"].replace("%0A", ""):
            out.append("sig:percent-in-content:%s:%d" % ("strict" if case["strict"] else "lax", obs["status"]))
        out.append("sig:%s:%d%s" % ("strict" if case["strict"] else "lax", obs["status"], "" if obs["ran"] else ":blocked"))
        out.append("sig:framing=%s:clen=%s%s" % (case.get("framing", "declared"), "-1" if obs["clen"] < 0 else ("0" if obs["clen"] == 0 else ">0"),
                                               ":chunked" if obs.get("chunked") else ""))
        if case["intent"]["variant"] in ("valid", "t-body", "t-body-empty", "empty-body", "enc-ok"):
            out.append("sig:body:%s:%s:%s" % (case["intent"]["variant"], case.get("framing", "declared"), obs["status"]))
        if obs["panic"]:
            out.append("sig:GATE-PANIC")
        nblocks = len(obs["rsa"])
        plen = len(obs["plain"])
        out.append("sig:secret-blocks=%s%s" % (nblocks if nblocks < 3 else "3+", ":exactly-117" if plen == 117 else ""))
        if nblocks >= 2 and case["intent"]["variant"] == "valid" and case["strict"]:
            out.append("sig:multi-block-secret:valid:%d" % obs["status"])
        if case["intent"]["variant"] in ("ts-far", "ts-extreme"):
            out.append("sig:%s:%s:%d" % (case["intent"]["variant"], "strict" if case["strict"] else "lax", obs["status"]))
        if case["intent"]["variant"] == "enc-size":
            out.append("sig:enc-size:wire=%d:%d%s" % (obs["sentlen"], obs["status"], ":decrypted-body" if obs["seen"] == 1 else ""))
        if case["intent"]["type"] == 1 and obs["clen"] < 0 and obs["ran"] and obs["seenbody"] == obs["sentbody"] and obs["sentbody"] != "":
            out.append("note:encrypted-body-of-unknown-length-reaches-handler-undecrypted")
        if obs["now0"] != obs["now1"]:
            out.append("sig:clock-ticked")
        if case["intent"]["variant"] == "routed-path" and obs["ran"]:
            out.append("note:routed-path-differs-from-signed-path-accepted")
    elif k == "ejwt":
        if case.get("chain"):
            out.append("ejwt:custom-chain")
        for gi, g in enumerate(case["groups"]):
            out.append("ejwt:%s:secret-len=%s:prev-len=%s%s" % (g["opt"], "<8" if len(g["secret"]) < 8 else ">=8",
                       ("0" if not g["prev"] else ("1-7" if len(g["prev"]) < 8 else ">=8")) if g["opt"] == "transition" else "-",
                       ":option-panicked" if obs["confpanic"][gi] else ""))
        for rq, r in zip(case["reqs"], obs["rows"]):
            g = case["groups"][rq["group"]]
            tk = case["tokens"][rq["tok"]] if rq["tok"] >= 0 else None
            if tk and g["opt"] == "transition" and g["prev"] and tk["secret"] == g["prev"] and tk["exp"] == 3600 and tk["alg"] != "none":
                out.append("ejwt:signed-with-prev(len %s):%d" % ("1-7" if len(g["prev"]) < 8 else ">=8", r["status"]))
            elif tk and tk["secret"] == g["secret"] and g["opt"] != "none":
                out.append("ejwt:signed-with-current:%d" % r["status"])
            else:
                out.append("ejwt:other:%d" % r["status"])
    elif k == "grp":
        out.append("grp:groups=%d%s" % (len(case["groups"]), ":custom-chain" if case.get("chain") else ""))
        for rq, r in zip(case["reqs"], obs["rows"]):
            g = case["groups"][rq["group"]]
            if g["tol"] in (0, 1, 3600) and not rq.get("nosig") and rq["tamper"] == "" and g["strict"] and any(kk["fp"] == rq["fp"] and kk["key"] == rq["enckey"] for kk in g["keys"]) and rq["method"] in (g.get("methods") or []):
                out.append("grp:expire=%d:age=%d:%d" % (g["tol"], -rq["tsoff"], r["status"]))
        for rq, r in zip(case["reqs"], obs["rows"]):
            g = case["groups"][rq["group"]]
            conf = any(kk["fp"] == rq["fp"] and kk["key"] == rq["enckey"] for kk in g["keys"])
            elsewhere = any(kk["fp"] == rq["fp"] and kk["key"] == rq["enckey"] for i, gg in enumerate(case["groups"]) if i != rq["group"] for kk in gg["keys"])
            same_fp_other_key = any(kk["fp"] == rq["fp"] and kk["key"] != rq["enckey"] for kk in g["keys"])
            out.append("grp:%s:%s:%d" % ("own-key" if conf else ("other-groups-key" if elsewhere else "unknown-key"),
                                         "strict" if g["strict"] else "lax", r["status"]))
            if same_fp_other_key and not conf:
                out.append("grp:fingerprint-configured-here-with-another-key")
            if rq.get("nosig"):
                reg = rq["method"] in (g.get("methods") or ["POST", "GET", "PUT", "DELETE"])
                out.append("grp:unsigned:%s:%s:%s:%d%s" % (rq["method"], "registered" if reg else "other-method", "strict" if g["strict"] else "lax",
                                                          r["status"], ":RAN" if r["ran"] else ""))
    elif k == "rpcn":
        out.append("rpcn:auth=%s:strict=%s%s" % (case["auth"], case["strict"], ":via-proxy" if case.get("proxy") else ""))
        if case.get("proxy"):
            seen_ok = set()
            for (down, store, op), r in zip(rpc_steps(case), obs["rows"]):
                app = (op.get("apps") or [""])[0]
                tok = (op.get("tokens") or [""])[0]
                if r["code"] == 0:
                    seen_ok.add(app)
                elif app in seen_ok and store.get(app) != tok:
                    out.append("rpcn:proxy:wrong-token-after-good-call:code=%d" % r["code"])
        for (down, store, op), r in zip(rpc_steps(case), obs["rows"]):
            app = (op.get("apps") or [""])[0]
            tok = (op.get("tokens") or [""])[0]
            st = "outage" if down else ("stored" if app in store else "not-stored")
            tk = "no-md" if op.get("nomd") else ("missing" if not tok else ("right" if store.get(app) == tok else "wrong"))
            out.append("rpcn:auth=%s:strict=%s:%s:%s:code=%d" % (case["auth"], case["strict"], st, tk, r["code"]))
    elif k == "rpcs":
        out.append("rpcs:" + ("strict" if case["strict"] else "lax"))
        after = False
        for op, r in zip([o for o in case["ops"] if o["op"] in ("call", "burst")], obs["rows"]):
            if op["op"] == "burst":
                after = True
                out.append("rpcs:burst:%s:" % op["mode"] + ",".join("%s x%d" % (c, n) for c, n in sorted(r["burst"].items())))
            elif after:
                out.append("rpcs:after-burst:%s:code=%d" % (op["mode"], r["code"]))
    else:
        out.append("%s:" % k + ("strict" if case["strict"] else "lax"))
        if k == "rpci":
            for op, r in zip([o for o in case["ops"] if o["op"] == "call"], obs["rows"]):
                out.append("rpci:%s:%s:%s" % (op["mode"], "ran" if r["ran"] else "blocked", op["method"] or "<empty>"))
        for r in obs["rows"]:
            if r.get("flood"):
                out.append("rpc:flood:" + ",".join("%s x%d" % (c, n) for c, n in sorted(r["flood"].items())))
            else:
                out.append("rpc:code=%d" % r["code"])
        if any(o["op"] == "flood" for o in case["ops"]):
            after = [r["code"] for r in obs["rows"][[i for i, r in enumerate(obs["rows"]) if r.get("flood")][0] + 1:]]
            out.append("rpc:after-flood:" + ",".join("%d x%d" % (c, after.count(c)) for c in sorted(set(after))))
        if any(o["op"] == "down" for o in case["ops"]):
            out.append("rpc:outage")
        if any(o["op"] == "seterr" for o in case["ops"]):
            out.append("rpc:long-outage:" + ("strict" if case["strict"] else "lax"))
    return out


def explain(case, obs):
    k = case["kind"]
    if "driver_panic" in obs:
        return "the %s gate panicked instead of accepting or refusing the request: %s" % (k, obs["driver_panic"])
    if k == "parser":
        return ("ParseToken's accept/refuse differs from 'the jwt library accepts the token under secret or prevSecret' "
                "(c04_jwt_iff), or a secret other than the two configured ones was counted")
    if k == "jwt":
        return ("the JWT gate's observed (status, handler ran, context claims) contradicts C04.Exec.jwt_spec_ok: handler must run "
                "iff the library accepts the bearer token under the current or previous secret AT THE TIME OF THE REQUEST (c04_jwt_iff, "
                "c04_jwt_no_memory: a token accepted earlier must be refused once its exp has passed / before its nbf); then the context holds "
                "exactly the non-registered claims (c04_claims_visible), otherwise 401 and no handler (c04_jwt_401_no_handler)")
    if k == "sig" and obs.get("panic"):
        return ("the signature gate PANICKED instead of answering (%s): a correctly signed request announcing type=1 whose body "
                "base64-decodes to the empty string reaches codec.EcbDecrypt -> pkcs5UnPadding, which indexes src[len(src)-1]; "
                "expected 400 from cryptohandler (c04_gate_panic_iff: the gate panics only if decryptBody does)" % obs.get("panicval"))
    if k == "rpcn":
        return ("a server built with rpc.NewServer(ServerConfig{Auth:%s, StrictControl:%s, Redis}) answered a call against the RPC decision table: without "
                "Auth every call is served; with Auth missing metadata / wrong token -> Unauthenticated, right token -> OK, no stored token or store outage "
                "rejected (Internal) only when StrictControl (c04_rpc_config_matrix)" % (case["auth"], case["strict"]))
    if k == "rpcs":
        return ("through a real rpc server (breaker interceptor in front of the authorize interceptors) a verdict contradicts the RPC decision table: "
                "after a burst of Unauthenticated answers on a method, calls with a correct app/token on that method must still be accepted "
                "(c04_rpc_rejections_acceptable, c04_rpc_burst_no_breaker_failures, c04_rpc_table); code 2 = refused by the breaker")
    if k == "ejwt":
        return ("a JWT-protected route group configured through api.WithJwt / api.WithJwtTransition contradicts C04.Exec.ejwt_spec_ok: the handler "
                "must run iff the token verifies under the group's current secret or under its previous secret, whatever the previous secret's "
                "length (1..7 bytes included), else 401 (c04_jwt_engine_options)")
    if k == "rpc" and any(o["op"] == "flood" for o in case["ops"]):
        return ("after thousands of Authenticate calls for apps without a stored token (healthy store) a later verdict changed: a known app with the "
                "right token must still be accepted and a forged token rejected; 'not found' answers must leave no trace "
                "(c04_rpc_not_found_no_memory, c04_rpc_table)")
    if k == "grp":
        return ("a signature-protected route group of the engine answered a request against C04.Exec.grp_spec_ok: on group i's routes the handler "
                "must run iff the (fingerprint, key) pair the client used is configured FOR GROUP i (and timestamp/HMAC are right under group i's "
                "tolerance); a pair configured for another group only must get 403 in a strict group (c04_sig_group_isolation, c04_sig_group_local)")
    if k == "rpci":
        return ("Unary/StreamAuthorizeInterceptor contradict C04.Exec.rpci_spec_ok: the decision must be rpc_accept on (metadata, stored token, strict) "
                "whatever the FullMethod name, and the handler must run iff the call is accepted (c04_rpc_method_irrelevant, c04_rpc_handler_iff)")
    if k == "sig":
        return ("the signature gate's observed (status, handler ran) contradicts C04.Exec.sig_spec_ok: on GET/POST/PUT/DELETE in strict "
                "mode the handler must run iff the header decrypts under a configured key, |timestamp-now| <= tolerance and the signature "
                "equals HMAC(key, ts\\nmethod\\npath\\nquery\\nsha256(body)); otherwise 403 (c04_sig_strict_iff, c04_tamper_rejected, "
                "c04_strict_403); non-strict and other methods pass through")
    return ("Authenticate's observed grpc code contradicts C04.Exec.rpc_spec_ok: reject without app/token metadata or on token mismatch, "
            "accept on match; no stored token / store failure rejected only in strict mode (c04_rpc_table)")


def classify(case, obs):
    if case["kind"] == "sig" and obs.get("panic") and "index out of range [-1]" in str(obs.get("panicval")):
        return "ecb-empty-ciphertext-panic"
    return None
