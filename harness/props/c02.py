"""C02 server guards: forced interleavings of scripted handlers with the deadline (REST timeout/recover/
maxbytes chain), MaxConns admission schedules, and the unary RPC twin (crash + timeout interceptors).

Interface: see props/c13.py.  Two Go drivers (api/handler and rpc/internal/serverinterceptors) are run by
the `drive` override; cases carry a "kind" field ("tw" | "conns" | "rpc").
"""
import os
import re

import vlib
from vlib import cZ, cnat, cbool, clist, copt, cpair

ID = "C02"
GO_PKG = "./api/handler"
RPC_PKG = "./rpc/internal/serverinterceptors"
E2E_PKG = "./api"
RSRV_PKG = "./rpc"     # real started rpc servers
REST_RUN = "^TestVerifDriverC02$"   # api/handler also hosts another property's TestVerifDriver
TH = "api/handler/timeouthandler.go"
GEN_SPEC = {"items": [
    {"kind": "chain", "file": "api/engine.go", "func": "bindRoute", "call": "chain.New", "as": "rest_chain"},
    {"kind": "const", "file": TH, "name": "statusClientClosedRequest"},
    {"kind": "const", "file": TH, "name": "reason"},
    {"kind": "const", "file": TH, "name": "headerUpgrade"},
    {"kind": "const", "file": TH, "name": "valueWebsocket"},
    {"kind": "calls", "file": TH, "func": "TimeoutHandler", "as": "sk_timeout_ctor"},
    {"kind": "calls", "file": TH, "func": "timeoutHandler.ServeHTTP", "as": "sk_serve"},
    {"kind": "calls", "file": TH, "func": "timeoutWriter.Write", "as": "sk_write"},
    {"kind": "calls", "file": TH, "func": "timeoutWriter.WriteHeader", "as": "sk_writeheader"},
    {"kind": "calls", "file": TH, "func": "timeoutWriter.writeHeaderLocked", "as": "sk_whl"},
    {"kind": "calls", "file": TH, "func": "timeoutWriter.Header", "as": "sk_header"},
    {"kind": "calls", "file": "api/handler/recoverhandler.go", "func": "RecoverHandler", "as": "sk_recover"},
    {"kind": "calls", "file": "api/handler/maxconnshandler.go", "func": "MaxConns", "as": "sk_maxconns"},
    {"kind": "calls", "file": "api/handler/maxbyteshandler.go", "func": "MaxBytesHandler", "as": "sk_maxbytes"},
    {"kind": "calls", "file": "lib/syncx/limit.go", "func": "Limit.TryBorrow", "as": "sk_tryborrow"},
    {"kind": "calls", "file": "lib/syncx/limit.go", "func": "Limit.Return", "as": "sk_return"},
    {"kind": "calls", "file": "rpc/internal/serverinterceptors/timeoutinterceptor.go", "func": "UnaryTimeoutInterceptor", "as": "sk_rpc_timeout"},
    {"kind": "calls", "file": "rpc/internal/serverinterceptors/crashinterceptor.go", "func": "UnaryCrashInterceptor", "as": "sk_rpc_crash"},
    {"kind": "calls", "file": "rpc/internal/serverinterceptors/crashinterceptor.go", "func": "handleCrash", "as": "sk_rpc_handlecrash"},
    # rpc/internal/server.go Start: builtin list first, then the ones added by rpc/server.go setupInterceptors
    {"kind": "chain", "file": "rpc/internal/server.go", "func": "server.Start", "call": "append", "as": "rpc_append"},
    {"kind": "calls", "file": "rpc/server.go", "func": "setupInterceptors", "as": "sk_rpc_setup"},
    # which deadline applies / which log handler; pass-through writers around the guards; assembly of the rpc chain
    {"kind": "calls", "file": "api/engine.go", "func": "engine.checkedTimeout", "as": "sk_checkedtimeout"},
    {"kind": "calls", "file": "api/engine.go", "func": "engine.getLogHandler", "as": "sk_getlog"},
    {"kind": "calls", "file": "api/handler/loghandler.go", "func": "detailLoggedResponseWriter.Write", "as": "sk_dlw_write"},
    {"kind": "calls", "file": "api/handler/loghandler.go", "func": "detailLoggedResponseWriter.WriteHeader", "as": "sk_dlw_wh"},
    {"kind": "calls", "file": "api/handler/loghandler.go", "func": "loggedResponseWriter.Write", "as": "sk_lw_write"},
    {"kind": "calls", "file": "api/handler/loghandler.go", "func": "loggedResponseWriter.WriteHeader", "as": "sk_lw_wh"},
    {"kind": "calls", "file": "api/internal/response/withcoderesponsewriter.go", "func": "WithCodeResponseWriter.Write", "as": "sk_wc_write"},
    {"kind": "calls", "file": "api/internal/response/withcoderesponsewriter.go", "func": "WithCodeResponseWriter.WriteHeader", "as": "sk_wc_wh"},
    {"kind": "calls", "file": "rpc/internal/server.go", "func": "server.Start", "as": "sk_rpc_start"},
    {"kind": "calls", "file": "rpc/internal/baseserver.go", "func": "baseServer.AddUnaryInterceptors", "as": "sk_rpc_addunary"},
    # public middleware plumbing (one construction of the guard per installation) and the logging helper of the error paths
    {"kind": "calls", "file": "api/server.go", "func": "ToMiddleware", "as": "sk_tomiddleware"},
    {"kind": "calls", "file": "api/server.go", "func": "WithMiddleware", "as": "sk_withmiddleware"},
    {"kind": "calls", "file": "api/server.go", "func": "WithMiddlewares", "as": "sk_withmiddlewares"},
    {"kind": "calls", "file": "api/server.go", "func": "Server.Use", "as": "sk_use"},
    {"kind": "calls", "file": "api/engine.go", "func": "convertMiddleware", "as": "sk_convertmiddleware"},
    {"kind": "calls", "file": "api/httpx/utils.go", "func": "GetRemoteAddr", "as": "sk_getremoteaddr"},
    {"kind": "calls", "file": "api/internal/log.go", "func": "formatWithReq", "as": "sk_formatwithreq"},
]}


def _composite_elems(src, marker):
    """names of the elements of the composite literal that starts at `marker{`: comments stripped,
    split at top-level commas, call arguments dropped (x.F(a) -> x.F)."""
    i = src.find(marker)
    if i < 0:
        return None
    i = src.index("{", i + len(marker) - 1)
    depth, j = 0, i
    while j < len(src):
        if src[j] in "{(":
            depth += 1
        elif src[j] in "})":
            depth -= 1
            if depth == 0:
                break
        j += 1
    body = re.sub(r"//[^\n]*", "", src[i + 1:j])
    body = re.sub(r"/\*.*?\*/", "", body, flags=re.S)
    out, cur, d = [], "", 0
    for ch in body:
        if ch in "({":
            d += 1
        elif ch in ")}":
            d -= 1
        if ch == "," and d == 0:
            out.append(cur)
            cur = ""
        else:
            cur += ch
    out.append(cur)
    names = []
    for e in out:
        e = e.strip()
        if e:
            names.append(re.sub(r"\s+", "", e.split("(")[0]))
    return names


def extra_gen():
    """gogen's `chain` item only reads call arguments; the builtin unary interceptor list of
    rpc/internal/server.go is a slice literal, so it is extracted here (request for gogen: see report)."""
    path = os.path.join(vlib.REPO, "rpc/internal/server.go")
    names = None
    try:
        names = _composite_elems(open(path).read(), "unaryInterceptors := []grpc.UnaryServerInterceptor{")
    except OSError:
        pass
    txt = ("(* GENERATED by verif/harness/props/c02.py from rpc/internal/server.go (slice literal `unaryInterceptors`"
           " in server.Start). Do not edit. *)\nFrom Coq Require Import String List.\nImport ListNotations.\n\n")
    if names is None:
        txt += "Definition rpc_builtin_missing : bool := true.\n"
    else:
        txt += "Definition rpc_builtin : list string := [\n  %s\n].\n" % ";\n  ".join('"%s"%%string' % n for n in names)
    os.makedirs(os.path.join(vlib.COQ, "gen"), exist_ok=True)
    vlib.write_if_changed(os.path.join(vlib.COQ, "gen", "C02_GenRpc.v"), txt)


extra_gen()   # runs when vcheck loads the module, i.e. before the proof build of every run

QUICK_N = 900
THOROUGH_N = 6000
SEARCH_N = 420
SHARD = 64
DRIVER_TIMEOUT = 900
RULE = ("50% REST timeout cases: handler scripts of 0-6 actions (Set/Add/Del header over 3 keys, WriteHeader over 6 valid and "
        "5 invalid codes, Write of 0-3 byte chunks, panic with a value of 11 kinds: string, error, wrapped error, runtime errors raised by real "
        "nil-map write / nil dereference / index out of range, status.Error(NotFound), http.ErrAbortHandler, struct, typed nil "
        "pointer, nil), Recover present 85%, optional pre-set header on the real writer, "
        "MaxBytes/ContentLength pairs incl. n-1/n/n+1, deadline forced by the driver: never / after exactly k of n actions "
        "(k uniform in 0..n; client cancel => 499, parent deadline => 503, 10% through the handler's own 40 ms timer with the "
        "handler parked) / released together with the handler's return (both-ready race, membership only), 8% websocket or "
        "timeout=0 bypass; 15% MaxConns schedules (n in -1..3, n+m+extra requests entering, leaving normally or by panic, "
        "bare or around Timeout+Recover); 14% unary RPC cases (crash/timeout interceptors present or not, handler returning "
        "resp/status or panicking, deadline never / while parked / together with the return); 14% + 10% concurrent cases: 2-3 "
        "requests (calls) with their own scripts through ONE Timeout(+Recover) chain instance (ONE UnaryTimeoutInterceptor under "
        "Crash), random product schedule of start / one-more-action / deadline ops with rendezvous (a started request is parked "
        "inside the instance), incl. requests that start after another one was abandoned at its deadline with its handler still "
        "parked; every wait bounded (blocked => violation); plus configuration cases through the real engine / a real started rpc server: "
        "(Config.Timeout in {0, 80 ms, 60 s}) x (route WithTimeout in {absent, 80 ms, 60 s}) with a handler parked 250 ms, "
        "Config.Verbose on/off x bodies of 3 B, 32 KiB-1/+0/+1, 48 KiB, 200 KiB in one Write / accumulated / 140-150 chunks of 500 B (thorough: 420 chunks, 210 KB), and "
        "10 status scripts with Config.Timeout = 0 through the full chain on a real net/http server (103 then 404, 1xx only, "
        "repeated WriteHeader, WriteHeader after Write, 1xx then panic) compared with RecoverHandler(bare handler) on a plain "
        "server incl. the informational responses; 32 panics through the full chain x timeout off/on x brief/detailed log; 36+12 "
        "cases under an application-wide httpx error handler {none, SetErrorHandler, SetErrorHandlerCtx} x {deadline, cancel, "
        "httpx.Error, httpx.ErrorCtx} x {nil, error, JSON body}; "
        "degenerate client header values (',', ', ,', empty, 8 KB, non-ASCII) in X-Forwarded-For / X-Real-Ip / User-Agent on the "
        "guards' error branches (panic -> 500, Content-Length > MaxBytes -> 413, MaxConns saturated -> 503; also through the "
        "engine chain); a client that cancels over a real connection while its handler is parked behind the FULL engine chain "
        "(499 observed in front of the chain, at the cancel); MaxConns(n) and BreakerHandler installed through Server.Use / "
        "WithMiddleware / WithMiddlewares + ToMiddleware (admission schedules over real HTTP; 60 failing requests in a row); "
        "the three reject streams (panic -> 500, Content-Length > MaxBytes -> 413, MaxConns saturated -> 503) on requests whose "
        "declared body has not arrived (gated reader: every Read blocks until the case is over; a guard that reads the body hangs "
        "and is reported); in an own driver process with Prometheus ENABLED (prometheus.StartAgent): raw request paths that are not valid UTF-8 once "
        "percent-decoded (/user/%ff, /user/a%c0%afb, two variables) on routes with path variables, and ONE load case: 9000 "
        "requests through one route while stat.SetReportWriter's writer blocks; ServerConfig.Timeout 50/150/1000 ms with a "
        "handler overrunning by 2 s (ctx.Deadline() distance seen by the handler and reply time checked); "
        "rpc.NewServer(Timeout in {0, 100 ms, 60 s}, CpuThreshold in {0, 1000}) + Start with a context-ignoring handler parked "
        "300 ms; plus a fixed matrix: every panic-value kind x {nothing committed, header set, "
        "status committed, timeout=0 bypass} through Timeout+Recover and x {timeout interceptor in between, Timeout<=0} through "
        "Crash (thorough/search: also through engine.bindRoute's chain on loopback). thorough adds 60 such cases against engine.bindRoute's real chain "
        "(one route; overlap without deadline, or request 0 answered by the 1 s route timer while parked and the others "
        "afterwards, latency < timeout/2), every script of "
        "length <= 3 over a 5-letter alphabet at every cut point and 120 end-to-end cases (engine.bindRoute's real chain behind a "
        "loopback http server, observed by an http client; cut = the route's own 80 ms timer with the handler parked). non-trivial = deadline forced or handler panics or a guard "
        "rejects; distinct = distinct canonical case JSON")
TRUSTED = ["Go scheduler/select fairness and context cancellation propagation (a schedule is a list of labels in the model)",
           "net/http ResponseWriter contract as implemented by httptest.ResponseRecorder (client view of a call log)",
           "harness/props/c02.py extraction of the unaryInterceptors slice literal of rpc/internal/server.go",
           "the scripted parent context reporting context.DeadlineExceeded stands for a timer-driven deadline "
           "(10% of the cut cases use the handler's own 40 ms timer instead)"]
ASSUMPTIONS = ["a handler installed with httpx.SetErrorHandlerCtx decides, by that API's contract, the reply of the timeout arm too "
               "(Model.timeout_arm_events): spec_ok then requires exactly its (code, body); SetErrorHandler never does",
               "behind the timeout guard informational 1xx responses are not delivered (the buffering writer drops them, D20): the "
               "client receives the handler's FINAL status, headers and body; without the guard they are delivered as net/http does",
               "a panic is detected by 'the protected call did not finish' (completion flag, since 39fe42d / D16), so every panic "
               "value incl. nil is a panic; a runtime.Goexit() inside a handler leaves the flag unset as well and is therefore "
               "also answered as a panic (500 / Internal) -- not modelled, not generated",
               "no global httpx error handler installed (httpx.SetErrorHandler[Ctx] replaces the 499/503 + reason reply of the "
               "timeout arm by whatever it returns)",
               "'within the route timeout' = the select observed done before it observed ctx.Done(); when both are ready either "
               "response is allowed (Go's select)",
               "handler's headers = header map at handler completion (the buffered writer copies tw.h when it flushes)",
               "wall-clock delivery of the deadline, TCP/net/http connection handling, hijack/flush/push, streaming RPC: not modelled",
               "1xx is not generated for the in-package bypass cases (httptest.ResponseRecorder treats 1xx as final, net/http does not)"]

# kinds of panic values the drivers can raise -> Model.pvalue
PV_COQ = {"string": "PVString", "error": "PVError", "wrapped": "PVError", "nilmap": "PVRuntime", "nilptr": "PVRuntime",
          "index": "PVRuntime", "status": "(PVStatus 5%nat)", "abort": "PVAbort", "custom": "PVCustom", "typednil": "PVCustom",
          "nil": "PVNil"}
PV_NONNIL = [k for k in PV_COQ if k != "nil"]


def gen_pv(rng, allow_nil):
    r = rng.random()
    if allow_nil and r < 0.07:
        return "nil"
    if r < 0.3:
        return "string"
    return rng.choice(PV_NONNIL)


VALID = [200, 201, 204, 404, 500, 503]
INVALID = [0, 99, 600, 1000, -1]
CHUNKS = ["", "a", "bc", "xyz"]


def gen_action(rng, allow_nil=False, allow_info=False):
    r = rng.random()
    if allow_info and r < 0.04:
        return {"a": "wh", "c": rng.choice([102, 103])}       # informational: never the final status
    if r < 0.17:
        return {"a": "set", "k": rng.randrange(3), "v": rng.randrange(4)}
    if r < 0.24:
        return {"a": "add", "k": rng.randrange(3), "v": rng.randrange(4)}
    if r < 0.29:
        return {"a": "del", "k": rng.randrange(3)}
    if r < 0.52:
        if rng.random() < 0.14:
            return {"a": "wh", "c": rng.choice(INVALID)}
        return {"a": "wh", "c": rng.choice(VALID)}
    if r < 0.92:
        return {"a": "w", "b": rng.choice(CHUNKS)}
    return {"a": "panic", "pv": gen_pv(rng, allow_nil)}


def gen_tw(rng):
    n = rng.choice([0, 1, 2, 2, 3, 3, 4, 4, 5, 6])
    recover = rng.random() < 0.85
    acts = [gen_action(rng, allow_nil=True, allow_info=True) for _ in range(n)]
    c = {"kind": "tw", "recover": recover, "bypass": "none", "maxbytes": 0, "clen": -1, "rh0": [],
         "acts": acts, "fire": {"mode": "none", "k": 0, "cause": "none"}}
    if rng.random() < 0.3:
        c["rh0"] = [{"k": rng.choice([2, 3]), "v": [9]}]
    r = rng.random()
    if r < 0.12:
        m = rng.choice([1, 10, 100])
        c["maxbytes"], c["clen"] = m, m + rng.choice([-1, 0, 1])
    elif r < 0.3:
        c["maxbytes"], c["clen"] = rng.choice([0, -1, 10, 100]), rng.choice([-1, 0, 9, 10, 11, 100, 101, 5000])
    if rng.random() < 0.08:
        c["bypass"] = rng.choice(["upgrade", "zero"])
        for a in acts:          # httptest.ResponseRecorder (the in-package "real" writer) takes 1xx for final; net/http does not
            if a["a"] == "wh" and 100 <= a["c"] <= 199:
                a["c"] = 200
        return c
    r = rng.random()
    if r < 0.25:
        pass
    elif r < 0.8:
        q = rng.random()
        cause = "cancel" if q < 0.45 else ("deadline" if q < 0.9 else "real")
        c["fire"] = {"mode": "cut", "k": rng.randint(0, n), "cause": cause}
    else:
        c["fire"] = {"mode": "both", "k": 0, "cause": rng.choice(["cancel", "deadline"])}
    return c


def gen_conns(rng):
    n = rng.choice([-1, 0, 1, 1, 2, 2, 3])
    cap = n if n > 0 else 10 ** 6
    reqs = (n if n > 0 else 1) + rng.randint(1, 3) + rng.randint(0, 2)
    inner = rng.random() < 0.4
    state = ["out"] * reqs
    inside = 0
    ops = []
    burst = rng.random() < 0.5      # n+m arrivals first
    for _ in range(rng.randint(reqs, 2 * reqs + 1)):
        outs = [i for i in range(reqs) if state[i] == "out"]
        ins = [i for i in range(reqs) if state[i] == "in"]
        want_enter = bool(outs) and (not ins or rng.random() < (0.85 if burst and inside <= cap else 0.5))
        if burst and inside >= cap and outs and rng.random() < 0.6:
            want_enter = True
        if want_enter:
            i = outs[0] if rng.random() < 0.7 else rng.choice(outs)
            ops.append({"op": "enter", "i": i})
            if inside < cap:
                state[i] = "in"
                inside += 1
            else:
                state[i] = "rejected"
                burst = burst and rng.random() < 0.5
        elif ins:
            i = rng.choice(ins)
            ops.append({"op": "leave", "i": i, "panic": rng.random() < 0.35})
            state[i] = "left"
            inside -= 1
        else:
            break
    return {"kind": "conns", "n": n, "reqs": reqs, "inner": inner, "ops": ops}


def gen_rpc(rng):
    c = {"kind": "rpc", "crash": rng.random() < 0.85, "timeout": rng.random() < 0.85}
    if rng.random() < 0.25:
        c["h"] = {"t": "panic", "pv": gen_pv(rng, allow_nil=True)}
    else:
        c["h"] = {"t": "ret", "resp": rng.choice([None, 0, 3, 7]), "code": rng.choice([0, 0, 0, 3, 5, 13, 14, 4, 1])}
    c["fire"] = {"mode": "none", "cause": "none"}
    if c["timeout"]:
        r = rng.random()
        if r < 0.3:
            pass
        elif r < 0.8:
            q = rng.random()
            c["fire"] = {"mode": "before", "cause": "cancel" if q < 0.45 else ("deadline" if q < 0.9 else "real")}
        else:
            c["fire"] = {"mode": "both", "cause": rng.choice(["cancel", "deadline"])}
    return c


def gen_e2e(rng):
    """the real chain of engine.bindRoute behind a loopback http server (thorough and search tiers)"""
    n = rng.choice([1, 2, 3, 4, 5])
    acts = []
    for _ in range(n):
        a = gen_action(rng, allow_nil=True, allow_info=True)
        if a["a"] == "wh" and a["c"] == 204:
            a["c"] = 201          # a client never sees a body with 204
        acts.append(a)
    c = {"kind": "e2e", "maxbytes": 0, "clen": rng.choice([0, 3, 10]), "acts": acts, "fire": {"mode": "none", "k": 0}}
    r = rng.random()
    if r < 0.5:
        c["fire"] = {"mode": "cut", "k": rng.randint(0, n)}
    elif r < 0.75:
        m = rng.choice([1, 10])
        c["maxbytes"], c["clen"] = m, m + rng.choice([-1, 0, 1])
    return c


def gen_schedule(rng, sizes, fire_p):
    """random product schedule over requests with `sizes[i]` gates each: every request starts (first op of a
    request is its start), steps are interleaved at random, a request may be fired once while it still has
    gates left; late starters come after somebody's deadline"""
    m = len(sizes)
    left = [s for s in sizes]
    started = [False] * m
    fired = [False] * m
    ops = []
    late = set(i for i in range(1, m) if rng.random() < 0.35)     # these start only after a fire
    anyfire = False
    for _ in range(sum(sizes) + 3 * m):
        cand = []
        for i in range(m):
            if not started[i]:
                if i not in late or anyfire:
                    cand.append(("start", i))
            else:
                if left[i] > 0:
                    cand.append(("step", i))
                if not fired[i] and left[i] > 0 and rng.random() < fire_p:
                    cand.append(("fire", i))
        if not cand:
            break
        starts = [x for x in cand if x[0] == "start"]
        op, i = rng.choice(starts) if starts and rng.random() < 0.6 else rng.choice(cand)
        ops.append({"op": op, "r": i})
        if op == "start":
            started[i] = True
        elif op == "step":
            left[i] -= 1
        else:
            fired[i] = True
            anyfire = True
    for i in range(m):
        if not started[i]:
            ops.append({"op": "start", "r": i})
    # half of the schedules stop early (after every request has started): the driver then lets everything that is
    # left happen at once, unsynchronised -- each request must still get its own response
    if rng.random() < 0.5:
        last_start = max(j for j, o in enumerate(ops) if o["op"] == "start")
        ops = ops[:rng.randint(last_start + 1, len(ops))]
    return ops


def gen_multi(rng):
    burst = rng.random() < 0.2        # many requests inside, then all released at once
    m = rng.choice([4, 5, 6]) if burst else rng.choice([2, 2, 3])
    reqs = []
    for _ in range(m):
        n = rng.choice([0, 1, 2, 2, 3, 4])
        q = {"rh0": [], "acts": [gen_action(rng, True, True) for _ in range(n)], "cause": rng.choice(["cancel", "deadline"])}
        if rng.random() < 0.25:
            q["rh0"] = [{"k": rng.choice([2, 3]), "v": [9]}]
        reqs.append(q)
    ops = gen_schedule(rng, [len(q["acts"]) + 1 for q in reqs], 0.25)
    if burst:
        ops = [{"op": "start", "r": i} for i in range(m)]
    return {"kind": "multi", "recover": rng.random() < 0.85, "mreqs": reqs, "mops": ops}


def gen_rmulti(rng):
    burst = rng.random() < 0.3        # many calls inside, then all handlers released at once
    m = rng.choice([4, 6, 8]) if burst else rng.choice([2, 2, 3])
    calls = []
    for i in range(m):
        h = {"t": "panic", "pv": gen_pv(rng, True)} if rng.random() < 0.2 else {
            "t": "ret", "resp": rng.choice([None, 0, 3, 7]), "code": rng.choice([0, 0, 0, 3, 5, 13, 14, 4, 1])}
        if burst and h["t"] == "ret":
            h["resp"] = i + 10        # distinct results: a swap is visible
        calls.append({"h": h, "cause": rng.choice(["cancel", "deadline"])})
    ops = [{"op": "start", "r": i} for i in range(m)] if burst else gen_schedule(rng, [1] * m, 0.35)
    return {"kind": "rmulti", "crash": rng.random() < 0.85, "timeout": True, "calls": calls, "mops": ops}


def gen_e2em(rng):
    """real engine chain, one route: (O) overlapping requests, no deadline; (P) request 0 is left parked until the
    route's 1 s timer answers it, the others come afterwards and must be answered at once"""
    m = rng.choice([2, 2, 3])
    reqs = []
    for _ in range(m):
        acts = []
        for _ in range(rng.choice([1, 2, 3, 4])):
            a = gen_action(rng, True)
            if a["a"] == "wh" and a["c"] == 204:
                a["c"] = 201
            acts.append(a)
        reqs.append({"acts": acts})
    if rng.random() < 0.6:
        ops = gen_schedule(rng, [len(q["acts"]) + 1 for q in reqs], 0.0)
        ops = [o for o in ops if o["op"] != "fire"]
        return {"kind": "e2em", "timeout_ms": 60000, "mreqs": reqs, "mops": ops}
    k = rng.randint(0, len(reqs[0]["acts"]))
    ops = [{"op": "start", "r": 0}] + [{"op": "step", "r": 0}] * k + [{"op": "fire", "r": 0}]
    rest = gen_schedule(rng, [len(q["acts"]) + 1 for q in reqs[1:]], 0.0)
    ops += [{"op": o["op"], "r": o["r"] + 1} for o in rest if o["op"] != "fire"]
    return {"kind": "e2em", "timeout_ms": 1000, "mreqs": reqs, "mops": ops}


def value_matrix(e2e):
    """every kind of panic value: REST Recover directly (nothing committed / header set / status committed) and the
    unary chain with the timeout interceptor in between and without it (Timeout <= 0)"""
    out = []
    none = {"mode": "none", "k": 0, "cause": "none"}
    for pv in PV_COQ:
        p = {"a": "panic", "pv": pv}
        for acts in ([p], [{"a": "set", "k": 0, "v": 1}, p, {"a": "w", "b": "x"}], [{"a": "wh", "c": 201}, {"a": "w", "b": "ab"}, p]):
            out.append({"kind": "tw", "recover": True, "bypass": "none", "maxbytes": 0, "clen": -1, "rh0": [],
                        "acts": [dict(a) for a in acts], "fire": dict(none)})
            if e2e:
                out.append({"kind": "e2e", "maxbytes": 0, "clen": 0, "acts": [dict(a) for a in acts], "fire": {"mode": "none", "k": 0}})
        out.append({"kind": "tw", "recover": True, "bypass": "zero", "maxbytes": 0, "clen": -1, "rh0": [],
                    "acts": [dict(p)], "fire": dict(none)})
        # Timeout without Recover: the panic must be re-raised at once (not wait for the deadline)
        out.append({"kind": "tw", "recover": False, "bypass": "none", "maxbytes": 0, "clen": -1, "rh0": [],
                    "acts": [{"a": "w", "b": "x"}, dict(p)], "fire": dict(none)})
        for crash in (True, False):
            for timeout in (True, False):
                out.append({"kind": "rpc", "crash": crash, "timeout": timeout, "h": {"t": "panic", "pv": pv},
                            "fire": {"mode": "none", "cause": "none"}})
    return out


SMALL_MS, LARGE_MS, HOLD_MS = 80, 60000, 250      # route/server timeouts of the e2ec cases, and how long an overrunning handler is parked
RSMALL_MS, RHOLD_MS = 100, 300


def big_writes(rng, shape, total):
    """a body of `total` bytes: in one Write, or accumulated over Writes of a few KiB, or over many small chunks"""
    if shape == "one":
        return [{"a": "w", "rep": {"b": 97 + total % 26, "n": total}}]
    out, left, i = [], total, 0
    while left > 0:
        n = min(left, 500 if shape == "many" else rng.choice([1000, 4096, 8192, 8193]))
        out.append({"a": "w", "rep": {"b": 97 + i % 26, "n": n}})
        left -= n
        i += 1
    return out


def gen_e2ec(rng, g=None, r=None, verbose=None, body=None, hold=None):
    """engine.bindRoute's chain for a combination of server-wide timeout, route timeout and log handler"""
    g = rng.choice([0, SMALL_MS, LARGE_MS]) if g is None else g
    r = rng.choice([0, SMALL_MS, LARGE_MS]) if r is None else r
    verbose = (rng.random() < 0.5) if verbose is None else verbose
    acts = []
    if rng.random() < 0.6:
        acts.append({"a": "set", "k": rng.randrange(3), "v": rng.randrange(4)})
    if rng.random() < 0.5:
        acts.append({"a": "wh", "c": rng.choice([200, 201, 404, 500, 503])})
    if body is None:
        shape = rng.choice(["one", "acc", "many"])
        body = (shape, rng.choice([3, 1024, 32767, 32768, 32769, 49152, 70000 if shape == "many" else 204800]))
    acts += big_writes(rng, body[0], body[1])
    if rng.random() < 0.15:
        acts.append({"a": "panic", "pv": gen_pv(rng, True)})
    if rng.random() < 0.3:
        acts.append({"a": "w", "b": rng.choice(CHUNKS)})
    if hold is None:
        hold = HOLD_MS if rng.random() < 0.55 else 0
    return {"kind": "e2ec", "gtimeout_ms": g, "rtimeout_ms": r, "verbose": verbose, "hold_ms": hold,
            "k": rng.randint(0, len(acts)) if hold else 0, "full": rng.random() < 0.5, "ref": hold == 0 and rng.random() < 0.5,
            "acts": acts}


def config_matrix(rng):
    out = []
    for g in (0, SMALL_MS, LARGE_MS):          # every (server-wide, route) pair with a handler that overruns the small deadline
        for r in (0, SMALL_MS, LARGE_MS):
            out.append(gen_e2ec(rng, g=g, r=r, body=("one", 3), hold=HOLD_MS))
            if 0 < (r or g) < HOLD_MS:      # the small deadline applies: once more with a body that must not leak
                out.append(gen_e2ec(rng, g=g, r=r, body=("acc", 32769), hold=HOLD_MS))
    for verbose in (False, True):              # body exactness around 32 KiB and far above, one Write and accumulated
        for size in (3, 32767, 32768, 32769, 49152, 204800):
            out.append(gen_e2ec(rng, g=LARGE_MS, r=0, verbose=verbose, body=(rng.choice(["one", "acc"]), size), hold=0))
        out.append(gen_e2ec(rng, g=0, r=0, verbose=verbose, body=("many", 70000), hold=0))
        out.append(gen_e2ec(rng, g=LARGE_MS, r=0, verbose=verbose, body=("many", 75000), hold=0))
    return out


def status_scripts():
    """Config.Timeout = 0: the handler writes straight through the code-capturing writers of the built-in middlewares to a
    real net/http server -- informational 1xx before the final status, repeated WriteHeader, WriteHeader after Write"""
    S = lambda k, v: {"a": "set", "k": k, "v": v}
    H = lambda c: {"a": "wh", "c": c}
    W = lambda b: {"a": "w", "b": b}
    return [
        [S(0, 1), H(103), S(1, 2), H(404), W("x")],
        [H(103), H(404)],
        [H(102), H(103), W("xy")],                      # informational only, then the implicit 200
        [H(103), H(103), H(201), H(500), W("a"), W("b")],
        [H(201), H(404), W("x")],                        # repeated WriteHeader: the first one counts
        [H(404), H(103), W("x")],                        # 1xx after the commit: ignored
        [W("ab"), H(404), W("c")],                       # WriteHeader after Write: 200 stays
        [S(0, 1), W(""), H(500)],
        [H(103), {"a": "panic", "pv": "error"}],         # informational, then a panic: 500
        [H(503), W("busy")],
    ]


def status_matrix(rng):
    out = []
    for i, acts in enumerate(status_scripts()):
        for g in (0, LARGE_MS):     # without the timeout guard: exactly net/http's delivery; behind it: the same FINAL response
            out.append({"kind": "e2ec", "gtimeout_ms": g, "rtimeout_ms": 0, "verbose": (i + (g > 0)) % 2 == 0, "hold_ms": 0, "k": 0,
                        "full": True, "ref": True, "acts": [dict(a) for a in acts]})
    for acts in status_scripts()[:4]:       # and in-package: the buffering writer never takes 1xx for the status
        out.append({"kind": "tw", "recover": True, "bypass": "none", "maxbytes": 0, "clen": -1, "rh0": [],
                    "acts": [dict(a) for a in acts], "fire": {"mode": "none", "k": 0, "cause": "none"}})
    return out


def panic_chain_matrix(rng):
    """a panicking handler through engine.bindRoute's chain with every built-in middleware active, timeout off / on, brief /
    detailed log handler: 500 as from the bare RecoverHandler(handler) -- nothing inside may swallow the panic"""
    out = []
    for g in (0, LARGE_MS):
        for verbose in (False, True):
            for pv in ("string", "nil", "abort", "nilmap"):
                p = {"a": "panic", "pv": pv}
                for acts in ([p], [{"a": "set", "k": 0, "v": 1}, p, {"a": "w", "b": "x"}]):
                    out.append({"kind": "e2ec", "gtimeout_ms": g, "rtimeout_ms": 0, "verbose": verbose, "hold_ms": 0, "k": 0,
                                "full": True, "ref": True, "acts": [dict(a) for a in acts]})
    return out


def gen_g(rng, mode=None, scenario=None, body=None):
    """application-wide httpx error handler x {overrun, client cancel, error reported by the handler through httpx}"""
    mode = rng.choice(["none", "plain", "ctx"]) if mode is None else mode
    scenario = rng.choice(["deadline", "cancel", "error", "errorctx", "mixed"]) if scenario is None else scenario
    body = rng.choice(["nil", "err", "json"]) if body is None else body
    acts = []
    if rng.random() < 0.5:
        acts.append({"a": "set", "k": rng.randrange(3), "v": rng.randrange(4)})
    if scenario in ("error", "errorctx"):
        acts.append({"a": "err", "ctx": scenario == "errorctx"})
        if rng.random() < 0.3:
            acts.append({"a": "w", "b": "x"})
    else:
        for _ in range(rng.randint(1, 3)):
            r = rng.random()
            acts.append({"a": "err", "ctx": rng.random() < 0.5} if r < 0.3 else
                        ({"a": "wh", "c": rng.choice([200, 201, 404])} if r < 0.5 else {"a": "w", "b": rng.choice(CHUNKS)}))
    fire = {"mode": "none", "k": 0, "cause": "none"}
    if scenario in ("deadline", "cancel"):
        fire = {"mode": "cut", "k": rng.randint(0, len(acts)), "cause": scenario}
    elif scenario == "mixed" and rng.random() < 0.6:
        fire = {"mode": rng.choice(["cut", "both"]), "k": rng.randint(0, len(acts)), "cause": rng.choice(["deadline", "cancel"])}
    return {"kind": "g", "recover": True, "rh0": [{"k": 3, "v": [9]}] if rng.random() < 0.3 else [], "acts": acts, "fire": fire,
            "gconf": {"mode": mode, "code": rng.choice([418, 200, 500]), "body": body}}


def g_matrix(rng):
    out = []
    for mode in ("none", "plain", "ctx"):
        for scenario in ("deadline", "cancel", "error", "errorctx"):
            for body in ("nil", "err", "json"):
                out.append(gen_g(rng, mode, scenario, body))
    return out


HDR_KINDS = ["sep1", "sep2", "empty", "long", "nonascii", "normal"]
HDR_NAMES = ["X-Forwarded-For", "X-Real-Ip", "User-Agent"]


def gen_hdrs(rng, kind=None):
    """client-controlled header values the guards' error paths hand to their logging helpers"""
    kind = kind or rng.choice(HDR_KINDS)
    names = HDR_NAMES if rng.random() < 0.5 else [rng.choice(HDR_NAMES)]
    return [{"n": n, "kind": kind} for n in names]


def hdr_matrix(rng):
    """every degenerate value on the three error branches: handler panic -> 500, Content-Length > MaxBytes -> 413, MaxConns
    saturated -> 503 (in-package), and panic -> 500 through the engine chain"""
    out = []
    none = {"mode": "none", "k": 0, "cause": "none"}
    for kind in HDR_KINDS:
        hd = [{"n": n, "kind": kind} for n in HDR_NAMES]
        out.append({"kind": "tw", "recover": True, "bypass": "none", "maxbytes": 0, "clen": -1, "rh0": [], "hdrs": hd,
                    "acts": [{"a": "panic", "pv": rng.choice(PV_NONNIL)}], "fire": dict(none)})
        out.append({"kind": "tw", "recover": True, "bypass": "none", "maxbytes": 10, "clen": 11, "rh0": [], "hdrs": hd,
                    "acts": [{"a": "w", "b": "x"}], "fire": dict(none)})
        out.append({"kind": "conns", "n": 1, "reqs": 3, "inner": rng.random() < 0.5, "hdrs": hd,
                    "ops": [{"op": "enter", "i": 0}, {"op": "enter", "i": 1}, {"op": "leave", "i": 0, "panic": True},
                            {"op": "enter", "i": 2}]})
        out.append({"kind": "e2ec", "gtimeout_ms": rng.choice([0, LARGE_MS]), "rtimeout_ms": 0, "verbose": rng.random() < 0.5,
                    "hold_ms": 0, "k": 0, "full": True, "ref": True, "hdrs": hd, "acts": [{"a": "panic", "pv": "string"}]})
    return out


def cancel_matrix(rng):
    """a client that goes away mid-request, before any deadline, through engine.bindRoute's full chain: 499 at the cancel"""
    out = []
    for verbose in (False, True):
        for r in (0, LARGE_MS):
            acts = [{"a": "set", "k": 0, "v": 1}, {"a": "wh", "c": 201}, {"a": "w", "b": "late"}]
            out.append({"kind": "e2ec", "gtimeout_ms": LARGE_MS, "rtimeout_ms": r, "verbose": verbose, "hold_ms": 1500,
                        "k": rng.randint(0, len(acts)), "cancel": True, "full": True, "ref": False, "acts": acts,
                        "hdrs": gen_hdrs(rng) if rng.random() < 0.5 else []})
    return out


def plumbing_matrix(rng):
    """stateful guards installed through the PUBLIC plumbing (Server.Use / WithMiddleware(s) + ToMiddleware)"""
    out = []
    for via in ("use", "route", "routes"):
        for n in (1, 2):
            ops = [{"op": "enter", "i": i} for i in range(n + 1)]
            ops += [{"op": "leave", "i": 0, "panic": rng.random() < 0.5}, {"op": "enter", "i": n + 1},
                    {"op": "enter", "i": n + 2}, {"op": "leave", "i": 1 if n > 1 else n + 1, "panic": False}]
            out.append({"kind": "e2ecn", "guard": "maxconns", "via": via, "n": n, "reqs": n + 3, "ops": ops})
    for via in ("use", "route"):
        out.append({"kind": "e2ecn", "guard": "breaker", "via": via, "total": 60})
    return out


def gated_body_matrix(rng):
    """the three reject streams on requests whose declared body has not arrived (every Read blocks): the guards must answer at once"""
    out = []
    none = {"mode": "none", "k": 0, "cause": "none"}
    for pv in ("string", "nil", "nilmap"):
        for acts in ([{"a": "panic", "pv": pv}], [{"a": "set", "k": 0, "v": 1}, {"a": "w", "b": "x"}, {"a": "panic", "pv": pv}]):
            out.append({"kind": "tw", "recover": True, "bypass": rng.choice(["none", "none", "zero"]), "maxbytes": rng.choice([0, 100]),
                        "clen": 5, "rh0": [], "gated_body": True, "acts": [dict(a) for a in acts], "fire": dict(none)})
    for m in (1, 10, 100):
        for d in (1, 1000):
            out.append({"kind": "tw", "recover": rng.random() < 0.8, "bypass": "none", "maxbytes": m, "clen": m + d, "rh0": [],
                        "gated_body": True, "acts": [{"a": "w", "b": "x"}], "fire": dict(none)})
    for n in (1, 2):
        for inner in (False, True):
            ops = [{"op": "enter", "i": i} for i in range(n + 2)]
            ops += [{"op": "leave", "i": 0, "panic": True}, {"op": "enter", "i": n + 2}, {"op": "enter", "i": n + 3}]
            out.append({"kind": "conns", "n": n, "reqs": n + 4, "inner": inner, "gated_body": True, "ops": ops})
    return out


def prom_matrix(rng):
    """own driver process with Prometheus metrics ENABLED: request paths that are not valid UTF-8 once percent-decoded on
    routes with path variables (metric labels must come from the route pattern), and the stalled-report-writer load case"""
    out = []
    ok = [{"a": "set", "k": 0, "v": 1}, {"a": "wh", "c": 201}, {"a": "w", "b": "ok"}]
    for route, paths in (("/user/:id", ["/user/%ff", "/user/a%c0%afb", "/user/%e4%b8%ad", "/user/abc"]),
                         ("/user/:id/item/:item", ["/user/%ff/item/%fe%fd", "/user/x/item/%c0%af"])):
        for rp in paths:
            for g in (0, LARGE_MS):
                acts = ok if rng.random() < 0.7 else [{"a": "panic", "pv": rng.choice(["string", "nil"])}]
                out.append({"kind": "e2ec", "prom": True, "route": route, "reqpath": rp, "gtimeout_ms": g, "rtimeout_ms": 0,
                            "verbose": rng.random() < 0.5, "hold_ms": 0, "k": 0, "full": True, "ref": True,
                            "acts": [dict(a) for a in acts]})
    out.append({"kind": "e2el", "prom": True, "total": 9000, "gtimeout_ms": 3000})
    return out


def gen_rsrv(rng, timeout=None, hold=None):
    """a unary call through a real started rpc server (rpc.NewServer + Start on loopback)"""
    timeout = rng.choice([0, RSMALL_MS, RSMALL_MS, LARGE_MS]) if timeout is None else timeout
    if rng.random() < 0.25:
        h = {"t": "panic", "pv": gen_pv(rng, True)}
    else:
        code = rng.choice([0, 0, 0, 3, 5, 13, 14])
        h = {"t": "ret", "resp": rng.choice([0, 3, 7]) if code == 0 or rng.random() < 0.5 else None, "code": code}
    if hold is None:
        hold = RHOLD_MS if rng.random() < 0.6 else 0
    return {"kind": "rsrv", "timeout_ms": timeout, "cpu": rng.choice([0, 1000]), "h": h, "hold_ms": hold}


def rsrv_matrix(rng):
    out = []
    for t in (0, RSMALL_MS, LARGE_MS):
        for hold in (0, RHOLD_MS):
            out.append(gen_rsrv(rng, timeout=t, hold=hold))
    out.append({"kind": "rsrv", "timeout_ms": RSMALL_MS, "cpu": 1000, "h": {"t": "ret", "resp": 7, "code": 0}, "hold_ms": RHOLD_MS})
    for t, hold in ((50, 2050), (150, 2150), (1000, 3000)):     # Timeout is in MILLISECONDS: a handler overrunning by 2 s
        out.append({"kind": "rsrv", "timeout_ms": t, "cpu": 0, "h": {"t": "ret", "resp": 7, "code": 0}, "hold_ms": hold})
    for t in (0, RSMALL_MS):        # panic(nil) through the assembled chain, without and with the timeout interceptor
        out.append({"kind": "rsrv", "timeout_ms": t, "cpu": 0, "h": {"t": "panic", "pv": "nil"}, "hold_ms": 0})
    return out


def systematic():
    alpha = [{"a": "set", "k": 0, "v": 1}, {"a": "wh", "c": 201}, {"a": "wh", "c": 600}, {"a": "w", "b": "a"}, {"a": "panic"}]
    out = []

    def rec(prefix, depth):
        n = len(prefix)
        for k in range(n + 1):
            for cause in ("cancel", "deadline"):
                out.append({"kind": "tw", "recover": True, "bypass": "none", "maxbytes": 0, "clen": -1, "rh0": [],
                            "acts": list(prefix), "fire": {"mode": "cut", "k": k, "cause": cause}})
        out.append({"kind": "tw", "recover": True, "bypass": "none", "maxbytes": 0, "clen": -1, "rh0": [],
                    "acts": list(prefix), "fire": {"mode": "none", "k": 0, "cause": "none"}})
        out.append({"kind": "tw", "recover": False, "bypass": "none", "maxbytes": 0, "clen": -1, "rh0": [],
                    "acts": list(prefix), "fire": {"mode": "none", "k": 0, "cause": "none"}})
        if depth == 0:
            return
        for a in alpha:
            rec(prefix + [dict(a)], depth - 1)
    rec([], 3)
    return out


def generate(rng, tier, n):
    cases = []
    for _ in range(n):
        r = rng.random()
        if r < 0.5:
            cases.append(gen_tw(rng))
        elif r < 0.62:
            cases.append(gen_conns(rng))
        elif r < 0.76:
            cases.append(gen_rpc(rng))
        elif r < 0.9:
            cases.append(gen_multi(rng))
        else:
            cases.append(gen_rmulti(rng))
    cases += value_matrix(e2e=tier in ("thorough", "search"))
    cases += config_matrix(rng) + rsrv_matrix(rng) + status_matrix(rng) + panic_chain_matrix(rng) + g_matrix(rng)
    cases += hdr_matrix(rng) + cancel_matrix(rng) + plumbing_matrix(rng) + prom_matrix(rng) + gated_body_matrix(rng)
    for c in cases:             # a small adversarial-header dimension on the random error-path cases too
        if "hdrs" not in c and rng.random() < 0.3 and (
                (c.get("kind") == "tw" and (_has_panic(c) or 0 < c["maxbytes"] < c["clen"])) or c.get("kind") == "conns"):
            c["hdrs"] = gen_hdrs(rng)
        if "gated_body" not in c and rng.random() < 0.25 and (
                (c.get("kind") == "tw" and c["clen"] > 0 and (_has_panic(c) or 0 < c["maxbytes"] < c["clen"])) or c.get("kind") == "conns"):
            c["gated_body"] = True
    cases += [gen_g(rng) for _ in range(120 if tier == "thorough" else 12)]
    extra = 60 if tier == "thorough" else 8
    cases += [gen_e2ec(rng) for _ in range(extra)] + [gen_rsrv(rng) for _ in range(2 * extra)]
    if tier == "thorough":
        cases += [gen_e2ec(rng, g=LARGE_MS, r=0, verbose=v, body=("many", 210000), hold=0) for v in (False, True)]
    rng.shuffle(cases)      # spread the expensive cases over the evaluation shards
    if tier == "thorough":
        cases += systematic()
        cases += [gen_e2e(rng) for _ in range(120)]
        cases += [gen_e2em(rng) for _ in range(60)]
    elif tier == "search":
        cases += [gen_e2e(rng) for _ in range(40)]
        cases += [gen_e2em(rng) for _ in range(24)]
    return cases


def search(rng, problems):
    """directed cases: the boundaries and orders a behaviour-changing edit of the guards would move"""
    out = []
    base = {"kind": "tw", "recover": True, "bypass": "none", "maxbytes": 0, "clen": -1, "rh0": [],
            "fire": {"mode": "none", "k": 0, "cause": "none"}}
    for m in (1, 10, 100):
        for d in (-1, 0, 1):
            out.append(dict(base, maxbytes=m, clen=m + d, acts=[{"a": "wh", "c": 201}, {"a": "w", "b": "a"}]))
    for n in (1, 2):
        for inner in (False, True):
            ops = [{"op": "enter", "i": i} for i in range(n + 1)]
            ops += [{"op": "leave", "i": 0, "panic": True}, {"op": "enter", "i": n + 1}, {"op": "leave", "i": n + 1, "panic": False},
                    {"op": "enter", "i": n + 2}]
            out.append({"kind": "conns", "n": n, "reqs": n + 3, "inner": inner, "ops": ops})
    for cause in ("cancel", "deadline"):
        for h in ({"t": "ret", "resp": 7, "code": 0}, {"t": "ret", "resp": None, "code": 5}, {"t": "panic"}):
            out.append({"kind": "rpc", "crash": True, "timeout": True, "h": h, "fire": {"mode": "before", "cause": cause}})
    out += [c for c in systematic() if len(c["acts"]) <= 2]
    pan = [{"a": "set", "k": 0, "v": 1}, {"a": "wh", "c": 201}, {"a": "w", "b": "ab"}, {"a": "panic"}, {"a": "w", "b": "c"}]
    for k in range(len(pan) + 1):
        out.append({"kind": "e2e", "maxbytes": 0, "clen": 0, "acts": pan[:k] + [{"a": "panic"}], "fire": {"mode": "none", "k": 0}})
        out.append({"kind": "e2e", "maxbytes": 0, "clen": 0, "acts": pan, "fire": {"mode": "cut", "k": k}})
    for d in (-1, 0, 1):
        out.append({"kind": "e2e", "maxbytes": 10, "clen": 10 + d, "acts": pan[:3], "fire": {"mode": "none", "k": 0}})
    # overlapping requests through one instance: both inside, then each to its end; and: #0 abandoned while
    # parked, #1 afterwards
    a0 = [{"a": "set", "k": 0, "v": 1}, {"a": "wh", "c": 201}, {"a": "w", "b": "ab"}]
    a1 = [{"a": "set", "k": 1, "v": 2}, {"a": "wh", "c": 404}, {"a": "w", "b": "xyz"}]
    st = lambda r, n: [{"op": "step", "r": r}] * n
    for cause in ("cancel", "deadline"):
        mreqs = [{"rh0": [], "acts": a0, "cause": cause}, {"rh0": [], "acts": a1, "cause": cause}]
        out.append({"kind": "multi", "recover": True, "mreqs": mreqs,
                    "mops": [{"op": "start", "r": 0}, {"op": "start", "r": 1}] + st(0, 2) + st(1, 2) + st(0, 2) + st(1, 2)})
        out.append({"kind": "multi", "recover": True, "mreqs": mreqs,
                    "mops": [{"op": "start", "r": 0}] + st(0, 2) + [{"op": "fire", "r": 0}, {"op": "start", "r": 1}] + st(1, 4)})
        for h1 in ({"t": "ret", "resp": 3, "code": 0}, {"t": "ret", "resp": None, "code": 5}, {"t": "panic"}):
            calls = [{"h": {"t": "ret", "resp": 7, "code": 0}, "cause": cause}, {"h": h1, "cause": cause}]
            out.append({"kind": "rmulti", "crash": True, "timeout": True, "calls": calls,
                        "mops": [{"op": "start", "r": 0}, {"op": "start", "r": 1}, {"op": "step", "r": 1}, {"op": "step", "r": 0}]})
            out.append({"kind": "rmulti", "crash": True, "timeout": True, "calls": calls,
                        "mops": [{"op": "start", "r": 0}, {"op": "fire", "r": 0}, {"op": "start", "r": 1}, {"op": "step", "r": 1}]})
    return out


# ------------------------------------------------------------------------------ driving both packages
def as_tw(c):
    """a `g` case is a `tw` case for the driver (same runner), with a gconf and possibly `err` actions"""
    if c.get("kind") != "g":
        return c
    return dict(c, kind="tw", bypass="none", maxbytes=0, clen=-1)


def drive(cases, tier):
    rest = [c for c in cases if c.get("kind") in ("tw", "conns", "multi", "g")]
    rpc = [c for c in cases if c.get("kind") in ("rpc", "rmulti")]
    e2e = [c for c in cases if c.get("kind") in ("e2e", "e2em", "e2ec", "e2ecn") and not c.get("prom")]
    prom = [c for c in cases if c.get("prom")]        # own process: Prometheus enabled, stat report writer stalled
    rsrv = [c for c in cases if c.get("kind") == "rsrv"]
    log = ""
    tag = {"quick": "", "thorough": "t", "search": "s"}.get(tier, tier[:1])
    obs_rest, l1 = vlib.run_driver(GO_PKG, [as_tw(c) for c in rest], name="C02" + tag, timeout=DRIVER_TIMEOUT, run=REST_RUN) if rest else ([], "")
    log += l1 or ""
    if obs_rest is None:
        return None, log
    # a real-timer cut the scheduler could not deliver after 8 attempts: same schedule with the scripted deadline
    redo = [i for i, o in enumerate(obs_rest) if o.get("gave_up") and rest[i].get("kind") in ("tw", "g")]
    if redo:
        for i in redo:
            rest[i]["fire"]["cause"] = "deadline"
        o2, l2 = vlib.run_driver(GO_PKG, [as_tw(rest[i]) for i in redo], name="C02" + tag + "x", timeout=DRIVER_TIMEOUT, run=REST_RUN)
        log += l2 or ""
        if o2 is None:
            return None, log
        for i, o in zip(redo, o2):
            obs_rest[i] = o
    obs_rpc, l3 = vlib.run_driver(RPC_PKG, rpc, name="C02" + tag + "r", timeout=DRIVER_TIMEOUT) if rpc else ([], "")
    log += l3 or ""
    if obs_rpc is None:
        return None, log
    obs_e2e, l4 = vlib.run_driver(E2E_PKG, e2e, name="C02" + tag + "e", timeout=DRIVER_TIMEOUT, run=REST_RUN) if e2e else ([], "")
    log += l4 or ""
    if obs_e2e is None:
        return None, log
    obs_prom, l6 = vlib.run_driver(E2E_PKG, prom, name="C02" + tag + "p", timeout=DRIVER_TIMEOUT, run=REST_RUN,
                                   env={"VERIF_C02_PROM": "1"}) if prom else ([], "")
    log += l6 or ""
    if obs_prom is None:
        return None, log
    obs_rsrv, l5 = vlib.run_driver(RSRV_PKG, rsrv, name="C02" + tag + "v", timeout=DRIVER_TIMEOUT, run=REST_RUN) if rsrv else ([], "")
    log += l5 or ""
    if obs_rsrv is None:
        return None, log
    it_rpc, it_e2e, it_rest, it_rsrv = iter(obs_rpc), iter(obs_e2e), iter(obs_rest), iter(obs_rsrv)
    its = {"rpc": it_rpc, "rmulti": it_rpc, "e2e": it_e2e, "e2em": it_e2e, "e2ec": it_e2e, "e2ecn": it_e2e, "rsrv": it_rsrv}
    it_prom = iter(obs_prom)
    return [next(it_prom) if c.get("prom") else (next(its[c["kind"]]) if c.get("kind") in its else next(it_rest)) for c in cases], log


# ------------------------------------------------------------------------------ encoding to Exec.case
def c_lnat(xs):
    return clist([cnat(x) for x in xs])


def c_hdrs(hs):
    return clist([cpair(cnat(h["k"]), c_lnat(h.get("v") or [])) for h in (hs or [])])


def c_action(a):
    k = a["a"]
    if k == "set":
        return "SetHeader %s %s" % (cnat(a["k"]), cnat(a["v"]))
    if k == "add":
        return "AddHeader %s %s" % (cnat(a["k"]), cnat(a["v"]))
    if k == "del":
        return "DelHeader %s" % cnat(a["k"])
    if k == "wh":
        return "WriteHeader %s" % cZ(a["c"])
    if k == "w":
        if a.get("rep"):
            return "Write (repeat %s %s)" % (cnat(a["rep"]["b"]), cnat(a["rep"]["n"]))
        return "Write %s" % c_lnat(list(a["b"].encode()))
    return "PanicA %s" % PV_COQ.get(a.get("pv") or "string", "PVString")


def c_hres(h):
    if h["t"] == "panic":
        return "(HPanics %s)" % PV_COQ.get(h.get("pv") or "string", "PVString")
    return "(HReturn %s %s)" % (copt(None if h.get("resp") is None else cnat(h["resp"])), cnat(h["code"]))


def c_cause(s):
    return "CCancel" if s == "cancel" else "CTimeout"


def c_outcome(s):
    if s == "ok":
        return "OOk"
    if s == "timeout":
        return "OErrTimeout"
    if s.startswith("w:"):
        return "(OWrote %s)" % cnat(int(s[2:]))
    return "OPanic"


def c_event(e):
    if e["t"] == "wh":
        return "RWriteHeader %s %s" % (cZ(e.get("c", 0)), c_hdrs(e.get("h")))
    return "RWrite %s" % c_lnat(e.get("b") or [])


def encode(case, obs):
    kind = case.get("kind")
    if kind == "e2el":
        bad = "driver_panic" in obs or "error" in obs
        return "CaseL (mklc %s %s %s %s %s %s)" % (cnat(case["total"]), cZ(case["gtimeout_ms"]), cnat(obs.get("answered", 0)),
                                                  cnat(obs.get("bad", 0)), cZ(obs.get("max_ms", 0)), cbool(obs.get("hung", False) or bad))
    if kind == "e2ecn":
        if case["guard"] == "breaker":
            return "CaseB (mkbc %s %s %s %s)" % (cnat(obs.get("total", case["total"])), cnat(obs.get("failed", 0)),
                                                 cnat(obs.get("rejected", 0)), cnat(obs.get("other", 0) + (1 if "driver_panic" in obs else 0)))
        # the same admission schedule as the in-package kind, around the engine's Timeout+Recover
        return encode(dict(case, kind="conns", inner=True), obs)
    if kind == "g":
        gc = case["gconf"]
        gb = {"nil": "GBNil", "err": "GBErr", "json": "GBJson"}[gc["body"]]
        conf = {"none": "GNone", "plain": "(GPlain %s %s)" % (cZ(gc["code"]), gb), "ctx": "(GCtx %s %s)" % (cZ(gc["code"]), gb)}[gc["mode"]]
        f = case["fire"]
        fire = {"none": "FNone", "cut": "(FCut %s %s)" % (cnat(f["k"]), c_cause(f["cause"])),
                "both": "(FBoth %s)" % c_cause(f["cause"])}[f["mode"]]
        acts = clist(["GError %s" % cbool(a.get("ctx", False)) if a["a"] == "err" else "GPrim (%s)" % c_action(a) for a in case["acts"]])
        r = obs.get("resp") or {}
        bad = "error" in obs or "driver_panic" in obs or obs.get("gave_up")
        return "CaseG (mkgc %s %s %s %s %s %s (mkresp %s %s %s) %s %s)" % (
            conf, cbool(case["recover"]), c_hdrs(case["rh0"]), acts, fire,
            clist([c_event(e) for e in obs.get("events") or []]) if not bad else "[RWrite []; RWrite []]",
            cZ(r.get("status", 0)), c_hdrs(r.get("h")), c_lnat(r.get("body") or []),
            clist([c_outcome(t) for t in obs.get("trace") or []]), cbool(obs.get("panicked", False)))
    if kind == "e2ec":
        if obs.get("gave_up"):
            return "CaseM (mkmc true [] [])"      # the scheduler never delivered this schedule: nothing to compare
        r = obs.get("resp")
        answered = r is not None
        r = r or {}
        body = "(unrle %s)" % clist([cpair(cnat(b), cnat(n)) for b, n in r.get("rle") or []])
        ref = obs.get("ref")
        if case.get("ref") and (not ref or "client_error" in ref):
            answered = False          # the reference run itself failed: nothing to compare with
        if ref and "client_error" not in ref:
            cref = "(Some (mkresp %s %s (unrle %s), %s))" % (
                cZ(ref.get("status", 0)), c_hdrs(ref.get("h")), clist([cpair(cnat(b), cnat(n)) for b, n in ref.get("rle") or []]),
                clist([cZ(x) for x in ref.get("info") or []]))
        else:
            cref = "None"
        return "CaseE (mkec %s %s %s %s %s %s %s (mkresp %s %s %s) %s %s %s %s %s)" % (
            cZ(case["gtimeout_ms"]), cZ(case["rtimeout_ms"]), cbool(case["verbose"]), cZ(case["hold_ms"]), cnat(case["k"]),
            cbool(case.get("cancel", False)), clist([c_action(a) for a in case["acts"]]), cZ(r.get("status", 0)), c_hdrs(r.get("h")), body,
            clist([c_outcome(t) for t in obs.get("trace") or []]), cbool(answered), cbool(obs.get("prompt", False)),
            clist([cZ(x) for x in r.get("info") or []]), cref)
    if kind == "rsrv":
        if obs.get("panicked"):
            res = "RPropagatedPanic"
        else:
            rv, code = obs.get("resp"), obs.get("code", 4999)
            res = "(RResult %s %s)" % (copt(None if rv is None else cnat(rv if rv >= 0 else 4999)), cnat(code if code >= 0 else 4999))
        bad = obs.get("hung", False) or "error" in obs or "driver_panic" in obs or not obs.get("entered", False)
        return "CaseS (mksc %s %s %s %s %s %s %s %s)" % (cZ(case["timeout_ms"]), cZ(case["hold_ms"]), c_hres(case["h"]), res,
                                                        cbool(bad), cbool(obs.get("prompt", False)),
                                                        cZ(obs.get("deadline_ms", -1)), cZ(obs.get("reply_ms", 0)))
    if kind in ("multi", "e2em"):
        ops = clist(["%s %s" % ({"start": "MOStart", "step": "MOStep", "fire": "MOFire"}[o["op"]], cnat(o["r"])) for o in case["mops"]])
        robs = obs.get("reqs")
        if obs.get("gave_up"):
            # the scheduler never delivered this schedule (a route timer fired early 4 times): nothing to compare
            return "CaseM (mkmc true %s [])" % ops
        qs = []
        for i, q in enumerate(case["mreqs"]):
            o = robs[i] if robs and i < len(robs) else {}
            bad = not o.get("started") or "client_error" in o or (kind == "e2em" and o.get("resp") is None)
            r = o.get("resp") or {}
            if kind == "e2em":
                events = [{"t": "wh", "c": r.get("status", 0), "h": r.get("h")}, {"t": "w", "b": r.get("body")}]
            else:
                events = o.get("events") or []
            qs.append("(mkmq %s %s %s %s (mkresp %s %s %s) %s %s %s)" % (
                c_hdrs(q.get("rh0")), clist([c_action(a) for a in q["acts"]]), c_cause(q.get("cause", "deadline")),
                clist([c_event(e) for e in events]) if not bad else "[RWrite []; RWrite []]",
                cZ(r.get("status", 0)), c_hdrs(r.get("h")), c_lnat(r.get("body") or []),
                clist([c_outcome(t) for t in o.get("trace") or []]), cbool(o.get("panicked", False)),
                cbool(bool(o.get("blocked")) or bad)))
        return "CaseM (mkmc %s %s %s)" % (cbool(case.get("recover", True)), ops, clist(qs))
    if kind == "rmulti":
        ops = clist(["%s %s" % ({"start": "MOStart", "step": "MOStep", "fire": "MOFire"}[o["op"]], cnat(o["r"])) for o in case["mops"]])
        robs = obs.get("calls")
        qs = []
        for i, q in enumerate(case["calls"]):
            o = robs[i] if robs and i < len(robs) else {}
            h = q["h"]
            hres = c_hres(h)
            if o.get("panicked"):
                res = "RPropagatedPanic"
            else:
                rv = o.get("resp")
                code = o.get("code", 4999)
                res = "(RResult %s %s)" % (copt(None if rv is None else cnat(rv if rv >= 0 else 4999)), cnat(code if code >= 0 else 4999))
            qs.append("(mkrq %s %s %s %s)" % (hres, c_cause(q["cause"]), res, cbool(bool(o.get("blocked")) or not o.get("started"))))
        return "CaseRM (mkrmc %s %s %s)" % (cbool(case["crash"]), ops, clist(qs))
    if kind == "e2e":
        # a client saw exactly one response: one commit carrying that status/headers/body
        r = obs.get("resp")
        k = obs.get("k_used", case["fire"]["k"])
        tcase = {"kind": "tw", "recover": True, "bypass": "none", "maxbytes": case["maxbytes"], "clen": case["clen"], "rh0": [],
                 "acts": case["acts"],
                 "fire": {"mode": case["fire"]["mode"], "k": k, "cause": "real"}}
        if r is None:
            tobs = {"error": obs.get("client_error") or obs.get("driver_panic") or "no response"}
        else:
            tobs = {"events": [{"t": "wh", "c": r["status"], "h": r.get("h")}, {"t": "w", "b": r.get("body")}], "resp": r,
                    "trace": obs.get("trace") or [], "panicked": False}
        return encode(tcase, tobs)
    if kind == "tw":
        f = case["fire"]
        fire = {"none": "FNone", "cut": "(FCut %s %s)" % (cnat(f["k"]), c_cause(f["cause"])),
                "both": "(FBoth %s)" % c_cause(f["cause"])}[f["mode"]]
        byp = {"none": "BNone", "upgrade": "BUpgrade", "zero": "BZero"}[case["bypass"]]
        r = obs.get("resp") or {}
        resp = "(mkresp %s %s %s)" % (cZ(r.get("status", 0)), c_hdrs(r.get("h")), c_lnat(r.get("body") or []))
        bad = "error" in obs or "driver_panic" in obs or obs.get("gave_up")
        return "CaseT (mktc %s %s %s %s %s %s %s %s %s %s %s)" % (
            cbool(case["recover"]), byp, cZ(case["maxbytes"]), cZ(case["clen"]), c_hdrs(case["rh0"]),
            clist([c_action(a) for a in case["acts"]]), fire,
            clist([c_event(e) for e in obs.get("events") or []]) if not bad else "[RWrite []; RWrite []]",
            resp, clist([c_outcome(t) for t in obs.get("trace") or []]), cbool(obs.get("panicked", False)))
    if kind == "conns":
        ops = ["MEnter %s" % cnat(o["i"]) if o["op"] == "enter" else "MLeave %s %s" % (cnat(o["i"]), cbool(o.get("panic", False)))
               for o in case["ops"]]
        os_ = []
        for o in obs.get("ops") or []:
            if o["o"] == "in":
                os_.append("CIn")
            elif o["o"] == "rejected":
                os_.append("CRejected %s %s" % (cZ(o["status"]), cbool(o["ran"])))
            elif o["o"] == "left":
                os_.append("CLeft %s %s" % (cZ(o["status"]), cbool(o["propagated"])))
            else:
                os_.append("CBad")
        return "CaseC (mkcc %s %s %s %s %s)" % (cZ(case["n"]), cnat(case["reqs"]), cbool(case["inner"]), clist(ops), clist(os_))
    h = case["h"]
    hres = c_hres(h)
    f = case["fire"]
    fire = {"none": "RNone", "before": "(RBefore %s)" % c_cause(f["cause"]), "both": "(RBoth %s)" % c_cause(f["cause"])}[f["mode"]]
    if obs.get("panicked"):
        res = "RPropagatedPanic"
    else:
        rv = obs.get("resp")
        res = "(RResult %s %s)" % (copt(None if rv is None else cnat(rv if rv >= 0 else 4999)), cnat(obs.get("code", 4999) if obs.get("code", 4999) >= 0 else 4999))
    hung = obs.get("hung", False) or "error" in obs or "driver_panic" in obs
    return "CaseR (mkrc %s %s %s %s %s %s)" % (cbool(case["crash"]), cbool(case["timeout"]), hres, fire, res, cbool(hung))


# ------------------------------------------------------------------------------ evidence helpers
def _has_panic(case):
    return any(a["a"] == "panic" or (a["a"] == "wh" and not 100 <= a["c"] <= 599) for a in case["acts"])


def nontrivial(case, obs):
    k = case.get("kind")
    if k == "e2el":
        return True
    if k == "e2ecn":
        return True
    if k == "g":
        return case["gconf"]["mode"] != "none" or case["fire"]["mode"] != "none"
    if k == "e2ec":
        return bool(case["hold_ms"]) or sum((a.get("rep") or {}).get("n", 0) for a in case["acts"]) > 32768
    if k == "rsrv":
        return bool(case["hold_ms"]) or case["h"]["t"] == "panic"
    if k in ("multi", "rmulti", "e2em"):
        return (obs.get("max_inside") or 0) >= 2
    if k == "e2e":
        return case["fire"]["mode"] != "none" or _has_panic(case) or 0 < case["maxbytes"] < case["clen"]
    if k == "tw":
        return case["fire"]["mode"] != "none" or _has_panic(case) or 0 < case["maxbytes"] < case["clen"]
    if k == "conns":
        return any(o.get("o") == "rejected" for o in obs.get("ops") or [])
    return case["fire"]["mode"] != "none" or case["h"]["t"] == "panic"


def bucket(case, obs):
    k = case.get("kind")
    out = ["kind:" + k]
    for h in case.get("hdrs") or []:
        out.append("hdr:%s=%s" % (h["n"], h["kind"]))
    if case.get("gated_body"):
        out.append("gated-body:" + k)
    if k == "e2el":
        out.append("e2el.requests=%s" % case["total"])
        return out
    if case.get("reqpath"):
        out.append("e2ec.raw-path:" + case["reqpath"])
    if k == "e2ecn":
        out.append("e2ecn.%s/%s" % (case["guard"], case["via"]))
        if case["guard"] == "breaker":
            out.append("e2ecn.breaker-rejected=%s" % obs.get("rejected"))
        return out
    if k == "e2ec" and case.get("cancel"):
        out.append("e2ec.client-cancel")
    if k == "g":
        out.append("g.handler=%s/%s" % (case["gconf"]["mode"], case["gconf"]["body"]))
        out.append("g.fire:%s/%s" % (case["fire"]["mode"], case["fire"]["cause"]))
        out.append("g.status=%s" % (obs.get("resp") or {}).get("status"))
        if any(a["a"] == "err" for a in case["acts"]):
            out.append("g.httpx-error-by-handler")
        return out
    if k == "e2ec":
        if case.get("full"):
            out.append("e2ec.full-chain")
        if (obs.get("resp") or {}).get("info"):
            out.append("e2ec.informational")
        if case.get("ref"):
            out.append("e2ec.reference-compared")
        if _has_panic(case):
            out.append("e2ec.panic/timeout=%s" % bool(case["rtimeout_ms"] or case["gtimeout_ms"]))
        eff = case["rtimeout_ms"] or case["gtimeout_ms"]
        out.append("e2ec.global=%d/route=%d" % (case["gtimeout_ms"], case["rtimeout_ms"]))
        out.append("e2ec.%s" % ("overrun" if case["hold_ms"] and 0 < eff < case["hold_ms"] else ("held-no-deadline" if case["hold_ms"] else "instant")))
        out.append("e2ec.verbose=%s" % case["verbose"])
        out.append("e2ec.body=%s" % (obs.get("resp") or {}).get("len"))
        out.append("e2ec.status=%s" % (obs.get("resp") or {}).get("status"))
        if obs.get("retries"):
            out.append("e2ec.retried")
    elif k == "rsrv":
        out.append("rsrv.timeout=%d/hold=%d" % (case["timeout_ms"], case["hold_ms"]))
        out.append("rsrv.code=%s" % obs.get("code"))
        if case["cpu"]:
            out.append("rsrv.shedding-installed")
    elif k in ("multi", "rmulti", "e2em"):
        out.append("%s.max-inside=%s" % (k, obs.get("max_inside")))
        out.append("%s.requests=%d" % (k, len(case.get("mreqs") or case.get("calls"))))
        if any(o["op"] == "fire" for o in case["mops"]):
            out.append(k + ".some-deadline")
            fi = next(j for j, o in enumerate(case["mops"]) if o["op"] == "fire")
            if any(o["op"] == "start" for o in case["mops"][fi:]):
                out.append(k + ".start-after-abandoned")
        if obs.get("retries"):
            out.append(k + ".retried")
        if obs.get("gave_up"):
            out.append(k + ".gave-up")
    elif k == "e2e":
        out.append("e2e.fire:" + case["fire"]["mode"])
        out.append("e2e.status=%s" % ((obs.get("resp") or {}).get("status")))
        if obs.get("retries"):
            out.append("e2e.real-timer-retried")
    elif k == "tw":
        f = case["fire"]
        out.append("tw.fire:%s/%s" % (f["mode"], f["cause"]))
        out.append("tw.acts=%d" % len(case["acts"]))
        out.append("tw.status=%s" % ((obs.get("resp") or {}).get("status")))
        if obs.get("panicked"):
            out.append("tw.server-panic")
        if _has_panic(case):
            out.append("tw.handler-panics")
        for a in case["acts"]:
            if a["a"] == "panic":
                out.append("tw.panic-value:" + (a.get("pv") or "string"))
        if not case["recover"]:
            out.append("tw.no-recover")
        if case["bypass"] != "none":
            out.append("tw.bypass:" + case["bypass"])
        if 0 < case["maxbytes"] < case["clen"]:
            out.append("tw.413")
        if "timeout" in (obs.get("trace") or []):
            out.append("tw.late-write-refused")
        if obs.get("retries"):
            out.append("tw.real-timer-retried")
    elif k == "conns":
        out.append("conns.n=%d" % case["n"])
        out.append("conns.rejected=%d" % sum(1 for o in obs.get("ops") or [] if o.get("o") == "rejected"))
        if case["inner"]:
            out.append("conns.around-timeout")
    else:
        out.append("rpc.fire:%s/%s" % (case["fire"]["mode"], case["fire"]["cause"]))
        out.append("rpc.code=%s" % obs.get("code"))
        if case["h"]["t"] == "panic":
            out.append("rpc.panic-value:%s/timeout=%s" % (case["h"].get("pv") or "string", case["timeout"]))
        if obs.get("hung"):
            out.append("rpc.hung")
        if obs.get("panicked"):
            out.append("rpc.server-panic")
    return out


def explain(case, obs):
    k = case.get("kind")
    if k == "e2el":
        return ("with the stat report writer stalled, 9000 requests of an instant handler through one route of the engine chain must "
                "all be answered by the handler within the route timeout: recording metrics must never block the request path")
    if k == "e2ecn":
        return ("a stateful guard installed through the public plumbing (Server.Use / WithMiddleware(s) + ToMiddleware; theorem "
                "c02_limiter_state_is_shared): MaxConns(n) must turn away (503, handler not run) exactly the arrival that finds n "
                "requests inside and admit again once one has left; a breaker must cut off a route whose 60 requests all fail -- "
                "the guard's state belongs to the installation, not to the request")
    if k == "g":
        return ("application-wide httpx error handler (C02.Exec.spec_ok_g, theorem c02_timeout_reply_ignores_plain_error_handler): a "
                "handler parked at its deadline must be answered 503 (499 on client cancel) + 'Request Timeout' whatever "
                "httpx.SetErrorHandler installed (only a SetErrorHandlerCtx handler decides that reply); errors the handler "
                "reports through httpx.Error / ErrorCtx are answered by the handler installed for that function, else 400 + text")
    if k == "e2ec":
        return ("engine-built chain (C02.Exec.spec_ok_e): with server-wide timeout gtimeout_ms and route timeout rtimeout_ms the "
                "deadline that applies is the route's if present, else the server's (c02_effective_deadline); a handler parked "
                "beyond it must be answered 503 + 'Request Timeout' while still parked and none of its bytes/headers may arrive; "
                "otherwise the client must receive exactly the handler's status, headers and body, byte for byte whatever the "
                "size and whichever log handler is installed (c02_log_wrappers_transparent)")
    if k == "rsrv":
        return ("real started rpc server (C02.Exec.spec_ok_s): with ServerConfig.Timeout > 0 a handler that ignores its context "
                "and overruns the timeout must yield (nil, DeadlineExceeded) at the deadline, i.e. while it is still parked; "
                "otherwise the handler's own result; Internal on panic")
    if k in ("tw", "e2e"):
        return ("observed response contradicts C02.Exec.spec_ok_t: under the forced schedule (fire) the client must see exactly "
                "the handler's buffered response (Spec.handler_response: status/headers/body, 500 on an uncommitted panic) or "
                "exactly the timeout response (499/503 + 'Request Timeout', no handler header/byte), committed once; "
                "ContentLength > MaxBytes > 0 must give 413 without running the handler")
    if k in ("multi", "e2em", "rmulti"):
        return ("several requests through ONE middleware/interceptor instance (C02.Exec.spec_ok_m / spec_ok_rm, theorem "
                "c02_requests_independent): some request did not get exactly its own handler's response or its own timeout "
                "response under its own part of the schedule, or was held up ('blocked') although nothing it needs was outstanding")
    if k == "conns":
        return ("observed admission contradicts C02.Exec.spec_ok_c: a request may be turned away (503, handler not run) only "
                "when n requests are inside, must be let in otherwise, and a request that left (return or panic) frees its slot")
    return ("observed result contradicts C02.Exec.spec_ok_r: with the deadline forced while the handler is parked the chain must "
            "return (nil, DeadlineExceeded|Canceled) promptly; otherwise the handler's (resp, err); Internal on panic under Crash")
