"""C08 rate limiters: period limiter / token limiter histories on miniredis with steered clocks and outages.

Interface used by vlib.check: see props/c13.py.

Case JSON (one of):
  {"kind":"period","lims":[{"period","quota","align","pfx"}...],"t0":ms,"ops":[
       {"op":"take","lim","key","down","cut"} | {"op":"tick","ms"} | {"op":"conc","lim","key","g"} | {"op":"replace"}]}
  {"kind":"token","rate","burst","insts":1|2,"t0":ms,"ops":[
       {"op":"allow","inst","n","ctx","skew"} | {"op":"tick","ms"} | {"op":"conc","inst","g","n","slow"} |
       {"op":"fault","eval","ping","hard","hang"} | {"op":"replace","eval","ping"} |
       {"op":"sleep","ms"}  (a tick that also takes the same real time: the monitor keeps pinging)]}
  take cut: the caller's context is cancelled by a pre-hook at the moment the take reaches the server.
  conc slow: the G script calls wait for each other in a pre-hook (all in flight at once), then run.
  allow ctx: 0 live, 1 cancelled, 2 deadline passed, 3 deadline (40 ms) expires while the EVAL is in flight
  (pre-hook parks the EVAL; it is dropped afterwards). fault hang: every command is accepted and never answered.
  token "rto": go-redis read/write/dial timeout in ms for this case (hang cases). period "clk":"real","skew":s:
  the server clock is the callers' wall clock + s seconds (default: a scripted clock in 2020).
  replace = the miniredis is closed and a NEW instance (empty data, empty script cache) is started on the
  same address; limiters with the same pfx / the token instances share their Redis keys.
"""
from vlib import cZ, cnat, cbool, clist, cpair

ID = "C08"
GO_PKG = "./lib/limit"
_P = "lib/limit/periodlimit.go"
_T = "lib/limit/tokenlimit.go"
GEN_SPEC = {"items": [
    {"kind": "const", "file": _P, "name": "periodScript"},
    {"kind": "const", "file": _T, "name": "script", "as": "tokenScript"},
    {"kind": "const", "file": _P, "name": "Unknown"},
    {"kind": "const", "file": _P, "name": "Allowed"},
    {"kind": "const", "file": _P, "name": "HitQuota"},
    {"kind": "const", "file": _P, "name": "OverQuota"},
    {"kind": "const", "file": _P, "name": "internalOverQuota"},
    {"kind": "const", "file": _P, "name": "internalAllowed"},
    {"kind": "const", "file": _P, "name": "internalHitQuota"},
    {"kind": "const", "file": _T, "name": "pingInterval"},
    {"kind": "const", "file": _T, "name": "tokenFormat"},
    {"kind": "const", "file": _T, "name": "timestampFormat"},
    {"kind": "calls", "file": _P, "func": "PeriodLimit.TakeCtx", "as": "take_calls"},
    {"kind": "calls", "file": _T, "func": "TokenLimiter.reserveN", "as": "reserve_calls"},
    {"kind": "calls", "file": _T, "func": "TokenLimiter.startMonitor", "as": "start_monitor_calls"},
    {"kind": "calls", "file": _T, "func": "TokenLimiter.waitForRedis", "as": "wait_for_redis_calls"},
]}
QUICK_N = 300
THOROUGH_N = 5000
SHARD = 100
DRIVER_TIMEOUT = 1500
RULE = ("period cases: 1-2 limiters (period 1..60 s, quota 0..8, 25% Align()), 1-3 keys, 8-30 ops of Take / "
        "clock steps {0,1,999,1000,window-1s,window-1ms,window,window+1ms,window+1s,random} applied to miniredis "
        "(FastForward) / G concurrent Takes, up to 3 takes with Redis failing; token cases: rate 1..50, burst 1..30 "
        "(5% with 2*burst<rate, 1% rate 0), 8-35 ops of AllowNCtx(now,n) with n in 0..burst+1 and scripted now, "
        "clock steps {0,1,1000/rate+-1,999,1000,1001,(ttl-1)s,ttl s-1ms,ttl s,ttl s+1ms,(ttl+1)s,random} applied to "
        "both clocks, cancelled / expired contexts, G concurrent AllowN, and (22% of token cases) "
        "outage patterns (EVAL and/or PING answered with errors, or listener closed and restarted) with the monitor "
        "awaited whenever PING is answered; every run starts with long outages (quick: 2 s and 3 s, thorough: 24 of "
        "1.5-10 s REAL time, 30% with the listener closed) during which the 100 ms monitor keeps pinging in vain, followed by "
        "recovery (restart or replacement) and 10-14 requests that must all be decided by Redis again, with a HANG outage "
        "(quick: two with 200 ms client timeouts and one with the 3 s defaults = about 12 s for the request that runs into it, driven in a process of its own next to the others; thorough: four short and one default: the server accepts "
        "every command and never answers), with deadlines expiring while the EVAL is in flight on a healthy Redis (also 3% "
        "of the random requests) and with window-edge histories on servers one hour ahead of / behind the callers' wall "
        "clock, with pairs of distinct period keys longer than 128 bytes that share their first 128 / 200 bytes (three directed "
        "cases; also in 30% of the random period cases), with another handle to the same address piling up 400 WRONGTYPE errors (first cases of the run; also 10% of "
        "the random cases), with Align() limiters that live through 1-11 s of real time between construction, takes and "
        "windows (server stepped to each window's aligned end +-1 ms), with the forced recovery race (late failure queued on "
        "rescueLock ahead of the monitor's deferred reset; alive-or-monitored asserted at every quiescent point), "
        "with 8/16/32 concurrent callers whose script calls are all in flight at once on a slow healthy Redis (pre-hook "
        "barrier; also 30% of the random concurrent ops), with takes whose caller's context is cancelled at the moment the "
        "take reaches the server (first take of a window; also 4% of the random takes) and with staircase histories (a too "
        "large request refused, smaller fitting ones in the same second granted; also 5% of the random cases) (60% of the random period cases run on such a skewed real clock: 0, +-7 s, +-1 h, +-400 d); the server that comes back is in 40% of the recoveries a REPLACEMENT (old miniredis "
        "closed, a new one started on the same address: empty data and script cache), also swapped in between calls of a "
        "healthy limiter (15% of the non-outage token cases, 20% of the period cases); 30% of the token cases run two "
        "TokenLimiter instances on the one key, 18% of the period cases two PeriodLimit instances on the same keys; non-trivial = (period) a HitQuota/OverQuota and a restart after expiry "
        "were observed, (token) a grant and a refusal by Redis were observed; distinct = distinct canonical case JSON")
TRUSTED = ["miniredis v2.23.1 + gopher-lua stand in for Redis and its Lua 5.1 (INCRBY/EXPIRE/GET/SETEX, ms TTLs, "
           "script atomicity); Lua doubles are exact on the integers involved (< 2^53)",
           "golang.org/x/time/rate v0.3.0 Limiter.AllowN modelled as an exact bucket in milli-tokens "
           "(its float rounding and the 1/(time.Second/rate) limit rounding are not modelled; generated rates keep the "
           "error far below one milli-token)",
           "go-redis v8: a context that is already done never reaches the server; an error reply is not retried",
           "reserveN / the scripts are treated as atomic steps (Redis runs scripts atomically; rescueLimiter has its own mutex)"]
ASSUMPTIONS = ["one clock: the caller's now equals the server clock and never goes back (the driver steps both together; "
               "cases with a skewed caller clock are checked against the model only, label hyp:skew)",
               "2*burst >= rate, rate >= 1, burst >= 1, n >= 0, period >= 1 (other configurations: model agreement only)",
               "per case at most 4 failing Redis calls so that the store's circuit breaker (lib/breaker, 5 protected "
               "requests) never rejects a healthy call",
               "distinct key strings are distinct Redis keys (the model's keys are abstract identifiers; c08_period_keys_independent "
               "is about identifiers): checked on the wire for keys of any length, including pairs longer than 128 bytes "
               "that differ only after a 128 / 200 byte shared prefix",
               "a replaced server has lost the counters / the bucket of the old one: the window automaton and the bucket "
               "restart empty there (spec_ok additionally requires that a decision by Redis leaves level and second in the "
               "two bucket keys of the server that is listening)",
               "the limiter's redis handle adds no memory of its own: whether a call reaches the server depends on the "
               "server only (model: eval_up / ping_up). On the unchanged tree failed pings are not booked by the handle's "
               "breaker; the long-outage cases check this (recovery must show within 3 s of the server answering and "
               "all following requests must be Redis's)",
               "decisions between 'Redis answers again' and the monitor's next ping are exercised only with PING still "
               "failing (deterministic); the 100 ms ping period itself is real time"]

T0_BASE = 1_600_000_000_000


# ----------------------------------------------------------------------------- generation
def _period_case(rng, tier):
    nl = 1 if rng.random() < 0.6 else 2
    lims = []
    for _ in range(nl):
        lims.append({"period": rng.choice([1, 2, 3, 5, 7, 10, 60]), "quota": rng.choice([0, 1, 2, 2, 3, 3, 4, 5, 8]),
                     "align": rng.random() < 0.25})
    for i, l in enumerate(lims):
        l["pfx"] = i
    if nl == 2 and rng.random() < 0.3:
        lims[1] = dict(lims[0])          # a second limiter instance on the same keys
    nkeys = rng.randint(1, 3)
    # key alphabet: short keys 0..nkeys-1; in 30% of the cases also a pair of LONG keys (> 128 bytes) that share
    # their first 128 (100/101, 104/105) or 200 (102/103) bytes
    alphabet = list(range(nkeys))
    if rng.random() < 0.3:
        alphabet += list(rng.choice([(100, 101), (102, 103), (104, 105)])) * 2
    ops = []
    downs = 0
    replaces = 0
    replacing = rng.random() < 0.2
    nops = rng.randint(8, 30)
    for _ in range(nops):
        r = rng.random()
        lim = rng.randrange(nl)
        per = lims[lim]["period"] * 1000
        if r < 0.68:
            down = rng.random() < 0.04 and downs < 3
            downs += down
            op = {"op": "take", "lim": lim, "key": rng.choice(alphabet), "down": bool(down)}
            if not down and rng.random() < 0.04:
                op["cut"] = True       # the caller's context is cancelled when the take reaches the server
            ops.append(op)
        elif r < 0.94:
            ms = rng.choice([0, 1, 999, 1000, per - 1000, per - 1, per, per + 1, per + 1000,
                             rng.randint(0, per * 3 // 2), rng.randint(0, 1500)])
            ops.append({"op": "tick", "ms": max(0, ms)})
        elif replacing and replaces < 2 and r < 0.97:
            replaces += 1
            ops.append({"op": "replace"})
        else:
            ops.append({"op": "conc", "lim": lim, "key": rng.choice(alphabet), "g": rng.randint(2, 8)})
    if rng.random() < 0.1 and not any(op.get("down") for op in ops):
        ops.insert(rng.randrange(len(ops) + 1), {"op": "noise", "n": 400})
    case = {"kind": "period", "lims": lims, "t0": T0_BASE + rng.randrange(10 ** 9), "ops": ops}
    if rng.random() < 0.6:
        # the server's clock is the callers' wall clock plus a constant skew (seconds)
        case["clk"] = "real"
        case["skew"] = rng.choice([0, 3600, -3600, 3600, -3600, 7, -7, 86400 * 400, -86400 * 400])
    return case


def _skew_case(rng, skew):
    """directed: exact window edges on a server whose clock is skew seconds away from the callers'"""
    period, quota = rng.choice([(1, 2), (2, 2), (3, 3), (2, 1), (5, 4)])
    tk = lambda k=0: {"op": "take", "lim": 0, "key": k, "down": False}
    ops = [tk() for _ in range(quota + 1)] + [tk(1), {"op": "tick", "ms": period * 1000 - 1}, tk(), {"op": "tick", "ms": 1}]
    ops += [tk() for _ in range(quota + 1)] + [{"op": "tick", "ms": period * 1000 - 1}, tk(1), tk(), {"op": "tick", "ms": 1}, tk(), tk(1)]
    return {"kind": "period", "lims": [{"period": period, "quota": quota, "align": False, "pfx": 0}], "clk": "real", "skew": skew,
            "t0": T0_BASE + rng.randrange(10 ** 9), "ops": ops}


def _inflight_case(rng):
    """directed: deadlines that expire while the script call is in flight, on a healthy Redis: every one
    is a refusal that neither starts the monitor nor touches the in-process bucket (which would grant)"""
    rate, burst = rng.choice([(1, 3), (2, 5), (5, 10)])
    insts = rng.choice([1, 2])
    al = lambda n, ctx=0: {"op": "allow", "inst": rng.randrange(insts), "n": n, "ctx": ctx, "skew": 0}
    ops = [al(burst - 1), al(1, 3), al(1), al(1, 3), al(1), {"op": "tick", "ms": 1000}, al(1, 3), al(rate), al(1, 3), al(1)]
    return {"kind": "token", "rate": rate, "burst": burst, "insts": insts, "t0": T0_BASE + rng.randrange(10 ** 9), "ops": ops}


def _hang_case(rng, rto):
    """directed: the server accepts every command and never answers (no refusal, no error reply). The
    request that runs into it is decided by the in-process bucket once go-redis has given up (4 attempts of
    rto ms; rto 0 = the package's defaults, 4 x 3 s), the following ones at once; after the server answers
    again the limiter is back on Redis."""
    rate, burst = rng.choice([(1, 3), (2, 5), (5, 10)])
    insts = rng.choice([1, 2]) if rto else 1
    al = lambda n, inst=0: {"op": "allow", "inst": inst, "n": n, "ctx": 0, "skew": 0}
    ops = [al(1, rng.randrange(insts)) for _ in range(rng.randint(1, 2))]
    ops.append({"op": "fault", "eval": False, "ping": False, "hard": False, "hang": True})
    for i in range(insts):
        ops.append(al(1, i))
    for _ in range(rng.randint(3, 6)):
        if rng.random() < 0.3:
            ops.append({"op": "tick", "ms": rng.choice([0, 250, 1000])})
        else:
            ops.append(al(rng.choice([1, 1, 2, burst]), rng.randrange(insts)))
    ops.append({"op": "fault", "eval": True, "ping": True, "hard": False})
    for _ in range(rng.randint(6, 9)):
        ops.append(al(rng.choice([1, 1, 2]), rng.randrange(insts)))
    return {"kind": "token", "rate": rate, "burst": burst, "insts": insts, "rto": rto, "t0": T0_BASE + rng.randrange(10 ** 9), "ops": ops}


def _token_case(rng, tier, outage=None):
    r = rng.random()
    if r < 0.01:
        return {"kind": "token", "rate": 0, "burst": rng.choice([1, 5]), "insts": 1, "t0": T0_BASE + rng.randrange(10 ** 9), "ops": []}
    rate = rng.choice([1, 1, 2, 3, 4, 5, 5, 7, 8, 10, 20, 25, 50])
    if r < 0.06:
        burst = rng.randint(1, max(1, (rate - 1) // 2)) if rate >= 3 else rng.choice([1, 2, 3])
    else:
        burst = rng.choice([b for b in [1, 2, 3, 5, 8, 10, 15, 20, 25, 30] if 2 * b >= rate])
    ttl = (2 * burst) // rate
    script_fails = ttl <= 0
    if outage is None:
        outage = rng.random() < 0.22
    skewed = rng.random() < 0.03 and not outage
    hard = outage and rng.random() < 0.15
    insts = 2 if rng.random() < 0.3 else 1
    swaps = (rng.random() < 0.15) and not outage      # replacement of a healthy server between calls
    ops = []
    alive, eup, pup = [True] * insts, True, True
    failures, heals = [0] * insts, 0
    replaces = 0
    step = max(1, 1000 // rate)

    def after():
        nonlocal heals
        for i in range(insts):
            if not alive[i] and pup:
                alive[i] = True
                heals += 1

    nops = rng.randint(8, 35)
    for _ in range(nops):
        r = rng.random()
        if outage and r < 0.14 and heals < 4:
            # next fault mode
            if eup and pup:
                mode = rng.choice([(False, False), (False, False), (False, True)])
            elif not eup and not pup:
                mode = rng.choice([(True, False), (True, True), (True, True)])
            elif eup and not pup:
                mode = rng.choice([(True, True), (True, True), (False, False)])
            else:
                mode = rng.choice([(True, True), (False, False)])
            if mode[0] and replaces < 3 and rng.random() < 0.4:
                # the server that answers again is a fresh instance
                eup, pup = mode
                replaces += 1
                ops.append({"op": "replace", "eval": eup, "ping": pup})
                after()
                continue
            eup, pup = mode
            ops.append({"op": "fault", "eval": eup, "ping": pup, "hard": bool(hard and not eup and not pup)})
            after()
            continue
        if swaps and r < 0.05 and replaces < 2:
            replaces += 1
            ops.append({"op": "replace", "eval": True, "ping": True})
            after()
            continue
        inst = rng.randrange(insts)
        if r < 0.62:
            n = rng.choice([0, 1, 1, 1, 1, 2, 3, burst // 2, burst - 1, burst, burst + 1, rate, rng.randint(0, burst + 1)])
            n = max(0, n)
            ctx = 0
            rc = rng.random()
            if rc < 0.04:
                ctx = 1
            elif rc < 0.07:
                ctx = 2
            elif rc < 0.10 and alive[inst] and not (hard and not eup and not pup):
                ctx = 3        # the deadline expires while the script call is in flight
            will_fail = alive[inst] and ((ctx == 0 and (not eup or script_fails)) or ctx in (2, 3))
            if will_fail and failures[inst] >= 4:
                if ctx in (2, 3):
                    ctx = 1
                else:
                    continue
                will_fail = False
            if alive[inst] and ctx == 0 and (not eup or script_fails) and pup and heals >= 4:
                continue
            if will_fail:
                failures[inst] += 1
                if ctx == 0:
                    alive[inst] = False
            op = {"op": "allow", "inst": inst, "n": n, "ctx": ctx, "skew": 0}
            if skewed and rng.random() < 0.4:
                op["skew"] = rng.choice([-3000, -1000, -1, 1500, 5000])
            ops.append(op)
            after()
        elif r < 0.93:
            ms = rng.choice([0, 1, step - 1, step, step + 1, 2 * step, 999, 1000, 1001, (ttl - 1) * 1000, ttl * 1000 - 1,
                             ttl * 1000, ttl * 1000 + 1, (ttl + 1) * 1000, rng.randint(0, 3000), rng.randint(0, 3000)])
            ops.append({"op": "tick", "ms": max(0, ms)})
            after()
        else:
            if (alive[inst] and (not eup or script_fails)) or (not eup and pup):
                continue
            op = {"op": "conc", "inst": inst, "g": rng.randint(2, 8), "n": rng.choice([1, 1, 2])}
            if alive[inst] and eup and pup and not script_fails and rng.random() < 0.3:
                op["slow"] = True      # all G script calls in flight at once on a slow server
                op["g"] = rng.choice([8, 12, 16, 32])
            ops.append(op)
            after()
    if rng.random() < 0.1 and not any(op["op"] in ("fault", "replace") for op in ops):
        ops.insert(rng.randrange(len(ops) + 1), {"op": "noise", "n": 400})
    return {"kind": "token", "rate": rate, "burst": burst, "insts": insts, "t0": T0_BASE + rng.randrange(10 ** 9), "ops": ops}


def _long_outage_case(rng, tier, total_ms):
    """Redis is away for well over a second of REAL time (the monitor's 100 ms ticker keeps pinging and
    failing all along), then answers again: from the first answered ping on every decision must be
    Redis's again -- whatever the limiter's redis handle remembered about the failures in between."""
    rate, burst = rng.choice([(1, 5), (2, 5), (5, 10), (2, 20), (1, 1), (10, 10)])
    insts = 2 if rng.random() < 0.4 else 1
    al = lambda n, inst=0: {"op": "allow", "inst": inst, "n": n, "ctx": 0, "skew": 0}
    ops = [al(1, rng.randrange(insts)) for _ in range(rng.randint(0, 2))]
    hard = rng.random() < 0.3
    ops.append({"op": "fault", "eval": False, "ping": False, "hard": hard})
    for i in range(insts):
        ops.append(al(1, i))                      # the error that starts the monitor of instance i
    parts = rng.randint(1, 3)
    cuts = sorted(rng.randint(1, total_ms - 1) for _ in range(parts - 1))
    prev = 0
    for cut in cuts + [total_ms]:
        ops.append({"op": "sleep", "ms": cut - prev})
        prev = cut
        ops.append(al(rng.choice([1, 1, 2]), rng.randrange(insts)))   # decided by the in-process bucket
    if hard or rng.random() < 0.5:
        ops.append({"op": "fault", "eval": True, "ping": True, "hard": False})
    else:
        ops.append({"op": "replace", "eval": True, "ping": True})
    for _ in range(rng.randint(10, 14)):
        if rng.random() < 0.2:
            ops.append({"op": "tick", "ms": rng.choice([0, 1, 250, 1000])})
        else:
            ops.append(al(rng.choice([1, 1, 1, 2]), rng.randrange(insts)))
    return {"kind": "token", "rate": rate, "burst": burst, "insts": insts, "t0": T0_BASE + rng.randrange(10 ** 9), "ops": ops}


def _slow_conc_case(rng, g):
    """directed: g concurrent callers whose script calls are all in flight at once on a slow (healthy) Redis:
    nobody may be served by the in-process bucket, the granted total is the Redis bucket's (<= burst + rate*t)"""
    rate, burst = rng.choice([(1, 3), (2, 5), (5, 10), (2, 3)])
    insts = rng.choice([1, 2])
    cc = lambda n=1: {"op": "conc", "inst": rng.randrange(insts), "g": g, "n": n, "slow": True}
    al = lambda n: {"op": "allow", "inst": rng.randrange(insts), "n": n, "ctx": 0, "skew": 0}
    ops = [cc(), al(1), {"op": "tick", "ms": 1000}, cc(), {"op": "tick", "ms": 400}, cc(2), {"op": "tick", "ms": 600}, cc(), al(1)]
    return {"kind": "token", "rate": rate, "burst": burst, "insts": insts, "t0": T0_BASE + rng.randrange(10 ** 9), "ops": ops}


def _cut_case(rng):
    """directed: the caller of the FIRST take of a window gives up exactly when the take reaches the server;
    count and expiry are set atomically, so the window still ends after period seconds and the codes restart"""
    period, quota = rng.choice([(1, 2), (2, 2), (3, 3), (2, 3)])
    tk = lambda cut=False: dict({"op": "take", "lim": 0, "key": 0, "down": False}, **({"cut": True} if cut else {}))
    ops = [tk(True)] + [tk() for _ in range(quota)]
    ops += [{"op": "tick", "ms": period * 1000 + 1000}] + [tk() for _ in range(quota + 1)]
    ops += [{"op": "tick", "ms": period * 1000}, tk(True), {"op": "tick", "ms": period * 1000 - 1}, tk(), {"op": "tick", "ms": 1}]
    ops += [tk() for _ in range(quota + 1)]
    case = {"kind": "period", "lims": [{"period": period, "quota": quota, "align": False, "pfx": 0}],
            "t0": T0_BASE + rng.randrange(10 ** 9), "ops": ops}
    if rng.random() < 0.5:
        case["clk"], case["skew"] = "real", rng.choice([0, 3600, -3600])
    return case


def _stair_case(rng, outage=False):
    """mixed request sizes within one second, chosen against a reference bucket kept here: a request just too
    large is followed by smaller ones that fit (granted), then by one that no longer fits (refused), ..."""
    rate, burst = rng.choice([(1, 5), (2, 8), (5, 10), (3, 20), (10, 10), (1, 2), (7, 15)])
    insts = rng.choice([1, 1, 2])
    t = T0_BASE + rng.randrange(10 ** 9)
    level, last = burst, t // 1000
    ops = []
    al = lambda n: {"op": "allow", "inst": rng.randrange(insts), "n": n, "ctx": 0, "skew": 0}

    def req(n):
        nonlocal level, last
        sec = t // 1000
        level, last = min(burst, level + (sec - last) * rate), sec
        if n <= level:
            level -= n
        ops.append(al(n))

    for _ in range(rng.randint(3, 6)):
        sec = t // 1000
        cur = min(burst, level + (sec - last) * rate)
        req(cur + rng.choice([1, 1, 2]))                       # too large: refused
        for _ in range(rng.randint(1, 4)):
            cur = min(burst, level + (t // 1000 - last) * rate)
            pick = rng.random()
            if cur >= 1 and pick < 0.6:
                req(rng.randint(max(1, cur // 2), cur))      # fits: must be granted although a larger one was refused
            else:
                req(cur + 1)                                   # still too large
        ms = rng.choice([0, 1, 200, 999, 1000, 1000, 1500, 2000, 1000 - t % 1000 - 1, 1000 - t % 1000])
        t += ms
        ops.append({"op": "tick", "ms": ms})
    return {"kind": "token", "rate": rate, "burst": burst, "insts": insts, "t0": t - sum(o["ms"] for o in ops if o["op"] == "tick"),
            "ops": ops}


def _aligned_live_case(rng, period, nap):
    """directed: an Align() limiter that LIVES: the callers' wall clock really advances (nap ms) between its
    construction and its takes and between windows; every window must end where the aligned window of the
    take that opened it ends (tickw = step the server to that end, +- 1 ms)"""
    quota = 2
    tk = lambda: {"op": "take", "lim": 0, "key": 0, "down": False}
    tw = lambda ms: {"op": "tickw", "lim": 0, "key": 0, "ms": ms}
    ops = [{"op": "sleep", "ms": nap}, tk(), tk(), tk(), tw(-1), tk(), {"op": "tick", "ms": 1},
           {"op": "sleep", "ms": 1100}, tk(), tk(), tk(), tw(-1), tk(), {"op": "tick", "ms": 1}, tk(), tk(), tk()]
    return {"kind": "period", "lims": [{"period": period, "quota": quota, "align": True, "pfx": 0}], "clk": "real", "skew": 0,
            "t0": T0_BASE + rng.randrange(10 ** 9), "ops": ops}


def _noise_cases(rng):
    """directed: another handle to the same address piles up 400 unacceptable errors (WRONGTYPE) in between;
    the limiters' own handles (own breakers) must not notice: every decision stays Redis's"""
    al = lambda n: {"op": "allow", "inst": 0, "n": n, "ctx": 0, "skew": 0}
    rate, burst = rng.choice([(1, 3), (2, 5), (5, 10)])
    tops = [al(1), {"op": "noise", "n": 400}] + [al(1) for _ in range(burst + 1)] + [{"op": "tick", "ms": 1000}, {"op": "noise", "n": 400}]
    tops += [al(1) for _ in range(rate + 1)]
    tk = lambda k=0: {"op": "take", "lim": 0, "key": k, "down": False}
    pops = [tk(), {"op": "noise", "n": 400}, tk(), tk(), tk(1), {"op": "tick", "ms": 2000}, {"op": "noise", "n": 400}, tk(), tk(), tk()]
    return [{"kind": "token", "rate": rate, "burst": burst, "insts": 1, "t0": T0_BASE + rng.randrange(10 ** 9), "ops": tops},
            {"kind": "period", "lims": [{"period": 2, "quota": 2, "align": False, "pfx": 0}], "t0": T0_BASE + rng.randrange(10 ** 9), "ops": pops}]


def _race_case(rng):
    """directed: the recovery race. A request that entered while the limiter was alive fails late and reaches
    startMonitor between the monitor's `alive = 1` and its `monitorStarted = false` (forced through rescueLock).
    Afterwards the limiter must be alive or monitored, and decisions must be Redis's again."""
    rate, burst = rng.choice([(1, 3), (2, 5), (5, 10)])
    insts = rng.choice([1, 2])
    al = lambda n, inst=0: {"op": "allow", "inst": inst, "n": n, "ctx": 0, "skew": 0}
    ops = [al(1)]
    for _ in range(2):
        inst = rng.randrange(insts)
        ops += [{"op": "race", "inst": inst, "n": 1}] + [al(1, rng.randrange(insts)) for _ in range(3)] + [{"op": "tick", "ms": 1000}]
    ops += [al(1, rng.randrange(insts)) for _ in range(burst + 1)]
    return {"kind": "token", "rate": rate, "burst": burst, "insts": insts, "t0": T0_BASE + rng.randrange(10 ** 9), "ops": ops}


def _longkey_case(rng, pair):
    """directed: two distinct keys longer than 128 bytes with a long common prefix (url + session token) are
    limited independently: exhausting A leaves B fresh, and the other way round in the next window"""
    a, b = pair
    period, quota = rng.choice([(2, 2), (3, 3), (5, 2)])
    tk = lambda k: {"op": "take", "lim": 0, "key": k, "down": False}
    ops = [tk(a) for _ in range(quota + 1)] + [tk(b) for _ in range(quota + 1)] + [tk(a), tk(0)]
    ops += [{"op": "tick", "ms": period * 1000}] + [tk(b) for _ in range(quota + 1)] + [tk(a) for _ in range(quota + 1)]
    ops += [{"op": "conc", "lim": 0, "key": b, "g": 4}, tk(a)]
    return {"kind": "period", "lims": [{"period": period, "quota": quota, "align": False, "pfx": 0}],
            "t0": T0_BASE + rng.randrange(10 ** 9), "ops": ops}


def _fixed_cases(rng, tier):
    """cases every run starts with (real-time outages are too expensive to leave to chance)"""
    if tier == "thorough":
        spans = [1500, 2000, 3000, 3000, 5000, 10000] * 4
        hangs = [200, 200, 200, 300, 0]
        k = 8
    else:
        spans = [2000, 3000]
        hangs = [200, 200, 0]
        k = 1
    cases = _noise_cases(rng)      # first: whatever might be shared per address has seen few successes yet
    cases += [_long_outage_case(rng, tier, ms) for ms in spans]
    cases += [_hang_case(rng, rto) for rto in hangs]
    for _ in range(k):
        cases += [_inflight_case(rng), _skew_case(rng, 3600), _skew_case(rng, -3600)]
        cases += [_slow_conc_case(rng, g) for g in (8, 16, 32)]
        cases += [_cut_case(rng), _cut_case(rng), _stair_case(rng), _stair_case(rng)]
    cases += [_longkey_case(rng, pair) for pair in ((100, 101), (102, 103), (104, 105))]
    cases += [_race_case(rng) for _ in range(2 if tier != "thorough" else 10)]
    cases += [_aligned_live_case(rng, 5, 1200), _aligned_live_case(rng, 60, 1700)]
    if tier == "thorough":
        cases += [_aligned_live_case(rng, 5, 5300), _aligned_live_case(rng, 5, 11000), _aligned_live_case(rng, 60, 3100)]
    return cases


def generate(rng, tier, n):
    cases = _fixed_cases(rng, tier)
    n = max(0, n - len(cases))
    for _ in range(n):
        r = rng.random()
        if r < 0.43:
            cases.append(_period_case(rng, tier))
        elif r < 0.48:
            cases.append(_stair_case(rng))
        else:
            cases.append(_token_case(rng, tier))
    return cases


def _lane(case):
    """real-time cases run in driver processes of their own, next to the bulk of the cases"""
    if case.get("kind") == "token":
        hang = any(op.get("hang") for op in case["ops"])
        if hang and not case.get("rto"):
            return 0                      # default go-redis timeouts: ~12 s for the call that runs into the hang
        if hang or any(op["op"] == "sleep" for op in case["ops"]):
            return 1
    elif any(op["op"] == "sleep" for op in case.get("ops", [])):
        return 1
    return 2


def drive(cases, tier):
    import concurrent.futures as cf
    import vlib
    lanes = {}
    for i, c in enumerate(cases):
        lane = _lane(c)
        if lane == 2 and len(cases) > 1500:
            lane = 2 + (i % 2)            # thorough: two processes for the bulk
        lanes.setdefault(lane, []).append(i)

    def run(lane):
        idx = lanes[lane]
        obs, log = vlib.run_driver(GO_PKG, [cases[i] for i in idx], name="%s_%s_l%d" % (ID, tier, lane), timeout=DRIVER_TIMEOUT)
        return lane, obs, log

    out = [None] * len(cases)
    logs = []
    with cf.ThreadPoolExecutor(max_workers=4) as ex:
        for lane, obs, log in ex.map(run, sorted(lanes)):
            logs.append("[lane %d] %s" % (lane, log[-3000:]))
            if obs is None:
                return None, "\n".join(logs)
            for i, o in zip(lanes[lane], obs):
                out[i] = o
    return out, "\n".join(logs)


def search(rng, problems):
    """Directed histories: every clause of the property on small configurations."""
    out = []
    t0 = T0_BASE + 123
    for period, quota in [(1, 1), (2, 3), (5, 2), (3, 4)]:
        for align in (False, True):
            ops = [{"op": "take", "lim": 0, "key": 0, "down": False} for _ in range(quota + 2)]
            ops += [{"op": "take", "lim": 0, "key": 1, "down": False}, {"op": "tick", "ms": period * 1000 - 1},
                    {"op": "take", "lim": 0, "key": 0, "down": False}, {"op": "tick", "ms": 1}]
            ops += [{"op": "take", "lim": 0, "key": 0, "down": False} for _ in range(quota + 1)]
            ops += [{"op": "tick", "ms": period * 1000 + 1}, {"op": "conc", "lim": 0, "key": 0, "g": quota + 3}]
            ops += [{"op": "replace"}] + [{"op": "take", "lim": k % 2, "key": 0, "down": False} for k in range(quota + 2)]
            lim = {"period": period, "quota": quota, "align": align, "pfx": 0}
            out.append({"kind": "period", "lims": [lim, dict(lim)], "t0": t0, "ops": ops})
    for rate, burst in [(1, 1), (2, 1), (1, 3), (5, 10), (10, 5), (3, 2), (4, 2), (7, 5)]:
        ttl = 2 * burst // rate
        al = lambda n, inst=0: {"op": "allow", "inst": inst, "n": n, "ctx": 0, "skew": 0}
        tk = lambda ms: {"op": "tick", "ms": ms}
        ops = [al(burst), al(1), tk(1000), al(rate), al(1), al(0), tk(ttl * 1000 - 1), al(burst), al(1), tk(1), al(1),
               tk(ttl * 1000), al(burst), al(1), tk((ttl + 1) * 1000), al(burst + 1), al(burst), tk(999), al(1), tk(1), al(1)]
        for k in range(burst):
            ops.append(al(1))
        ops += [al(1), tk(1000)] + [al(1) for _ in range(rate + 1)]
        out.append({"kind": "token", "rate": rate, "burst": burst, "insts": 1, "t0": t0, "ops": ops})
        fl = lambda e, p: {"op": "fault", "eval": e, "ping": p, "hard": False}
        ops2 = [al(1), fl(False, False)] + [al(1) for _ in range(burst + 1)] + [tk(1000)] + [al(1) for _ in range(rate + 1)]
        ops2 += [fl(True, False), al(1), fl(True, True), al(burst), al(burst)]
        out.append({"kind": "token", "rate": rate, "burst": burst, "insts": 1, "t0": t0, "ops": ops2})
        # the server that comes back is a fresh instance; two limiter instances on the one key
        rp = lambda e, p: {"op": "replace", "eval": e, "ping": p}
        ops3 = [al(burst), al(1, 1), fl(False, False), al(1), al(1, 1), rp(True, False), al(1), rp(True, True), al(burst), al(1, 1),
                tk(1000), al(1, 1), rp(True, True), al(burst, 1), al(1), fl(False, False), al(1, 1), rp(True, True), al(1, 1), al(burst)]
        out.append({"kind": "token", "rate": rate, "burst": burst, "insts": 2, "t0": t0, "ops": ops3})
    return out


# ----------------------------------------------------------------------------- encoding
def _ent(e):
    return cpair(cZ(e[0]), cZ(e[1]), cZ(e[2]))


def _snap(o):
    return "(mkSnap %s %s %s %s %s %s %s)" % (cbool(o.get("known", True)), cbool(o["alive"][0] == 1), cbool(o["mon"][0]),
                                              cbool(o["alive"][1] == 1), cbool(o["mon"][1]), _ent(o["tok"]), _ent(o["ts"]))


def _calc_expire(lim, unix, off):
    """the window length the limiter asks Redis for: period, or with Align() the seconds to the next multiple of
    period on the callers' local clock (the Coq side re-checks this against Model.calc_expire)"""
    if not lim["align"]:
        return lim["period"]
    return lim["period"] - (unix + off) % lim["period"]


def _window(lim, o):
    """The wall clock was sampled before and after the call; when a second boundary lies in between, the TTL of a
    freshly opened window tells which of the two the limiter saw."""
    e = o["exp"]
    e0, e1 = _calc_expire(lim, e[0], e[1]), _calc_expire(lim, e[3], e[1])
    if e0 != e1 and o["ent"][0] == 1 and o["ent"][2] == e1 * 1000:
        return e1
    return e0


def encode(case, obs):
    if "ops" not in obs and "new_panic" not in obs:
        raise ValueError("driver error: %r" % (obs,))
    if case["kind"] == "period":
        lims = [cpair(cZ(l["period"]), cZ(l["quota"]), cbool(l["align"]), cnat(l.get("pfx", i))) for i, l in enumerate(case["lims"])]
        ops = []
        for op, o in zip(case["ops"], obs["ops"]):
            if op["op"] in ("tick", "sleep"):
                ops.append("XPTick %s" % cZ(op["ms"]))
            elif op["op"] == "tickw":
                ops.append("XPTick %s" % cZ(o["ms"]))       # the step the driver derived from the window length
            elif op["op"] == "noise":
                ops.append("XPTick (0)%Z")
            elif op["op"] == "replace":
                ops.append("XPReplace")
            elif op["op"] == "take":
                ops.append("XPTake %s %s %s %s %s %s %s %s %s" % (
                    cnat(op["lim"]), cnat(op["key"]), cbool(op.get("down", False)), cbool(op.get("cut", False)), cZ(_window(case["lims"][op["lim"]], o)),
                    cZ(o["code"]), cZ(o["err"]), _ent(o["ent"]), clist([cZ(x) for x in o["exp"]])))
            else:
                ops.append("XPConc %s %s %s %s %s %s %s %s" % (
                    cnat(op["lim"]), cnat(op["key"]), cnat(op["g"]), cZ(_window(case["lims"][op["lim"]], o)),
                    clist([cZ(x) for x in o["codes"]]), cZ(o["errs"]), _ent(o["ent"]), clist([cZ(x) for x in o["exp"]])))
        return "CPeriod %s %s %s" % (clist(lims), cZ(case["t0"]), clist(ops))
    if "new_panic" in obs:
        return "CToken %s %s %s true []" % (cZ(case["rate"]), cZ(case["burst"]), cZ(case["t0"]))
    ops = []
    for op, o in zip(case["ops"], obs["ops"]):
        if op["op"] in ("tick", "sleep"):
            ops.append("XTTick %s %s" % (cZ(op["ms"]), _snap(o)))
        elif op["op"] == "noise":
            ops.append("XTTick (0)%%Z %s" % _snap(o))
        elif op["op"] == "race":
            if o.get("skipped"):
                ops.append("XTTick (0)%%Z %s" % _snap(o))
                continue
            # in model terms: Redis stops answering; B fails and starts the monitor; A (entered earlier, fails
            # later) is served by the in-process bucket after B; Redis answers again and the monitor finishes.
            unk = "(mkSnap false true false true false (-1, 0, 0)%Z (-1, 0, 0)%Z)"
            i, n = cnat(op.get("inst", 0)), cZ(op["n"])
            ops.append("XTFault false false false %s" % unk)
            ops.append("XTAllow %s %s 0%%nat (0)%%Z %s %s" % (i, n, cbool(o["okB"]), unk))
            ops.append("XTAllow %s %s 0%%nat (0)%%Z %s %s" % (i, n, cbool(o["okA"]), unk))
            ops.append("XTFault true true false %s" % _snap(o))
        elif op["op"] == "allow":
            ops.append("XTAllow %s %s %s %s %s %s" % (cnat(op.get("inst", 0)), cZ(op["n"]), cnat(op.get("ctx", 0)),
                                                      cZ(op.get("skew", 0)), cbool(o["ok"]), _snap(o)))
        elif op["op"] == "conc":
            ops.append("XTConc %s %s %s %s %s" % (cnat(op.get("inst", 0)), cnat(op["g"]), cZ(op["n"]), cZ(o["granted"]), _snap(o)))
        elif op["op"] == "replace":
            ops.append("XTReplace %s %s %s" % (cbool(op["eval"]), cbool(op["ping"]), _snap(o)))
        else:
            ops.append("XTFault %s %s %s %s" % (cbool(op["eval"]), cbool(op["ping"]), cbool(op.get("hard", False)), _snap(o)))
    healed = obs.get("healed", True)
    # a monitor that never came back is reported as an impossible snapshot so that model_ok fails
    if not healed:
        ops.append("XTTick (0)%Z (mkSnap true false true false true (0, 0, 0)%Z (0, 0, 0)%Z)")
    return "CToken %s %s %s false %s" % (cZ(case["rate"]), cZ(case["burst"]), cZ(case["t0"]), clist(ops))


# ----------------------------------------------------------------------------- evidence helpers
def nontrivial(case, obs):
    if "ops" not in obs:
        return False
    if case["kind"] == "period":
        seen = set()
        hit = restart = False
        for op, o in zip(case["ops"], obs["ops"]):
            if op["op"] == "take" and o.get("err") == 0:
                k = (op["lim"], op["key"])
                if o["code"] in (2, 3):
                    hit = True
                if k in seen and o["ent"][1] == 1:
                    restart = True
                seen.add(k)
        return hit and restart
    grant = deny = False
    for op, o in zip(case["ops"], obs["ops"]):
        i = op.get("inst", 0)
        if op["op"] == "allow" and op.get("ctx", 0) == 0 and o["alive"][i] == 1 and not o["mon"][i]:
            if o["ok"]:
                grant = True
            else:
                deny = True
    return grant and deny


def bucket(case, obs):
    out = ["kind:" + case["kind"]]
    if "ops" not in obs:
        out.append("obs:panic" if "new_panic" in obs else "obs:ERROR")
        return out
    if case["kind"] == "period":
        if any(l["align"] for l in case["lims"]):
            out.append("period:align")
        out.append("period:server-clock=%s" % ("2020" if case.get("clk") != "real" else "caller%+ds" % case.get("skew", 0)))
        if len(case["lims"]) == 2 and case["lims"][0].get("pfx") == case["lims"][1].get("pfx"):
            out.append("period:two-instances-one-key")
        if any(op.get("key", 0) >= 100 for op in case["ops"]):
            out.append("period:long-keys-with-shared-prefix")
        for op, o in zip(case["ops"], obs["ops"]):
            out.append("pop:" + op["op"])
            if op["op"] == "take":
                out.append("code:%d" % o["code"])
                if op.get("down"):
                    out.append("period:redis-failure")
                if op.get("cut"):
                    out.append("period:caller-gave-up-at-server(err=%d)" % o["err"])
        return out
    rate, burst = case["rate"], case["burst"]
    out.append("hyp:ttl-positive" if 2 * burst >= rate else "hyp:TTL-ZERO")
    if any(op.get("skew", 0) for op in case["ops"]):
        out.append("hyp:skew")
    prev_present = False
    replaced = False
    if any(op["op"] == "sleep" for op in case["ops"]):
        out.append("outage:long-%ds" % round(sum(op["ms"] for op in case["ops"] if op["op"] == "sleep") / 1000.0))
    if case.get("insts", 1) == 2:
        out.append("token:two-instances")
    for op, o in zip(case["ops"], obs["ops"]):
        out.append("top:" + op["op"])
        if op["op"] == "conc" and op.get("slow"):
            out.append("conc:slow-%d-callers" % op["g"])
        if op["op"] == "allow":
            if op.get("ctx", 0) == 3:
                out.append("allow:deadline-in-flight")
            elif op.get("ctx", 0):
                out.append("allow:ctx-done")
            elif o["alive"][op.get("inst", 0)] == 0 or o["mon"][op.get("inst", 0)]:
                out.append("allow:rescue")
            out.append("allow:granted" if o["ok"] else "allow:refused")
        if op["op"] == "replace":
            out.append("replace:%s%s" % ("E" if op["eval"] else "e", "P" if op["ping"] else "p"))
            replaced = True
        if op["op"] == "allow" and replaced and op.get("ctx", 0) == 0 and o["alive"][op.get("inst", 0)] == 1 \
                and not o["mon"][op.get("inst", 0)] and o["tok"][0] == 1:
            out.append("replace:decided-by-new-server")
            replaced = False
        if op["op"] == "fault":
            out.append("fault:%s%s%s" % ("E" if op["eval"] else "e", "P" if op["ping"] else "p",
                                         "-hard" if op.get("hard") else ("-hang" if op.get("hang") else "")))
        if op["op"] == "tick" and prev_present and o["tok"][0] == 0:
            out.append("tick:bucket-keys-expired")
        if o.get("tok", [0])[0] >= 0:
            prev_present = o["tok"][0] == 1
    return out


def classify(case, obs):
    return None


def explain(case, obs):
    if case["kind"] == "period":
        return ("observed Take codes contradict C08.Exec.spec_ok: within one window of a key the c-th take must report "
                "Allowed for c < quota, HitQuota for c = quota, OverQuota afterwards, and the count must restart exactly "
                "when the window (period seconds from its first take) has expired (c08_period_codes / "
                "c08_period_restart_only_after_expiry)")
    return ("observed AllowN decisions contradict C08.Exec.spec_ok: a request for n tokens must be granted iff the bucket "
            "(capacity burst, rate tokens per caller second; the in-process bucket while Redis fails) holds n tokens, and "
            "events granted between two seconds s and s+t must not exceed burst + rate*t (c08_grant_iff / "
            "c08_token_bound / c08_fallback)")
