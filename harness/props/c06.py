"""C06 cache-aside: histories of QueryRow/QueryRowIndex/Exec/DelCache/SetCache/Advance/faults.

Three levels share one case format and one Coq model:
  sqlc    - sqlc.CachedConn over a real cache node   (driver lib/store/sqlc, package sqlc)
  node    - cache.node through the Cache interface   (driver lib/store/cache, package cache)
  cluster - cache.cluster over 3 nodes / 3 miniredis (same driver)
At the node/cluster levels the cleaner's timing wheel is frozen and the driver plays the abstract
timer (due tick = tick at SetTimer + delay/1s), so retry chains run in virtual time up to the 1 h stage.
"""
import json
import os
import vlib
from vlib import cZ, cnat, cbool, clist, copt, cpair

ID = "C06"
GO_PKG = "./lib/store/cache"
GEN_SPEC = {"imports": ["From God Require Import C06.GenEnv."], "items": [
    {"kind": "func", "file": "lib/store/cache/cleaner.go", "name": "nextDelay"},
    {"kind": "const", "file": "lib/store/cache/node.go", "name": "expireDeviation", "type": "Q"},
    {"kind": "const", "file": "lib/store/cache/node.go", "name": "notFoundPlaceholder"},
    {"kind": "const", "file": "lib/store/cache/cleaner.go", "name": "timingWheelSlots"},
    {"kind": "const", "file": "lib/store/sqlc/cachedsql.go", "name": "cacheSafeGapBetweenIndexAndPrimary"},
    {"kind": "const", "file": "lib/store/cache/option.go", "name": "defaultExpire"},
    {"kind": "const", "file": "lib/store/cache/option.go", "name": "defaultNotFoundExpire"},
    {"kind": "calls", "file": "lib/store/cache/cleaner.go", "func": "clean", "as": "clean_calls"},
    {"kind": "calls", "file": "lib/store/cache/cleaner.go", "func": "AddCleanTask", "as": "add_calls"},
    {"kind": "calls", "file": "lib/store/sqlc/cachedsql.go", "func": "CachedConn.ExecCtx", "as": "exec_calls"},
    {"kind": "calls", "file": "lib/store/cache/node.go", "func": "node.doTake", "as": "take_calls"},
]}
QUICK_N = 300
THOROUGH_N = 5000
SEARCH_N = 300
SHARD = 50
DRIVER_TIMEOUT = 900
RULE = ("sequential histories of 5-80 ops (QueryRow 30%, QueryRowIndex 20% [CachedConn level], Exec 20% with the "
        "changed keys named (10% deliberately ill-named), DelCache, SetCache (85% with the current row), Advance of "
        "1 s..4000 s, Corrupt) over 4 primary keys / 3 index values, expiries (100,10) (20,5) (60,10) (3600,60) "
        "(7d,60) s, and in 30% of the sequential histories a long configured expiry / notFoundExpire from {1h, 1d, 7d, 90d, "
        "101d, 112d, 180d, 1y, 10y} with draws at both ends and the middle (m = 0, 512, 1023) and advances around "
        "0.95e / 1.05e; node / cluster caches are built by struct literals, cache.New (Config of 1-3 nodes) or "
        "cache.NewNode with both / one / none of WithExpire, WithNotFoundExpire; 5% of the reads are issued under an "
        "already cancelled context (cached and uncached keys); at the CachedConn level the query callbacks read the database "
        "through the sqlx session kinds over sqlmock (conn, prepared statement, transaction, statement prepared in a "
        "transaction) or a map, with the row present, missing, or the database failing (3%); failing deletes are issued "
        "from other goroutines / OS threads with runtime.GC() in between, 20-60% of them under a request-scoped context that is "
        "cancelled as soon as the call returns; the CachedConn is built by NewConnWithCache, NewNodeConn or NewConn; in 20% of "
        "the constructor-built caches WithExpire / WithNotFoundExpire get 0 or a negative duration (= the default); exec "
        "callbacks return nil, a result with 1 or 0 rows affected, or one whose RowsAffected fails; concurrent calls are spread "
        "over four CachedConn values built by separate constructor calls; one fixed case has seven retries due in one tick on a "
        "5-worker cleaner with the first ten retry DELs answered only after 3.3 s; the thorough tier adds one case that leaves "
        "a fresh cache idle for a full statistics interval (62 s real time) before reading; Redis-down faults use miniredis SetError; in 70% of the node / cluster histories the cleaner runs "
        "on a real collection.TimingWheel (1 s x 300 slots, fake ticker ticked once per virtual second, chains driven to "
        "the 1 h stage), otherwise on the abstract timer; jitter draws u=m/1024 scripted per op; the TTL of every key is read back from miniredis after "
        "every op (0 = no expiry); ~22% of the histories inject GET/SET/DEL faults per "
        "Redis command (per node in the cluster); 40% CachedConn over one node, 35% cache node, 25% 3-node cluster "
        "with the observed consistent-hash placement; one quarter of the cases are CONCURRENT (level conc, CachedConn): "
        "2-8 readers of one uncached key plus independent keys, gated query function / SET / exec function / DEL, "
        "leader or follower contexts cancelled before, while or after waiting, reads overlapping Execs in every "
        "order of their steps, forced schedule with quiescence detection after every label, plain reads of every key "
        "after everything has finished; non-trivial = at least one cache hit, one DB fill, one "
        "not-found read and one Exec; distinct = distinct canonical case JSON")
TRUSTED = ["miniredis as Redis (GET/SET EX/DEL, FastForward as the server clock); faults injected with its pre-command hook",
           "float64 evaluation of mathx.Unstable.AroundDuration and math.Ceil(d.Seconds()) agrees with the exact rational "
           "evaluation in the model on the generated draws u=m/1024 and whole-second expiries (the exact value is a "
           "multiple of 1/10240 s; the float64 error stays below 1 us even for 10 y, so it never crosses a second boundary "
           "except where the exact value is a whole second: the generator keeps only m = 0 and m = 512 of those)",
           "in the 'abs' cases the abstract timer played by the cache driver (due tick = tick + delay/1s) is what the timing "
           "wheel implements (C10); the 'real' cases run the wheel itself; in the sqlc driver the real wheel never fires inside a case (cases last milliseconds, "
           "slow ones are rerun)",
           "the Redis circuit breaker stays closed: drivers empty its window through the virtual clock before every call"]
ASSUMPTIONS = ["c06_one_query_in_flight is proved from C18's transcription of singleflight.go (C18.ProofsSF.sf_one_flight_per_key = "
               "c18_singleflight_one_flight) and, on the cache-aside LTS ModelConc.CA, with barrier.DoEx modelled by the C18 "
               "sharing contract (join the flight of the key or register a new one; waiters get the flight's result)",
               "concurrency limit (documented, replayed on the Go code, label conc:stale-entry-after-race): a reader that "
               "queried before a write and stores after that write's delete leaves a stale entry until it expires "
               "(c06_concurrent_race_witness); a single-flight follower receives its leader's result, including the "
               "leader's context error and a row read before a write that completed before the follower was invoked; "
               "coherence under concurrency (c06_coherent_concurrent) is stated for states without such a racing store",
               "c06_retry_schedule is over the abstract timer that C10 proves the timing wheel refines",
               "c06_cluster_like_node takes the dispatcher as a total key -> node function (C13 totality/determinism)",
               "coherence is stated for histories whose deletes do not fail and whose Exec names every key whose view "
               "changes (DESIGN A.5); after a failed delete the key may be stale until a retry succeeds",
               "configured expiries are whole multiples of 20 ns and at least 1 s (TTL 0 would mean 'no expiry' in Redis)",
               "redis.ClusterType (per-key DEL loop in node.DelCtx) and a JSON object stored under an index key are not modelled"]

NPK, NIX = 4, 3
# how the query callbacks of the CachedConn level read the database: a Go map directly, or the real sqlx session kinds
# over sqlmock (Conn.QueryRowCtx, PrepareCtx + StmtSession.QueryRowCtx, inside TransactCtx, prepared inside TransactCtx)
VIAS = ["", "conn", "stmt", "stmt", "tx", "txstmt"]
EXPIRIES = [(100, 10), (20, 5), (60, 10), (3600, 60), (604800, 60)]
DAY = 86400
# the TTL stream: long configured expiries (WithExpire / WithNotFoundExpire), 1 h .. 10 y; 101 d and above exceed
# 2^63 ns / 1050 (an integer-arithmetic jitter in per-mille would overflow there), 10 y exceeds 2^53 ns
LONG_EXPIRIES = [3600, DAY, 7 * DAY, 90 * DAY, 101 * DAY, 112 * DAY, 180 * DAY, 365 * DAY, 3650 * DAY]


def _long_draw(rng, e):
    """draws at both ends and the middle of [0,1), and random ones whose exact jittered duration is not a whole
    number of seconds (there the float64 evaluation in Go and the exact rational one could round differently)"""
    while True:
        m = rng.choice([0, 512, 1023]) if rng.random() < 0.6 else rng.randrange(1024)
        if m in (0, 512) or (e * (10752 - m)) % 10240 != 0:
            return m


def _universe():
    return [["pk", i] for i in range(NPK)] + [["ix", i] for i in range(NIX)]


def _view(db, k):
    if k[0] == "pk":
        r = db.get(k[1])
        return None if r is None else ("row", k[1], r[0], r[1])
    for id_ in sorted(db):
        if db[id_][0] == k[1]:
            return ("pk", id_)
    return None


def _draws(rng, n):
    return [rng.choice([0, 512, 1023, 1, 1022]) if rng.random() < 0.2 else rng.randrange(1024) for _ in range(n)]


def gen_case(rng, level, faulty, long_chain=False, long_ttl=False):
    expire, nfexpire = rng.choice(EXPIRIES)
    if long_ttl:
        expire = rng.choice(LONG_EXPIRIES)
        nfexpire = rng.choice(LONG_EXPIRIES) if rng.random() < 0.5 else rng.choice([10, 60])
    nn = 3 if level == "cluster" else 1
    nops = rng.randint(5, 80)
    db = {}
    ops = []
    delfault = False
    for _ in range(nops):
        r = rng.random()
        if faulty and r < (0.10 if not delfault else 0.05):
            kind = rng.random()
            node = rng.randrange(nn) if (level == "cluster" and rng.random() < 0.6) else -1
            if kind < 0.25:
                g = s = d = True
            elif kind < 0.5:
                g = s = d = False
            elif kind < 0.75:
                g, s, d = False, False, True
            elif kind < 0.88:
                g, s, d = True, False, False
            else:
                g, s, d = False, True, False
            delfault = d
            ops.append({"op": "fault", "node": node, "g": g, "s": s, "d": d})
            continue
        r = rng.random()
        if rng.random() < 0.05:
            # a read under an already cancelled context, of a key that is cached or not
            if level == "sqlc" and rng.random() < 0.4:
                ops.append({"op": "qidxc", "ix": rng.randrange(NIX), "u": _draws(rng, 2)})
            else:
                ops.append({"op": "qrowc", "id": rng.randrange(NPK), "u": _draws(rng, 1)})
            continue
        if rng.random() < 0.004:
            # the query callback PANICS inside the shared flight (the caller recovers): like a failing query for the
            # cache (one query, nothing stored), and the key's flight must be released: later reads run under a watchdog
            ops.append({"op": "qrowp", "id": rng.randrange(NPK), "u": _draws(rng, 1)})
            continue
        if rng.random() < 0.03:
            # the database query fails with an error other than not-found
            ops.append({"op": "qrowe", "id": rng.randrange(NPK), "u": _draws(rng, 1)})
            if level == "sqlc":
                ops[-1]["via"] = rng.choice(VIAS)
            continue
        if level != "sqlc" and delfault and rng.random() < 0.08:
            ops.append({"op": "gc"})       # between failing deletes: pooled / per-P state below the cleaner is dropped
            continue
        if r < 0.30:
            ops.append({"op": "qrow", "id": rng.randrange(NPK), "u": _draws(rng, 1)})
            if level == "sqlc":
                ops[-1]["via"] = rng.choice(VIAS)
        elif r < 0.50:
            if level == "sqlc":
                ops.append({"op": "qidx", "ix": rng.randrange(NIX), "u": _draws(rng, 2), "via": rng.choice(VIAS)})
            else:
                ops.append({"op": "qrow", "id": rng.randrange(NPK), "u": _draws(rng, 1)})
        elif r < 0.70:
            w = rng.random()
            id_ = rng.randrange(NPK)
            new = dict(db)
            if w < 0.65:
                row = (rng.randrange(NIX), rng.randrange(100))
                new[id_] = row
                wj = ["put", id_, row[0], row[1]]
            elif w < 0.93:
                new.pop(id_, None)
                wj = ["del", id_]
            else:
                wj = ["fail"]
            keys = [k for k in _universe() if _view(db, k) != _view(new, k)]
            if ["pk", id_] not in keys and wj[0] != "fail":
                keys.insert(0, ["pk", id_])
            x = rng.random()
            if x < 0.10 and keys:
                keys.pop(rng.randrange(len(keys)))          # ill-named
            elif x < 0.2:
                keys.append(rng.choice(_universe()))
            rng.shuffle(keys)
            if wj[0] != "fail":
                db = new
            ops.append({"op": "exec", "w": wj, "keys": keys})
            if level == "sqlc":
                # what the exec callback returns beside nil: nothing, 1 row affected, 0 rows affected, unknown
                ops[-1]["res"] = rng.choice(["", "one", "zero", "zero", "err"])
            if level != "sqlc" and rng.random() < 0.4:
                ops[-1]["go"] = True      # the delete is issued from a goroutine of its own (another OS thread)
            if level != "sqlc" and rng.random() < (0.6 if delfault else 0.2):
                ops[-1]["ctxc"] = True    # request-scoped context, cancelled as soon as the call has returned
        elif r < 0.75:
            ks = rng.sample(_universe(), rng.randint(0, 3))
            ops.append({"op": "del", "keys": ks})
            if level != "sqlc" and rng.random() < 0.4:
                ops[-1]["go"] = True
            if level != "sqlc" and rng.random() < (0.6 if delfault else 0.2):
                ops[-1]["ctxc"] = True
        elif r < 0.80:
            k = rng.choice(_universe()) if level == "sqlc" else ["pk", rng.randrange(NPK)]
            v = _view(db, k)
            if v is None or rng.random() < 0.15:
                v = ("row", k[1], rng.randrange(NIX), rng.randrange(100)) if k[0] == "pk" else ("pk", rng.randrange(NPK))
            ops.append({"op": "set", "key": k, "val": list(v), "u": _draws(rng, 1)})
        elif r < 0.97:
            if long_chain and rng.random() < 0.5:
                dt = rng.choice([60, 66, 300, 301, 366, 400, 3600, 3966, 4000])
            elif delfault and level != "sqlc":
                dt = rng.choice([1, 1, 2, 5, 6, 7, 60, 66, 300, 400])
            else:
                dt = rng.choice([1, 1, 2, 3, 5, 8, 10, 11, 19, 21, 60, 95, 100, 106, 111])
            ops.append({"op": "adv", "dt": dt})
        else:
            k = rng.choice(_universe()) if level == "sqlc" else ["pk", rng.randrange(NPK)]
            ops.append({"op": "corrupt", "key": k, "gi": rng.randrange(5), "ttl": rng.choice([5, 50, 500])})
    if long_ttl:
        for o in ops:
            if "u" in o:
                # the first draw jitters expire (value / index entry), the second notFoundExpire or expire
                o["u"] = [_long_draw(rng, expire) if rng.random() < 0.5 else _long_draw(rng, nfexpire) for _ in o["u"]]
                o["u"] = [m if ((expire * (10752 - m)) % 10240 != 0 and (nfexpire * (10752 - m)) % 10240 != 0) or m in (0, 512)
                          else 1023 for m in o["u"]]
            if o["op"] == "adv" and level == "sqlc" and rng.random() < 0.3:
                o["dt"] = rng.choice([expire // 2, expire * 19 // 20 - 1, expire * 19 // 20 + 1, expire * 21 // 20 + 6, nfexpire, DAY])
    c = {"level": level, "expire": expire, "nfexpire": nfexpire, "nnodes": nn, "ops": ops}
    if level == "sqlc":
        c["ctor"] = rng.choice(["", "nodeconn", "conn"])
        c["opts"] = "both"
        if rng.random() < 0.15:
            c["opts"] = rng.choice(["e", "n", "none"])
    if level in ("node", "cluster"):
        # how the cache is built (struct literals / cache.New with a Config of nn nodes / cache.NewNode) and which
        # options it gets; an option that is not passed leaves the package default
        c["ctor"] = rng.choice(["lit", "new", "new"] if level == "cluster" else ["lit", "new", "newnode"])
        c["opts"] = "both"
        if c["ctor"] != "lit" and rng.random() < 0.3:
            c["opts"] = rng.choice(["e", "n", "none"])
            if c["opts"] in ("n", "none"):
                c["expire"] = 7 * DAY
            if c["opts"] in ("e", "none"):
                c["nfexpire"] = 60
    if (level == "sqlc" or c.get("ctor") in ("new", "newnode")) and rng.random() < 0.2:
        # option boundary values: a duration <= 0 handed to WithExpire / WithNotFoundExpire means "the default"
        if c["opts"] in ("both", "e") and rng.random() < 0.7:
            c["expire"] = rng.choice([0, 0, -1, -3600])
        if c["opts"] in ("both", "n") and rng.random() < 0.7:
            c["nfexpire"] = rng.choice([0, 0, -1, -60])
    if level in ("node", "cluster"):
        # the cleaner on the real timing wheel (fake ticker) or on the abstract timer played by the driver
        c["wheel"] = "real" if rng.random() < 0.7 else "abs"
        if c["wheel"] == "real":
            ops.append({"op": "adv", "dt": 1})   # so that a chain armed by the last operation shows up
    return c


def gen_shared(rng):
    """reads that share an in-flight query while the executing goroutine goes on: the leader of key 0 is held inside
    its query, 1-6 readers wait in its flight; when it is released the SAME goroutine immediately makes further calls
    (SetCache of other keys' rows = further JSON marshalling) before the waiters decode the shared result. One P."""
    threads, sched = [], []

    def add(**kw):
        t = {"w": False, "key": 0, "val": 0, "ga": 0, "gb": 0, "gc": 0}
        t.update(kw)
        threads.append(t)
        return len(threads) - 1

    nkeys = rng.randint(2, 4)
    vals = {k: 100 * (k + 1) + rng.randint(1, 99) for k in range(nkeys)}     # distinct per key, same number of digits
    for k in range(nkeys):
        sched.append(["t", add(w=True, key=k, val=vals[k])])
    others = [k for k in range(nkeys) if k != 0]
    for k in others:
        if rng.random() < 0.5:
            sched.append(["t", add(key=k)])          # some other keys are cached already
    then = [{"w": False, "s": True, "key": k, "val": vals[k], "ga": 0, "gb": 0, "gc": 0}
            for k in [rng.choice(others) for _ in range(rng.randint(1, 3))]]
    i = len(threads)
    lead = add(key=0, ga=10 * i + 1 if rng.random() < 0.7 else 0, gb=10 * i + 2, then=then)
    sched.append(["t", lead])
    for _ in range(rng.randint(1, 6)):
        sched.append(["t", add(key=0)])
    if threads[lead]["ga"]:
        sched.append(["o", threads[lead]["ga"]])
    sched.append(["o", threads[lead]["gb"]])
    sched += [["t", lead]] * len(then)               # the model starts the further calls of the goroutine here
    for k in range(nkeys):
        sched.append(["t", add(key=k)])
    if rng.random() < 0.6:
        for t in threads:
            t["cn"] = rng.randrange(4)
    return {"level": "conc", "expire": 100, "nfexpire": 10, "nnodes": 1, "threads": threads, "sched": sched, "ops": []}


def gen_conc(rng, kind=None):
    """one call per thread (reader QueryRowCtx / writer ExecCtx of one key) under a forced schedule.
    gates of thread i: 10*i+1 (before the database access), 10*i+2 (after it), 10*i+3 (the SET / DEL in Redis)."""
    kind = kind or rng.choice(["stampede", "stampede", "cancel", "overlap", "overlap", "mixed", "shared", "shared"])
    if kind == "shared":
        return gen_shared(rng)
    threads, sched = [], []

    def add(w, key, val=0, ga=False, gb=False, gc=False):
        i = len(threads)
        threads.append({"w": w, "key": key, "val": val, "ga": 10 * i + 1 if ga else 0, "gb": 10 * i + 2 if gb else 0,
                        "gc": 10 * i + 3 if gc else 0})
        return i

    nkeys = rng.randint(1, 3)
    # setup: some keys get a row first
    for k in range(nkeys):
        if rng.random() < 0.7:
            sched.append(["t", add(True, k, rng.randint(1, 50))])
    if kind in ("stampede", "cancel"):
        leaders = []
        for k in range(nkeys):
            n = rng.randint(2, 8) if k == 0 else rng.randint(1, 4)
            # the first reader is held inside its query; the others would be held too if they ever queried
            ids = [add(False, k, ga=(rng.random() < (0.8 if j == 0 else 0.5)), gb=(j == 0 and rng.random() < 0.7),
                       gc=(j == 0 and rng.random() < 0.3)) for j in range(n)]
            leaders.append(ids)
        order = [i for ids in leaders for i in ids]
        # the gated reader of every key first (it becomes the executing call), the others in random order
        firsts = [ids[0] for ids in leaders]
        rest = [i for i in order if i not in firsts]
        rng.shuffle(rest)
        rng.shuffle(firsts)
        for i in firsts + rest:
            sched.append(["t", i])
        if kind == "cancel":
            victim = rng.choice(firsts if (rng.random() < 0.75 or not rest) else rest)
            threads[victim]["gc"] = 0   # never cancel a call whose SET is held inside Redis (the client would give up on it)
            if rng.random() < 0.8:
                sched.append(["c", victim])
            else:
                sched.insert(rng.randrange(len(sched) + 1), ["c", victim])   # possibly before it starts
            cancelled = {victim}
        else:
            cancelled = set()
        opens = [g for i in firsts for g in (threads[i]["ga"], threads[i]["gb"], threads[i]["gc"]) if g and i not in cancelled]
        late = [threads[i]["ga"] for i in rest if threads[i]["ga"] and i not in cancelled]
        # gates of one thread in order, threads interleaved
        per = {}
        for g in opens:
            per.setdefault(g // 10, []).append(g)
        while per:
            i = rng.choice(sorted(per))
            sched.append(["o", per[i].pop(0)])
            if not per[i]:
                del per[i]
            if rng.random() < 0.3:
                sched.append(["t", add(False, rng.randrange(nkeys))])     # a late reader joins or hits
        for g in late:
            sched.append(["o", g])
    else:
        # overlaps of reads and writes on key 0 (and independent traffic on the others)
        parked = []
        if rng.random() < 0.35:
            # a writer held inside exec before its database write while a reader runs from start to end
            i = add(True, 0, rng.randint(51, 99), ga=True, gc=rng.random() < 0.3)
            sched.append(["t", i])
            parked.append(i)
            sched.append(["t", add(False, 0)])
        for _ in range(rng.randint(1, 4)):
            k = 0 if rng.random() < 0.7 else rng.randrange(nkeys)
            if rng.random() < 0.5:
                i = add(False, k, ga=rng.random() < 0.4, gb=rng.random() < 0.6, gc=rng.random() < 0.4)
            else:
                i = add(True, k, rng.choice([0, rng.randint(1, 50), rng.randint(51, 99)]),
                        ga=rng.random() < 0.4, gb=rng.random() < 0.5, gc=rng.random() < 0.5)
            sched.append(["t", i])
            parked.append(i)
            if rng.random() < 0.4:
                sched.append(["t", add(False, k)])
        per = {i: [g for g in (threads[i]["ga"], threads[i]["gb"], threads[i]["gc"]) if g] for i in parked}
        per = {i: gs for i, gs in per.items() if gs}
        while per:
            i = rng.choice(sorted(per))
            sched.append(["o", per[i].pop(0)])
            if not per[i]:
                del per[i]
            if rng.random() < 0.25:
                sched.append(["t", add(False, rng.randrange(nkeys))])
    # everything has finished: plain reads of every key, twice
    for _ in range(2):
        for k in range(nkeys):
            sched.append(["t", add(False, k)])
    if rng.random() < 0.6:
        # the calls are spread over several CachedConn values built by separate NewConnWithCache / NewNodeConn / NewConn
        # calls over the same Redis: the single flight is per key, not per conn value
        for t in threads:
            t["cn"] = rng.randrange(4)
    return {"level": "conc", "expire": 100, "nfexpire": 10, "nnodes": 1, "threads": threads, "sched": sched, "ops": []}


def case_more_retries_than_workers():
    """one fixed case (about 6 s of real time): seven failed deletes whose first retries are due in the same tick on a
    cleaner with the package's 5 workers; the first ten retry DELs are answered (with an error) only after 3.3 s, so
    each of the five workers is held for two client attempts (> 6 s) while the other retries wait for a worker; every
    retry must still be made, and once Redis answers normally all keys go"""
    ops = [{"op": "exec", "w": ["put", 1, 0, 7], "keys": []}] + [{"op": "qrow", "id": i, "u": [5]} for i in range(4)]
    ops.append({"op": "fault", "node": -1, "g": False, "s": False, "d": True})
    ops += [{"op": "del", "keys": [k]} for k in _universe()]
    ops += [{"op": "fault", "node": -1, "g": False, "s": False, "d": True, "slowms": 3300, "slown": 10}, {"op": "adv", "dt": 1},
            {"op": "fault", "node": -1, "g": False, "s": False, "d": False}, {"op": "adv", "dt": 5},
            {"op": "qrow", "id": 1, "u": [5]}, {"op": "qrow", "id": 2, "u": [5]}, {"op": "adv", "dt": 1}]
    return {"level": "node", "ctor": "new", "opts": "both", "wheel": "real", "workers": 5, "expire": 100, "nfexpire": 10,
            "nnodes": 1, "ops": ops}


def case_exec_cancelled_in_callback():
    """one fixed case (2.3 s of real time, CachedConn level): the context of an ExecCtx is cancelled INSIDE the exec
    callback, after the database changed, with Redis healthy; the DEL then fails with the context error, and the key must
    be invalidated by the background retry (the cleaner's own 1 s wheel): after the wait a read returns the current row"""
    ops = [{"op": "exec", "w": ["put", 1, 0, 7], "keys": [["pk", 1], ["ix", 0]]}, {"op": "qrow", "id": 1, "u": [5]},
           {"op": "qidx", "ix": 0, "u": [5, 6]}, {"op": "qrow", "id": 2, "u": [5]},
           {"op": "execc", "w": ["put", 1, 0, 8], "keys": [["pk", 1]]},
           {"op": "execc", "w": ["put", 2, 1, 9], "keys": [["pk", 2], ["ix", 1]]},
           {"op": "wait", "dt": 2300},
           {"op": "qrow", "id": 1, "u": [5]}, {"op": "qrow", "id": 2, "u": [5]}, {"op": "qidx", "ix": 0, "u": [5, 6]}]
    return {"level": "sqlc", "expire": 100, "nfexpire": 10, "nnodes": 1, "ctor": "nodeconn", "opts": "both", "ops": ops}


def case_idle_stat_interval(secs=62):
    """THOROUGH tier only (about a minute of real time; cache.statInterval is a constant one-minute real ticker that
    neither the virtual clock nor a hook can shorten): the cache gets a statistics object of its own, nothing is asked
    of it for a full interval, then reads (uncached, cached, not found, cancelled) must still answer promptly"""
    ops = [{"op": "idle", "dt": secs}, {"op": "exec", "w": ["put", 1, 0, 7], "keys": [["pk", 1]]},
           {"op": "qrow", "id": 1, "u": [5]}, {"op": "qrow", "id": 1, "u": [5]}, {"op": "qrow", "id": 2, "u": [5]},
           {"op": "qrow", "id": 2, "u": [5]}, {"op": "qrowc", "id": 1, "u": [5]}, {"op": "adv", "dt": 1}]
    return {"level": "node", "ctor": "new", "opts": "both", "wheel": "real", "freshstat": True, "expire": 100, "nfexpire": 10,
            "nnodes": 1, "ops": ops}


def generate(rng, tier, n):
    cases = []
    if tier != "search":
        cases.append(case_more_retries_than_workers())
        cases.append(case_exec_cancelled_in_callback())
    if tier == "thorough" or os.environ.get("VERIF_C06_IDLE") == "1":
        cases.append(case_idle_stat_interval())
    nconc = max(1, n // 4)
    for i in range(nconc):
        cases.append(gen_conc(rng))
    for i in range(n - nconc):
        x = rng.random()
        level = "sqlc" if x < 0.40 else ("node" if x < 0.75 else "cluster")
        faulty = rng.random() < 0.22
        long_chain = faulty and level != "sqlc" and rng.random() < (0.5 if tier != "quick" else 0.3)
        long_ttl = rng.random() < 0.3
        cases.append(gen_case(rng, level, faulty and not long_ttl, long_chain and not long_ttl, long_ttl))
    return cases


def search(rng, problems):
    """directed cases: failing deletes followed by long stretches of time, at every level that sees the cleaner"""
    out = []
    for level in ("node", "cluster"):
        nn = 3 if level == "cluster" else 1
        for up_after in (None, 0, 1, 3, 8, 70, 400):
            ops = [{"op": "exec", "w": ["put", 1, 0, 5], "keys": [["pk", 1], ["ix", 0]]},
                   {"op": "qrow", "id": 1, "u": [100]}, {"op": "qrow", "id": 2, "u": [100]},
                   {"op": "fault", "node": -1, "g": False, "s": False, "d": True},
                   {"op": "exec", "w": ["put", 1, 0, 6], "keys": [["pk", 1], ["pk", 2]]}]
            if up_after is not None:
                if up_after:
                    ops.append({"op": "adv", "dt": up_after})
                ops.append({"op": "fault", "node": -1, "g": False, "s": False, "d": False})
            ops += [{"op": "adv", "dt": 7}, {"op": "qrow", "id": 1, "u": [7]}, {"op": "adv", "dt": 4000},
                    {"op": "qrow", "id": 1, "u": [7]}]
            out.append({"level": level, "expire": 3600, "nfexpire": 60, "nnodes": nn, "ops": ops + [{"op": "adv", "dt": 1}],
                        "ctor": "new", "opts": "both", "wheel": "real"})
            out.append({"level": level, "expire": 3600, "nfexpire": 60, "nnodes": nn, "ops": ops, "ctor": "lit", "opts": "both", "wheel": "abs"})
    for _ in range(40):
        out.append(gen_case(rng, rng.choice(["node", "cluster"]), True, True))
    # options through every constructor, on every node; reads under a cancelled context of cached / uncached keys
    for level, ctor, nn in (("node", "new", 1), ("node", "newnode", 1), ("cluster", "new", 3), ("cluster", "new", 2)):
        for e, nfe, opts in ((100, 10, "both"), (3600, 7, "both"), (50, 60, "e"), (7 * DAY, 9, "n"), (7 * DAY, 60, "none")):
            ops = [{"op": "exec", "w": ["put", i, 0, 7 + i], "keys": [["pk", i]]} for i in (0, 1)]
            ops += [{"op": "qrow", "id": i, "u": [m]} for i, m in ((0, 0), (1, 1023), (2, 512), (3, 0))]
            ops += [{"op": "qrowc", "id": i, "u": [512]} for i in (0, 2)]
            ops += [{"op": "del", "keys": [["pk", 0]]}, {"op": "qrowc", "id": 0, "u": [512]}, {"op": "qrow", "id": 0, "u": [7]},
                    {"op": "set", "key": ["pk", 3], "val": ["row", 3, 2, 9], "u": [1023]}, {"op": "adv", "dt": 1}]
            out.append({"level": level, "expire": e, "nfexpire": nfe, "nnodes": nn, "ops": ops, "ctor": ctor, "opts": opts, "wheel": "real"})
    # option boundary values through every constructor
    for e, nfe in ((0, 0), (-1, -60), (0, 10), (100, 0)):
        base = [{"op": "exec", "w": ["put", 1, 0, 7], "keys": [["pk", 1], ["ix", 0]]}, {"op": "qrow", "id": 1, "u": [0]},
                {"op": "qrow", "id": 2, "u": [1023]}, {"op": "set", "key": ["pk", 3], "val": ["row", 3, 2, 9], "u": [512]}]
        for ctor in ("", "nodeconn", "conn"):
            out.append({"level": "sqlc", "expire": e, "nfexpire": nfe, "nnodes": 1, "ctor": ctor, "opts": "both",
                        "ops": base + [{"op": "qidx", "ix": 0, "u": [5, 6]}, {"op": "qidx", "ix": 1, "u": [5, 6]}]})
        for level, ctor, nn in (("node", "new", 1), ("node", "newnode", 1), ("cluster", "new", 3)):
            out.append({"level": level, "expire": e, "nfexpire": nfe, "nnodes": nn, "ctor": ctor, "opts": "both", "wheel": "real",
                        "ops": base + [{"op": "adv", "dt": 1}]})
    # a delete that fails under a request-scoped context which is cancelled right after: the retries still run
    for level, nn in (("node", 1), ("cluster", 3)):
        for wheel in ("real", "abs"):
            out.append({"level": level, "expire": 100, "nfexpire": 10, "nnodes": nn, "ctor": "new", "opts": "both", "wheel": wheel, "ops": [
                {"op": "exec", "w": ["put", 1, 0, 7], "keys": [["pk", 1]]}, {"op": "qrow", "id": 1, "u": [5]}, {"op": "qrow", "id": 2, "u": [5]},
                {"op": "fault", "node": -1, "g": False, "s": False, "d": True},
                {"op": "exec", "w": ["put", 1, 0, 8], "keys": [["pk", 1]], "ctxc": True}, {"op": "del", "keys": [["pk", 2]], "ctxc": True, "go": True},
                {"op": "adv", "dt": 2}, {"op": "fault", "node": -1, "g": False, "s": False, "d": False}, {"op": "adv", "dt": 5},
                {"op": "qrow", "id": 1, "u": [5]}, {"op": "adv", "dt": 1}]})
    # a panicking query callback, then reads of the same key
    for level in ("sqlc", "node", "cluster"):
        c = {"level": level, "expire": 100, "nfexpire": 10, "nnodes": 3 if level == "cluster" else 1, "ops": [
            {"op": "exec", "w": ["put", 1, 0, 7], "keys": [["pk", 1]]}, {"op": "qrowp", "id": 1, "u": [5]}, {"op": "qrow", "id": 1, "u": [5]},
            {"op": "qrowp", "id": 2, "u": [5]}, {"op": "qrowp", "id": 2, "u": [5]}, {"op": "qrow", "id": 2, "u": [5]}, {"op": "qrowp", "id": 1, "u": [5]}]}
        if level != "sqlc":
            c.update({"ctor": "new", "opts": "both", "wheel": "abs"})
        out.append(c)
    # exec callbacks returning every kind of result while the key is cached
    for res in ("", "one", "zero", "err"):
        out.append({"level": "sqlc", "expire": 100, "nfexpire": 10, "nnodes": 1, "ops": [
            {"op": "exec", "w": ["put", 1, 0, 7], "keys": [["pk", 1], ["ix", 0]], "res": res}, {"op": "qrow", "id": 1, "u": [5]},
            {"op": "qidx", "ix": 0, "u": [5, 6]}, {"op": "exec", "w": ["put", 1, 0, 8], "keys": [["pk", 1]], "res": res},
            {"op": "qrow", "id": 1, "u": [5]}, {"op": "exec", "w": ["del", 1], "keys": [["pk", 1], ["ix", 0]], "res": res},
            {"op": "qrow", "id": 1, "u": [5]}, {"op": "qidx", "ix": 0, "u": [5, 6]}]})
    # every session kind x {row exists, missing, failing database}, second read of the missing row
    for via in ("", "conn", "stmt", "tx", "txstmt"):
        out.append({"level": "sqlc", "expire": 100, "nfexpire": 10, "nnodes": 1, "ops": [
            {"op": "exec", "w": ["put", 1, 0, 7], "keys": [["pk", 1], ["ix", 0]]},
            {"op": "qrow", "id": 1, "u": [3], "via": via}, {"op": "qrow", "id": 2, "u": [3], "via": via}, {"op": "qrow", "id": 2, "u": [3], "via": via},
            {"op": "qrowe", "id": 3, "u": [3], "via": via}, {"op": "qrow", "id": 3, "u": [3], "via": via},
            {"op": "qidx", "ix": 0, "u": [3, 4], "via": via}, {"op": "qidx", "ix": 1, "u": [3, 4], "via": via}, {"op": "qidx", "ix": 1, "u": [3, 4], "via": via},
            {"op": "del", "keys": [["pk", 1]]}, {"op": "qrowe", "id": 1, "u": [3], "via": via}, {"op": "qidx", "ix": 0, "u": [3, 4], "via": via}]})
    # failed deletes of different keys pending together, issued from different goroutines with GCs in between
    for level, nn in (("node", 1), ("cluster", 3)):
        for wheel in ("real", "abs"):
            ops = [{"op": "fault", "node": -1, "g": True, "s": True, "d": True}]
            for i in range(4):
                ops += [{"op": "del", "keys": [["pk", i]], "go": i % 2 == 1}, {"op": "gc"}]
            ops += [{"op": "adv", "dt": 7}, {"op": "exec", "w": ["put", 1, 0, 3], "keys": [["ix", 0]], "go": True}, {"op": "gc"},
                    {"op": "del", "keys": [["ix", 1]]}, {"op": "adv", "dt": 2}, {"op": "fault", "node": -1, "g": False, "s": False, "d": False},
                    {"op": "adv", "dt": 70}, {"op": "adv", "dt": 1}]
            out.append({"level": level, "expire": 100, "nfexpire": 10, "nnodes": nn, "ops": ops, "ctor": "new", "opts": "both", "wheel": wheel})
    out.append({"level": "sqlc", "expire": 100, "nfexpire": 10, "nnodes": 1, "ops": [
        {"op": "exec", "w": ["put", 1, 0, 7], "keys": [["pk", 1], ["ix", 0]]}, {"op": "qidx", "ix": 0, "u": [5, 6]},
        {"op": "qrowc", "id": 1, "u": [1]}, {"op": "qidxc", "ix": 0, "u": [1, 2]}, {"op": "qrowc", "id": 2, "u": [1]},
        {"op": "qidxc", "ix": 1, "u": [1, 2]}, {"op": "qrow", "id": 1, "u": [1]}]})
    for e in LONG_EXPIRIES:
        for m in (0, 512, 1023):
            out.append({"level": "sqlc", "expire": e, "nfexpire": e, "nnodes": 1, "ops": [
                {"op": "exec", "w": ["put", 1, 0, 7], "keys": [["pk", 1], ["ix", 0]]},
                {"op": "qrow", "id": 1, "u": [m]}, {"op": "qrow", "id": 2, "u": [m]},
                {"op": "del", "keys": [["pk", 1]]}, {"op": "qidx", "ix": 0, "u": [m, m]}, {"op": "qidx", "ix": 1, "u": [m, m]},
                {"op": "set", "key": ["pk", 3], "val": ["row", 3, 2, 9], "u": [m]}]})
    for conns in ((1, 3), (0, 1, 2, 3), (2, 1), (1, 1, 3, 3, 2)):
        th = [{"w": True, "key": 0, "val": 7, "ga": 0, "gb": 0, "gc": 0}]
        th += [{"w": False, "key": 0, "val": 0, "ga": 10 * (i + 1) + 1, "gb": 0, "gc": 0, "cn": cn} for i, cn in enumerate(conns)]
        sch = [["t", i] for i in range(len(th))] + [["o", t["ga"]] for t in th[1:]]
        th.append({"w": False, "key": 0, "val": 0, "ga": 0, "gb": 0, "gc": 0, "cn": conns[-1]})
        sch.append(["t", len(th) - 1])
        out.append({"level": "conc", "expire": 100, "nfexpire": 10, "nnodes": 1, "ops": [], "threads": th, "sched": sch})
    for kind in ("stampede", "cancel", "overlap", "mixed", "shared"):
        for _ in range(15):
            out.append(gen_conc(rng, kind))
    # a writer held before its database write while a reader fills the cache; a leader cancelled with followers waiting
    out.append({"level": "conc", "expire": 100, "nfexpire": 10, "nnodes": 1, "ops": [],
                "threads": [{"w": True, "key": 0, "val": 3, "ga": 0, "gb": 0, "gc": 0}, {"w": True, "key": 0, "val": 5, "ga": 11, "gb": 0, "gc": 0},
                            {"w": False, "key": 0, "val": 0, "ga": 0, "gb": 0, "gc": 0}, {"w": False, "key": 0, "val": 0, "ga": 0, "gb": 0, "gc": 0}],
                "sched": [["t", 0], ["t", 1], ["t", 2], ["o", 11], ["t", 3]]})
    out.append({"level": "conc", "expire": 100, "nfexpire": 10, "nnodes": 1, "ops": [],
                "threads": [{"w": True, "key": 0, "val": 3, "ga": 0, "gb": 0, "gc": 0}, {"w": False, "key": 0, "val": 0, "ga": 11, "gb": 12, "gc": 0}] +
                           [{"w": False, "key": 0, "val": 0, "ga": 10 * i + 1, "gb": 0, "gc": 0} for i in range(2, 6)],
                "sched": [["t", 0], ["t", 1], ["t", 2], ["t", 3], ["t", 4], ["t", 5], ["c", 1], ["o", 21], ["o", 31], ["o", 41], ["o", 51]]})
    return out


def drive(cases, tier):
    """cases of level sqlc go to the lib/store/sqlc driver, the others to the lib/store/cache driver"""
    groups = {"./lib/store/sqlc": [], "./lib/store/cache": []}
    for i, c in enumerate(cases):
        groups["./lib/store/sqlc" if c.get("level") in ("sqlc", "conc") else "./lib/store/cache"].append(i)
    obs = [None] * len(cases)
    logs = []
    for pkg, idx in groups.items():
        if not idx:
            continue
        o, lg = vlib.run_driver(pkg, [cases[i] for i in idx], name="C06_%s_%s" % (pkg.split("/")[-1], tier), timeout=DRIVER_TIMEOUT)
        logs.append(lg[-3000:])
        if o is None:
            return None, "\n".join(logs)
        for i, ob in zip(idx, o):
            obs[i] = ob
    return obs, "\n".join(logs)


# ------------------------------------------------------------------ encoding
def ckey(k):
    return "(%s %s)" % ("PK" if k[0] == "pk" else "IX", cnat(k[1]))


def cval(s):
    if s == "*":
        return "VStar"
    if s.startswith("not-json-"):
        return "(VBad %s)" % cnat(int(s[9:]))
    try:
        j = json.loads(s)
    except ValueError:
        return "(VBad 4999%nat)"
    if isinstance(j, dict) and set(j) == {"id", "ix", "val"}:
        return "(VRow %s %s %s)" % (cnat(j["id"]), cnat(j["ix"]), cnat(j["val"]))
    if isinstance(j, int) and not isinstance(j, bool) and j >= 0:
        return "(VPk %s)" % cnat(j)
    return "(VBad 4998%nat)"


def cval_in(v):
    if v[0] == "row":
        return "(VRow %s %s %s)" % (cnat(v[1]), cnat(v[2]), cnat(v[3]))
    return "(VPk %s)" % cnat(v[1])


def cwrite(w):
    if w[0] == "put":
        return "(WPut %s %s %s)" % (cnat(w[1]), cnat(w[2]), cnat(w[3]))
    if w[0] == "del":
        return "(WDel %s)" % cnat(w[1])
    return "WFail"


def cres(o):
    r = o.get("r")
    if r == "row":
        a = o["row"]
        return "(RRow %s %s %s)" % (cnat(a[0]), cnat(a[1]), cnat(a[2]))
    return {"nf": "RNotFound", "cerr": "RCacheErr", "ok": "ROk", "execerr": "RExecErr", "ctx": "RCtxErr", "dberr": "RDbErr", "panic": "RDbErr"}.get(r, "RUnmodelled")


def cop(o):
    k = o["op"]
    u = (o.get("u") or [512]) + [512, 512]
    if k == "qrow":
        return "XQRow %s %s" % (cnat(o["id"]), cZ(u[0]))
    if k == "qrowp":
        return "XQRowE %s" % cnat(o["id"])
    if k == "qrowe":
        return "XQRowE %s" % cnat(o["id"])
    if k in ("gc", "idle"):
        return "XGc"
    if k == "execc":
        return "XExecC %s %s" % (cwrite(o["w"]), clist([ckey(x) for x in o["keys"]]))
    if k == "wait":
        return "XTick"
    if k == "qrowc":
        return "XQRowC %s" % cnat(o["id"])
    if k == "qidxc":
        return "XQIdxC %s" % cnat(o["ix"])
    if k == "qidx":
        return "XQIdx %s %s %s" % (cnat(o["ix"]), cZ(u[0]), cZ(u[1]))
    if k == "exec":
        return "XExec %s %s" % (cwrite(o["w"]), clist([ckey(x) for x in o["keys"]]))
    if k == "del":
        return "XDel %s" % clist([ckey(x) for x in o["keys"]])
    if k == "set":
        return "XSet %s %s %s" % (ckey(o["key"]), cval_in(o["val"]), cZ(u[0]))
    if k == "adv":
        return "XAdv %s" % cZ(o["dt"])
    if k == "fault":
        nd = o.get("node", -1)
        return "XFault %s %s %s %s" % (copt(None if nd < 0 else cnat(nd)), cbool(o["g"]), cbool(o["s"]), cbool(o["d"]))
    if k == "corrupt":
        return "XCorrupt %s %s %s" % (ckey(o["key"]), cnat(o["gi"]), cZ(o["ttl"]))
    raise ValueError(k)


CONC_NONE = "[] [] [] [] [] [] []"


def ccop(t):
    return "CA.mkcop %s %s %s %s %s %s %s" % (cbool(t["w"]), cnat(t["key"]), cnat(t["val"]), cnat(t["ga"]), cnat(t["gb"]), cnat(t["gc"]),
                                             cbool(t.get("s", False)))


def encode_conc(case, obs):
    threads = clist([ccop(t) for t in case["threads"]])
    sched = clist([{"t": "LStart %s", "o": "LOpen %s", "c": "LCancel %s"}[k] % cnat(v) for k, v in case["sched"]])
    head = "mkcase 3%%nat %s %s 1%%nat [] [] [] [] 0%%Z %s %s" % (cZ(case["expire"]), cZ(case["nfexpire"]), threads, sched)
    more = clist([cpair(cnat(i), clist([ccop(f) for f in t["then"]])) for i, t in enumerate(case["threads"]) if t.get("then")])
    if not isinstance(obs, dict) or "events" not in obs or obs.get("aborted"):
        return head + " [OStart 0 0; OStart 0 0; OEv (CA.EQBegin 0 0); OEv (CA.EQBegin 0 0)] [] [] [] " + more + " true true"   # fails both checkers
    evs = []
    for kind, t, k, v in obs["events"]:
        if kind == 0:
            evs.append("OEv (CA.EQBegin %s %s)" % (cnat(t), cnat(k)))
        elif kind == 1:
            evs.append("OEv (CA.EQEnd %s %s)" % (cnat(t), cnat(k)))
        elif kind == 2:
            evs.append("OEv (CA.ESet %s %s %s)" % (cnat(t), cnat(k), cnat(v if v >= 0 else 4999)))
        elif kind == 3:
            evs.append("OEv (CA.EDel %s %s)" % (cnat(t), cnat(k)))
        elif kind == 4:
            evs.append("OEv (CA.EWrite %s %s %s)" % (cnat(t), cnat(k), cnat(v)))
        elif kind == 5:
            evs.append("ORet %s" % cnat(t))
        else:
            evs.append("OStart %s %s" % (cnat(t), cnat(k)))
    def one(r, key):
        if r == "ctx":
            return "None"
        if r in ("nf", "ok"):
            return "(Some 0%nat)"
        if isinstance(r, list) and r[0] == "row" and (len(r) < 3 or r[2] == key):
            return "(Some %s)" % cnat(r[1])
        return "(Some 4997%nat)"     # unexpected error, or a row of another key: no model result equals it
    res = []
    for i, rs in enumerate(obs["res"]):
        ops = [case["threads"][i]] + case["threads"][i].get("then", [])
        if rs is None:
            res.append("[]")
        else:
            if not isinstance(rs, list) or (rs and rs[0] == "row"):
                rs = [rs]
            res.append(clist([one(r, ops[min(j, len(ops) - 1)]["key"]) for j, r in enumerate(rs)]))
    cache = clist([copt(None if v is None else cnat(v if v >= 0 else 4999)) for v in obs["cache"]])
    db = clist([cnat(v) for v in obs["db"]])
    return "%s %s %s %s %s %s true true" % (head, clist(evs), clist(res), cache, db, more)


def encode(case, obs):
    if case["level"] == "conc":
        return encode_conc(case, obs)
    opts = case.get("opts") or "both"
    return "%s %s %s %s" % (encode_seq(case, obs), CONC_NONE, cbool(opts in ("both", "e")), cbool(opts in ("both", "n")))


def encode_seq(case, obs):
    level = {"sqlc": 0, "node": 1, "cluster": 2}[case["level"]]
    uni = _universe()
    if not isinstance(obs, dict) or "ops" not in obs or obs.get("aborted"):
        # driver error / panic / the cleaner did not settle: a case on which both checkers fail
        return "mkcase %s %s %s %s [] %s [] [] 0%%Z" % (cnat(level), cZ(case["expire"]), cZ(case["nfexpire"]), cnat(case["nnodes"]),
                                                        clist([cop(o) for o in case["ops"]]))
    rows = []
    for o in obs["ops"]:
        dump = [cpair(cpair(cnat(d[0]), ckey(uni[d[1]])), cpair(cval(d[2]), cZ(d[3]))) for d in o["dump"]]
        rows.append("mkobs %s %s %s" % (cres(o), cnat(o["q"]), clist(dump)))
    logs = []
    for lg in obs["logs"]:
        evs = []
        # chronological: within a tick the retries run first (at the tick), deletes that arm chains come after
        # (with several cleaner workers the retries of one tick finish in any order: by chain then)
        several = case.get("workers", 1) > 1
        for e in sorted(lg, key=lambda e: (e[2], 0 if e[0] == "try" else 1, e[1] if several else 0)):
            if e[0] == "arm":
                evs.append("EvArm %s %s %s" % (cnat(e[1]), cZ(e[2]), clist([ckey(x) for x in e[3]])))
            else:
                evs.append("EvTry %s %s %s" % (cnat(e[1]), cZ(e[2]), cbool(e[3])))
        logs.append(clist(evs))
    place = [cnat(max(p, 0)) for p in obs["place"]]
    return "mkcase %s %s %s %s %s %s %s %s %s" % (
        cnat(level), cZ(case["expire"]), cZ(case["nfexpire"]), cnat(case["nnodes"]), clist(place),
        clist([cop(o) for o in case["ops"]]), clist(rows), clist(logs), cZ(obs.get("tick", 0)))


# ------------------------------------------------------------------ evidence helpers
def _conc_stats(case, obs):
    evs = obs.get("events", [])
    readers = [i for i, t in enumerate(case["threads"]) if not t["w"]]
    leaders = {e[1] for e in evs if e[0] == 0}
    started = {e[1] for e in evs if e[0] == 6}
    followers = [i for i in readers if i in started and i not in leaders]
    return readers, leaders, followers


def _reads(case, obs):
    if case["level"] == "conc":
        return
    prevq = 0
    for o, ob in zip(case["ops"], obs.get("ops", [])):
        if o["op"] in ("qrow", "qidx"):
            yield o, ob, ob["q"] - prevq
        prevq = ob["q"]


def nontrivial(case, obs):
    if case["level"] == "conc":
        if not isinstance(obs, dict) or "events" not in obs:
            return False
        readers, leaders, followers = _conc_stats(case, obs)
        return len(leaders) >= 1 and (len(followers) >= 1 or any(t["w"] and (t["ga"] or t["gb"] or t["gc"]) for t in case["threads"]))
    if not isinstance(obs, dict) or "ops" not in obs:
        return False
    hit = fill = nf = False
    for o, ob, dq in _reads(case, obs):
        if ob["r"] == "row" and dq == 0:
            hit = True
        if ob["r"] == "row" and dq > 0:
            fill = True
        if ob["r"] == "nf":
            nf = True
    return hit and fill and nf and any(o["op"] == "exec" for o in case["ops"])


def bucket(case, obs):
    if case["level"] == "conc":
        out = ["level:conc", "threads<=%d" % (((len(case["threads"]) + 4) // 5) * 5)]
        if not isinstance(obs, dict) or "events" not in obs or obs.get("aborted"):
            return out + ["obs:driver-error"]
        readers, leaders, followers = _conc_stats(case, obs)
        out.append("conc:max-in-flight=%d" % max(obs["maxfl"] + [0]))
        out.append("conc:followers=%d" % min(len(followers), 8))
        if any(k == "c" for k, _ in case["sched"]):
            out.append("conc:cancel")
        if len({t.get("cn", 0) % 4 for t in case["threads"]}) > 1:
            out.append("conc:several-conn-values")
        if any(t.get("then") for t in case["threads"]):
            out.append("conc:leader-goes-on-while-waiters-decode")
        if any(r == "ctx" or (isinstance(r, list) and "ctx" in r) for r in obs["res"]):
            out.append("conc:ctx-error-returned")
        if any(t["w"] and (t["ga"] or t["gb"] or t["gc"]) for t in case["threads"]):
            out.append("conc:writer-parked")
        if any((not t["w"]) and (t["gb"] or t["gc"]) for t in case["threads"]) and any(t["w"] for t in case["threads"]):
            out.append("conc:reader-parked-after-db-read")
        stale = [k for k, (cv, dv) in enumerate(zip(obs["cache"], obs["db"])) if cv is not None and cv != dv]
        if stale:
            out.append("conc:stale-entry-after-race")
        return out
    out = ["level:" + case["level"], "ops<=%d" % (((len(case["ops"]) + 19) // 20) * 20)]
    if case["level"] == "sqlc":
        out.append("sqlc-ctor:%s/%s" % (case.get("ctor") or "withcache", case.get("opts") or "both"))
        for o in case["ops"]:
            if o["op"] == "exec" and o.get("res"):
                out.append("exec-result:" + o["res"])
    for name in ("expire", "nfexpire"):
        if case[name] <= 0 and (case.get("opts") or "both") in ("both", name[0]):
            out.append("option<=0:%s" % name)
    if any(o.get("ctxc") for o in case["ops"]):
        out.append("delete-under-request-context")
    if case.get("workers", 1) > 1:
        out.append("more-due-retries-than-workers")
    if any(o["op"] == "execc" for o in case["ops"]):
        out.append("exec-context-cancelled-in-callback")
    if any(o["op"] == "idle" for o in case["ops"]):
        out.append("idle-stat-interval")
    if case.get("ctor") and case["level"] != "sqlc":
        out.append("ctor:%s/%s%s" % (case["ctor"], case.get("opts"), "/%d-nodes" % case["nnodes"] if case["level"] == "cluster" else ""))
        out.append("wheel:" + case.get("wheel", "abs"))
    for name, e in (("expire", case["expire"]), ("nfexpire", case["nfexpire"])):
        if e >= 3600:
            out.append("%s:%s" % (name, "%dd" % (e // DAY) if e >= DAY else "1h"))
    if isinstance(obs, dict) and "ops" in obs:
        if any(d[3] > 0 for o in obs["ops"] for d in o["dump"]):
            out.append("ttl-read-back")
        if any(d[3] == 0 for o in obs["ops"] for d in o["dump"]):
            out.append("ttl:NO-EXPIRY")
    for k in sorted({o["op"] for o in case["ops"]}):
        out.append("op:" + k)
    if any(o["op"] == "fault" for o in case["ops"]):
        out.append("faults")
    if not isinstance(obs, dict) or "ops" not in obs:
        return out + ["obs:driver-error"]
    for r in sorted({(ob["r"] if not ob["r"].startswith("err:") else "err") for ob in obs["ops"]}):
        out.append("res:" + r)
    for o, ob, dq in _reads(case, obs):
        if ob["r"] == "nf" and dq == 0:
            out.append("placeholder-hit")
            break
    for o, ob in zip(case["ops"], obs["ops"]):
        if o.get("via"):
            out.append("via:%s:%s" % (o["via"], ob["r"] if not ob["r"].startswith("err:") else "err"))
        if o["op"] == "qrowe":
            out.append("db-error:" + ob["r"])
        if o["op"] == "qrowp":
            out.append("query-panics:" + (ob["r"] if not ob["r"].startswith("err:") else "err"))
    if any(o["op"] == "gc" for o in case["ops"]):
        out.append("gc-between-deletes")
    if any(o.get("go") for o in case["ops"]):
        out.append("delete-from-other-goroutine")
    live = set()
    for o, ob in zip(case["ops"], obs["ops"]):
        if o["op"] in ("qrowc", "qidxc"):
            key = o["id"] if o["op"] == "qrowc" else NPK + o["ix"]
            out.append("cancelled-read:%s" % ("cached" if key in live else "uncached"))
        live = {d[1] for d in ob["dump"]}
    for lg in obs.get("logs", []):
        arms = [e for e in lg if e[0] == "arm"]
        for a in arms:
            tries = [e for e in lg if e[0] == "try" and e[1] == a[1]]
            out.append("retry-chain:%d%s" % (len(tries), "+ok" if tries and tries[-1][3] else ""))
    return out


def explain(case, obs):
    if case.get("level") == "conc":
        return ("concurrent history contradicts C06.Exec.spec_ok_conc: two database queries for one key were in flight "
                "together (c06_one_query_in_flight), or a read that started alone after every earlier operation on its key "
                "had finished -- the last write followed by its delete, no racing store -- did not return the database's "
                "current row (c06_coherent_concurrent), or a reader was not served, or an uncontended key was queried twice")
    return ("observed behaviour contradicts C06.Exec.spec_ok: a read returned something else than the reference "
            "database's row although every delete naming the key had succeeded (c06_coherent), or a read queried the "
            "DB while a placeholder was live (c06_placeholder_shields), or a stored TTL left [ceil(.95e), ceil(1.05e)] "
            "(c06_ttl_window), or a Redis error was not returned / the DB was asked (c06_error_passthrough), or an "
            "index entry outlived its primary entry (c06_index_gap), or the retries of a failed delete left the "
            "schedule +1 s,+5 s,+60 s,+300 s,+3600 s / continued after a success / never happened (c06_retry_schedule)")
