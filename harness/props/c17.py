"""C17 in-memory cache: call histories (Set/SetWithExpire/Get/Del/Take + wheel ticks) on a cache whose
expiry wheel runs on a fake ticker and whose expiry jitter is scripted (one draw per call).

Case = {"kind":"cache","expire":ns,"limit":n,"phase":ticks before the first call,"calls":[...]};
observation per call = {found,val,err,fetched,jit (the jittered duration of this call's draw),keys}.
"""
from vlib import cZ, cnat, cbool, clist, copt, run_driver

ID = "C17"
GO_PKG = "./lib/collection"
GEN_SPEC = {"items": [
    {"kind": "const", "file": "lib/collection/cache.go", "name": "slots", "as": "cache_slots"},
    {"kind": "const", "file": "lib/collection/cache.go", "name": "expiryDeviation", "type": "Q"},
    {"kind": "calls", "file": "lib/collection/cache.go", "func": "Cache.SetWithExpire", "as": "set_calls"},
    {"kind": "calls", "file": "lib/collection/cache.go", "func": "Cache.Del", "as": "del_calls"},
    {"kind": "calls", "file": "lib/collection/cache.go", "func": "Cache.doGet", "as": "doGet_calls"},
    {"kind": "calls", "file": "lib/collection/cache.go", "func": "Cache.Take", "as": "take_calls"},
    {"kind": "calls", "file": "lib/collection/cache.go", "func": "Cache.onEvict", "as": "onEvict_calls"},
    {"kind": "calls", "file": "lib/collection/cache.go", "func": "keyLru.add", "as": "lru_add_calls"},
    {"kind": "calls", "file": "lib/collection/cache.go", "func": "keyLru.removeElement", "as": "lru_removeElement_calls"},
    {"kind": "calls", "file": "lib/collection/cache.go", "func": "NewCache", "as": "new_calls"},
    {"kind": "calls", "file": "lib/collection/cache.go", "func": "keyLru.remove", "as": "lru_remove_calls"},
    {"kind": "calls", "file": "rpc/internal/auth/auth.go", "func": "Authenticator.validate", "as": "auth_validate_calls"},
    {"kind": "calls", "file": "lib/mathx/unstable.go", "func": "Unstable.AroundDuration", "as": "around_calls"},
]}
AUTH_PKG = "./rpc/internal/auth"
QUICK_N = 300
THOROUGH_N = 5000
SEARCH_N = 300
SHARD = 25
DRIVER_TIMEOUT = 1500
RULE = ("one cache per case: limit in {0 (none),1,2,3}, default expiry in {2,3,5,10,19,20,21,60,100,299,300,301,400 s, "
        "2.5 s}, wheel phase 0..299 (ticks before the first call), 4-5 keys, 10-40 calls Set/SetWithExpire/Get/Del/Take "
        "(fetch ok or failing) interleaved with tick bursts around 0.95e, e and 1.05e, scripted jitter draws in "
        "{0, 2^62, 2^63-2048, random}; a re-insertion stream (fill to the limit, Del or let expire, Set/Take the same key "
        "again, then overflow with new keys); a jitter stream (kind jitter: AroundDuration/AroundInt with the cache's "
        "deviation for base durations 1 ms .. 10 years incl. 1 h, 3 h, 6 h, 1 d, 30 d, 1 y and 16 scripted draws each); an "
        "authenticator stream (kind auth, rpc/internal/auth on miniredis: set/del tokens, store outages of at most 4 "
        "failing lookups, calls with right and wrong tokens, strict and non-strict, bursts of 2-8 overlapping Authenticate "
        "calls for one app -- cold, cached, after the entry was dropped, unknown app -- with the store's HGET held until "
        "the callers have piled up: lookups counted by a miniredis hook); fixed cases in every tier and seed: jitter for "
        "bases 3 h .. 10 y, end-to-end expiries 3 h, 6 h, 1 d, 30 d, 1 y on large-interval wheels, and one timer-index churn "
        "case (1000 live entries, 10001 timer removals, newer keys, compaction, then re-Set/Del of the newer keys; only "
        "keys below 40 listed, sizes count all); thorough tier only: end-to-end "
        "cases with expiries 1 h, 3 h, 6 h stepped second by second; quick tier: end-to-end long expiries {3 h, 6 h, 1 d, "
        "30 d, 1 y} on the same cache built (in-package) on a 300-slot wheel with interval 1 min .. 7 d so that "
        "8 <= e/I <= 420 ticks, with a re-set on the way; plus a malformed stream (expiry <= 0, expiry around one second, limit < 0); "
        "non-trivial = an entry was seen to expire and (for limit > 0) an entry was evicted or a key was re-set; "
        "distinct = distinct canonical case JSON")
TRUSTED = ["miniredis as the token store and its Close/Restart as the outage (auth stream); the store's circuit breaker "
           "does not trip (at most 4 failing lookups per case, below its protection threshold)",
           "C10 wheel model for the expiry timers (C10 theorems, C10 correspondence)",
           "mathx.Unstable.AroundDuration: the jittered duration of every call is recomputed by the driver from the "
           "scripted draw and handed to the model as an input",
           "Go map / container/list semantics (data as association list, LRU as a list of keys)",
           "syncx.SingleFlight with a single caller runs the function once (concurrent callers: C18)"]
ASSUMPTIONS = ["every wait of the driver is bounded (4 s per case); a case in which the cache or its wheel gets stuck is "
               "reported as hung and fails both checkers (obs:HUNG in input_distribution, 0 on the unchanged tree)",
               "after every call the driver reads the wheel's index: spec_ok requires every stored entry to have a pending "
               "timer (a SetTimer/MoveTimer error swallowed by cache.go leaves an entry that never expires)",
               "calls are sequential and the wheel's expiry callbacks (cache.Del) have finished before the next call "
               "(driver waits); racing Set/expiry and concurrent Take callers are not covered here",
               "expiries whose jittered value can fall below the one-second wheel interval (0.95*expire < 1 s) are "
               "outside the window clause: checked against the model only",
               "window bounds are computed exactly (95/100, 105/100) with 1 microsecond tolerance for the float64 "
               "rounding inside AroundDuration"]

S = 10 ** 9
KEYS = ["k0", "k1", "k2", "k3", "k4"]
DRAWS = [0, 2 ** 62, 2 ** 63 - 2048, 2 ** 61, 3 * 2 ** 61]


def _draw(rng):
    return rng.choice(DRAWS) if rng.random() < 0.6 else rng.randrange(0, 2 ** 63 - 2048)


def _case(rng, malformed):
    limit = rng.choice([0, 1, 2, 2, 3, 3])
    exp = rng.choice([2, 3, 5, 10, 19, 20, 21, 60, 100]) * S if rng.random() < 0.75 else rng.choice([299, 300, 301, 400]) * S
    if rng.random() < 0.1:
        exp = 5 * S // 2
    if malformed:
        r = rng.random()
        if r < 0.3:
            exp = rng.choice([0, -S, S // 2, S, 1040 * S // 1000])
        elif r < 0.5:
            limit = -1
    phase = rng.randrange(300) if rng.random() < 0.8 else rng.choice([0, 1, 298, 299])
    nk = rng.choice([3, 4, 5])
    calls = []
    budget = 1500
    odd = rng.random() < 0.25     # "", a very long key, a key with NUL, a unicode key (driver aliases k90..k93)
    esec = max(1, exp // S)
    for _ in range(rng.randint(10, 40)):
        r = rng.random()
        key = rng.choice(KEYS[:nk])
        if odd and rng.random() < 0.4:
            key = rng.choice(["k90", "k91", "k92", "k93"])
        isnil = rng.random() < 0.12          # nil is a value like any other
        if r < 0.28:
            calls.append({"op": "set", "key": key, "val": rng.randrange(100), "nil": isnil, "draw": _draw(rng)})
        elif r < 0.38:
            e = rng.choice([2, 3, 7, 20, 21, 40, 310]) * S
            if malformed and rng.random() < 0.3:
                e = rng.choice([0, S // 3, S, -5])
            calls.append({"op": "setx", "key": key, "val": rng.randrange(100), "expire": e, "draw": _draw(rng)})
        elif r < 0.55:
            calls.append({"op": "get", "key": key})
        elif r < 0.62:
            calls.append({"op": "del", "key": key})
        elif r < 0.75:
            calls.append({"op": "take", "key": key, "val": rng.randrange(100), "nil": isnil, "fail": rng.random() < 0.35, "draw": _draw(rng)})
        else:
            n = rng.choice([1, 1, 2, max(1, esec * 95 // 100 - 1), esec, esec * 105 // 100 + 1, max(1, esec // 2)])
            n = min(n, budget)
            budget -= n
            calls.extend({"op": "tick"} for _ in range(n))
    n = min(budget, esec * 105 // 100 + 2)
    calls.extend({"op": "tick"} for _ in range(n))
    return {"kind": "cache", "expire": exp, "limit": limit, "phase": phase, "calls": calls}


def _reinsert(rng):
    """fill to the limit, remove a key (Del or expiry), put the same key back (Set or Take), then overflow"""
    limit = rng.choice([1, 2, 3])
    e = rng.choice([3, 5, 10])
    calls = []
    keys = KEYS[:limit]
    for k in keys:
        calls.append({"op": "set", "key": k, "val": rng.randrange(100), "draw": _draw(rng)})
    victim = rng.choice(keys)
    how = rng.random()
    if how < 0.5:
        calls.append({"op": "del", "key": victim})
    elif how < 0.8:
        calls.extend({"op": "tick"} for _ in range(e * 105 // 100 + 1))   # everything expires
    else:
        calls.append({"op": "setx", "key": victim, "val": 1, "expire": 2 * S, "draw": _draw(rng)})
        calls.extend({"op": "tick"} for _ in range(3))
    for _ in range(rng.randint(1, 2)):
        if rng.random() < 0.6:
            calls.append({"op": "set", "key": victim, "val": rng.randrange(100), "draw": _draw(rng)})
        else:
            calls.append({"op": "take", "key": victim, "val": rng.randrange(100), "fail": rng.random() < 0.2, "draw": _draw(rng)})
        if rng.random() < 0.4:
            calls.append({"op": "del", "key": victim})
    fresh = [k for k in KEYS + ["k5", "k6", "k7"] if k not in keys]
    for k in fresh[:rng.randint(limit, limit + 3)]:
        calls.append({"op": rng.choice(["set", "set", "take"]), "key": k, "val": rng.randrange(100), "fail": False, "draw": _draw(rng)})
        if rng.random() < 0.4:
            calls.append({"op": "get", "key": rng.choice(keys + [k])})
    calls.extend({"op": "tick"} for _ in range(rng.randint(0, e + 2)))
    return {"kind": "cache", "expire": e * S, "limit": limit, "phase": rng.randrange(300), "calls": calls}


H = 3600 * S
BASES = [10 ** 6, S, 60 * S, H, 3 * H, 6 * H, 24 * H, 30 * 24 * H, 365 * 24 * H, 10 * 365 * 24 * H]


def _jitter(rng):
    base = rng.choice(BASES) if rng.random() < 0.8 else rng.randrange(1, 10 * 365 * 24 * H)
    draws = [0, 2 ** 63 - 2048, 2 ** 62] + [rng.randrange(0, 2 ** 63 - 2048) for _ in range(13)]
    return {"kind": "jitter", "base": base, "draws": draws}


def _auth(rng):
    strict = rng.random() < 0.35
    apps = ["a0", "a1", "a2"] if rng.random() < 0.6 else ["a0", "a5", "a6"]      # a5 / a6: very long / unicode app names
    toks = ["t0", "t1", "t2", "t3"]
    toks_all = toks
    ops = []
    store = {}
    up = True
    fails = 0
    for a in apps[:rng.randint(1, 3)]:
        store[a] = rng.choice(toks)
        ops.append({"op": "set", "app": a, "token": store[a]})
    for _ in range(rng.randint(6, 16)):
        r = rng.random()
        if r < 0.15:
            ops.append({"op": "down" if up else "up"})
            up = not up
        elif r < 0.25:
            a = rng.choice(apps)
            store[a] = rng.choice(toks)
            ops.append({"op": "set", "app": a, "token": store[a]})
        elif r < 0.3:
            a = rng.choice(apps)
            store.pop(a, None)
            ops.append({"op": "del", "app": a})
        else:
            a = rng.choice(apps)
            if not up:
                if fails >= 4:      # keep the store's breaker closed
                    ops.append({"op": "up"})
                    up = True
                else:
                    fails += 1      # upper bound: a cached app does not reach the store
            t = store.get(a, "t0") if rng.random() < 0.5 else rng.choice(toks)
            ops.append({"op": "call", "app": a, "token": t})
    if not up:
        ops.append({"op": "up"})
    if not up:
        ops.append({"op": "up"})
        up = True
    # concurrent callers share one lookup: cold start, cached, after the entry expired, unknown app
    for _ in range(rng.randint(1, 3)):
        a = rng.choice(apps + ["a3"])
        n = rng.randint(2, 8)
        toks = [store.get(a, "t0") if rng.random() < 0.6 else rng.choice(toks_all) for _ in range(n)]
        if rng.random() < 0.7:
            ops.append({"op": "expire", "app": a})
        b = {"op": "burst", "app": a, "tokens": toks}
        if rng.random() < 0.3:      # the leader's context expires during the slow lookup
            b["ctx_ms"] = [rng.choice([15, 25])] + [0] * (n - 1)
        ops.append(b)
        if rng.random() < 0.4:
            ops.append({"op": "burst", "app": a, "tokens": toks[:2] + ["t3"]})
    for a in apps:   # after recovery the real token is required again
        ops.append({"op": "call", "app": a, "token": "t3"})
        ops.append({"op": "call", "app": a, "token": store.get(a, "t0")})
    return {"kind": "auth", "strict": strict, "ops": ops}


MIN = 60 * S
DAY = 24 * H


def _long_quick(rng):
    """end-to-end long expiry on a wheel with a large interval (300 slots): present before floor(0.95e/I), gone
    after floor(1.05e/I)+1, with a re-set on the way"""
    e = rng.choice([3 * H, 6 * H, DAY, 30 * DAY, 365 * DAY])
    iv = rng.choice([i for i in (MIN, 10 * MIN, H, DAY, 7 * DAY) if 8 <= e // i <= 420])
    lo, hi = e * 95 // 100 // iv, e * 105 // 100 // iv
    keys = ["k0", "k1", "k2"]
    calls = [{"op": "set", "key": "k0", "val": 1, "draw": _draw(rng)}, {"op": "set", "key": "k1", "val": 2, "draw": 0},
             {"op": "set", "key": "k2", "val": 3, "draw": 2 ** 63 - 2048}]
    if rng.random() < 0.5:
        calls.append({"op": "take", "key": "k3", "val": 4, "fail": False, "draw": _draw(rng)})
        keys.append("k3")
    t = 0
    reset_at = rng.randrange(1, max(2, lo)) if rng.random() < 0.6 else None
    while t < hi + 2 + (reset_at or 0):
        if reset_at is not None and t == reset_at:
            calls.append({"op": "set", "key": "k0", "val": 9, "draw": _draw(rng)})   # re-schedules k0 from here
        if t in (lo - 1, hi + 1) or rng.random() < 0.03:
            calls.append({"op": "get", "key": rng.choice(keys)})
        calls.append({"op": "tick"})
        t += 1
    for k in keys:
        calls.append({"op": "get", "key": k})
    return {"kind": "cache", "expire": e, "limit": rng.choice([0, 0, 4]), "phase": rng.randrange(300), "interval": iv, "calls": calls}


FIXED_LONG = [(3 * H, 10 * MIN), (6 * H, 10 * MIN), (DAY, H), (30 * DAY, DAY), (365 * DAY, 7 * DAY)]


def _long_fixed():
    """always present (every tier, every seed, also in the violation search): one end-to-end case per long expiry,
    draws at both ends and in the middle of the jitter range, a re-Set half way, Gets around the window"""
    out = []
    for e, iv in FIXED_LONG:
        lo, hi = e * 95 // 100 // iv, e * 105 // 100 // iv
        calls = [{"op": "set", "key": "k0", "val": 1, "draw": 2 ** 62}, {"op": "set", "key": "k1", "val": 2, "draw": 0},
                 {"op": "set", "key": "k2", "val": 3, "draw": 2 ** 63 - 2048},
                 {"op": "take", "key": "k3", "val": 4, "fail": False, "draw": 2 ** 61}]
        half = max(1, lo // 2)
        for t in range(hi + half + 3):
            if t == half:
                calls.append({"op": "set", "key": "k0", "val": 9, "draw": 3 * 2 ** 61})
            if t in (lo - 1, hi + 1, half + lo - 1, half + hi + 1):
                calls += [{"op": "get", "key": k} for k in ("k0", "k1", "k2", "k3")]
            calls.append({"op": "tick"})
        calls += [{"op": "get", "key": k} for k in ("k0", "k1", "k2", "k3")]
        out.append({"kind": "cache", "expire": e, "limit": 0, "phase": 7, "interval": iv, "calls": calls})
    return out


def _jitter_fixed():
    draws = [0, 2 ** 63 - 2048, 2 ** 62, 2 ** 61, 3 * 2 ** 61, 1, 2 ** 53 + 1, 7 * 2 ** 60]
    return [{"kind": "jitter", "base": b, "draws": draws} for b in (3 * H, 6 * H, DAY, 30 * DAY, 365 * DAY, 10 * 365 * DAY)]


def _index_churn(keep=1000, churn=10001, second=False):
    """the wheel's timer index (SafeMap: two generations, 10000 deletions / 1000 live entries) under churn as the
    cache produces it: `keep` old entries (k40..) stay alive while `churn` timers are set and removed (cycling over
    k0..k15), newer keys (k16..k27) arrive -- they land in the newer generation --, one more removal crosses the
    compaction threshold; afterwards re-Set / Del of the newer keys must still move / cancel their timers.
    second: also drive the newer generation over the deletion limit so that it is merged back.
    Only the keys below 40 are listed in the observations (hide); sizes count all."""
    X = 20 * S
    K = 40
    calls = [{"op": "fill", "from": K, "n": keep, "val": 1, "draw": 2 ** 62},
             {"op": "churn", "from": 0, "n": churn, "val": 2, "draw": 2 ** 62}]
    newer = ["k%d" % i for i in range(16, 28)]
    for i, k in enumerate(newer):
        calls.append({"op": "setx", "key": k, "val": 10 + i, "expire": X, "draw": 2 ** 62})       # due at tick 20
    if second:
        calls.append({"op": "churn", "from": 0, "n": 9999, "val": 3, "draw": 2 ** 62})
    calls += [{"op": "tick"}] * 3
    for i in range(keep - 999):
        calls.append({"op": "del", "key": "k%d" % (K + i)})             # the last one leaves 999 old entries: compaction
    if second:
        calls.append({"op": "del", "key": "k27"})                        # 10000th removal in the newer generation
    calls += [{"op": "get", "key": "k16"}, {"op": "get", "key": "k%d" % (K + keep - 1)}]
    calls += [{"op": "tick"}] * 7                                        # T = 10
    calls += [{"op": "setx", "key": "k16", "val": 50, "expire": X, "draw": 2 ** 62},           # re-Set: due 30, not 20
              {"op": "setx", "key": "k17", "val": 51, "expire": X, "draw": 0},                 # due 31
              {"op": "del", "key": "k18"}, {"op": "setx", "key": "k18", "val": 52, "expire": 30 * S, "draw": 2 ** 62},  # due 40
              {"op": "del", "key": "k19"},
              {"op": "setx", "key": "k30", "val": 53, "expire": X, "draw": 2 ** 62}]           # new key after compaction: due 30
    calls += [{"op": "tick"}] * 12                                       # T = 22: k20.. are gone, k16 k17 k18 k30 stay
    calls += [{"op": "get", "key": k} for k in ("k16", "k17", "k18", "k20", "k30")]
    calls += [{"op": "tick"}] * 10                                       # T = 32
    calls += [{"op": "get", "key": k} for k in ("k16", "k17", "k18", "k30")]
    calls += [{"op": "tick"}] * 10                                       # T = 42
    last = "k%d" % (K + keep - 2)
    calls += [{"op": "get", "key": "k18"}, {"op": "del", "key": last}, {"op": "set", "key": last, "val": 7, "draw": 2 ** 62},
              {"op": "get", "key": last}]
    return {"kind": "cache", "expire": 100 * S, "limit": 0, "phase": 0, "hide": K, "calls": calls}


def _take_recency_fixed():
    """a Take that HITS is a use: Set a, Set b, Take a (hit), Set c on a limit-2 cache evicts b, not a (also with Get,
    with a failing fetch that must not be run, and on limit 3)"""
    out = []
    for limit, use in ((2, "take"), (2, "takefail"), (2, "get"), (3, "take")):
        keys = ["k%d" % i for i in range(limit)]
        calls = [{"op": "set", "key": k, "val": 10 + i, "draw": 2 ** 62} for i, k in enumerate(keys)]
        if use == "get":
            calls.append({"op": "get", "key": "k0"})
        else:
            calls.append({"op": "take", "key": "k0", "val": 99, "fail": use == "takefail", "draw": 2 ** 62})
        calls.append({"op": "set", "key": "k7", "val": 70, "draw": 2 ** 62})            # evicts k1, the least recently used
        calls += [{"op": "get", "key": k} for k in ["k0", "k1", "k7"]]
        calls.append({"op": "take", "key": "k1", "val": 5, "fail": False, "draw": 2 ** 62})   # miss: fetched, cached, evicts again
        calls += [{"op": "get", "key": k} for k in keys + ["k7"]]
        out.append({"kind": "cache", "expire": 50 * S, "limit": limit, "phase": 3, "calls": calls})
    return out


def _nil_fixed():
    """nil values are values: Set(k, nil) then Get(k) = (nil, true); a fetch that succeeds with nil is cached (the next
    Take does not fetch); reading a nil entry refreshes its LRU position"""
    D = 2 ** 62
    a = [{"op": "set", "key": "k0", "val": 0, "nil": True, "draw": D}, {"op": "get", "key": "k0"},
         {"op": "take", "key": "k0", "val": 5, "fail": False, "draw": D},                       # hit: nil, no fetch
         {"op": "take", "key": "k1", "val": 0, "nil": True, "fail": False, "draw": D},          # miss: fetch gives nil, cached
         {"op": "take", "key": "k1", "val": 6, "fail": False, "draw": D}, {"op": "get", "key": "k1"},
         {"op": "setx", "key": "k2", "val": 0, "nil": True, "expire": 5 * S, "draw": D}, {"op": "get", "key": "k2"}]
    a += [{"op": "tick"}] * 6 + [{"op": "get", "key": "k2"}, {"op": "get", "key": "k0"}]
    b = [{"op": "set", "key": "k0", "val": 0, "nil": True, "draw": D}, {"op": "set", "key": "k1", "val": 1, "draw": D},
         {"op": "get", "key": "k0"},                                                            # nil read refreshes k0
         {"op": "set", "key": "k2", "val": 2, "draw": D},                                       # evicts k1
         {"op": "get", "key": "k0"}, {"op": "get", "key": "k1"},
         {"op": "take", "key": "k0", "val": 9, "fail": False, "draw": D},                       # nil hit refreshes k0 again
         {"op": "set", "key": "k3", "val": 3, "draw": D}, {"op": "get", "key": "k0"}, {"op": "get", "key": "k2"}]
    return [{"kind": "cache", "expire": 50 * S, "limit": 0, "phase": 1, "calls": a},
            {"kind": "cache", "expire": 50 * S, "limit": 2, "phase": 1, "calls": b}]


def _resets(seq, phase, draws=None):
    """seq = [(ticks to wait before, expiry in s), ...] of SetWithExpire calls on one key, then ticks past the window
    of the LAST one; every tick is observed, so the entry must leave within [95%,105%] of its last Set and not before"""
    calls = []
    last = 0
    for i, (gap, e) in enumerate(seq):
        calls += [{"op": "tick"}] * gap
        calls.append({"op": "setx", "key": "k0", "val": i + 1, "expire": e * S, "draw": (draws or [2 ** 62] * len(seq))[i]})
        last = e
    calls += [{"op": "get", "key": "k0"}]
    calls += [{"op": "tick"}] * (last * 105 // 100 + 3)
    calls += [{"op": "get", "key": "k0"}]
    return {"kind": "cache", "expire": 60 * S, "limit": 0, "phase": phase, "calls": calls}


def _mixed_fixed():
    """long -> short (the long one is more than one 300-slot revolution), short -> long -> short, and moved-then-shorter"""
    return [_resets([(0, 600), (5, 30)], 0), _resets([(0, 600), (5, 30)], 290, [0, 2 ** 63 - 2048]),
            _resets([(0, 100), (50, 100), (3, 10)], 0), _resets([(0, 100), (50, 100), (3, 10)], 250, [2 ** 62, 0, 0]),
            _resets([(0, 20), (5, 400), (7, 15)], 120), _resets([(0, 900), (290, 5)], 17)]


def _mixed_reset(rng):
    """systematic mixed-expiry re-Sets of one key: 2-4 Sets with expiries from both sides of one wheel revolution"""
    pool = [5, 10, 30, 100, 290, 300, 310, 600]
    n = rng.randint(2, 4)
    seq = []
    for i in range(n):
        e = rng.choice(pool)
        gap = 0 if i == 0 else rng.randrange(1, max(2, min(seq[-1][1] * 9 // 10, 120)))
        seq.append((gap, e))
    if rng.random() < 0.6:          # end on a short one
        seq[-1] = (seq[-1][0], rng.choice([5, 10, 30]))
    return _resets(seq, rng.randrange(300), [_draw(rng) for _ in seq])


def _auth_ctx_fixed():
    """the flight leader's own context deadline expires while the (slow) store lookup is under way, the follower has
    none: the shared lookup must not fail because of it -- right token admitted, wrong token rejected, strict or not"""
    out = []
    for strict in (False, True):
        ops = [{"op": "set", "app": "a0", "token": "t0"}, {"op": "set", "app": "a1", "token": "t1"},
               {"op": "burst", "app": "a0", "tokens": ["t0", "t0", "t2"], "ctx_ms": [25, 0, 0]},
               {"op": "call", "app": "a0", "token": "t0"}, {"op": "call", "app": "a0", "token": "t3"},
               {"op": "burst", "app": "a1", "tokens": ["t3", "t1", "t1", "t0"], "ctx_ms": [20, 0, 40, 0]},
               {"op": "call", "app": "a1", "token": "t1"},
               {"op": "expire", "app": "a0"}, {"op": "burst", "app": "a0", "tokens": ["t1", "t0"], "ctx_ms": [20, 0]},
               {"op": "call", "app": "a0", "token": "t0"}]
        out.append({"kind": "auth", "strict": strict, "ops": ops})
    return out


def _auth_fixed():
    """the authenticator caches per APP: different tokens for one app, sequentially and overlapping, cost one lookup"""
    ops = [{"op": "set", "app": "a0", "token": "t0"}, {"op": "set", "app": "a1", "token": "t1"}]
    ops += [{"op": "call", "app": "a0", "token": t} for t in ("t1", "t0", "t2", "t0", "t3")]
    ops += [{"op": "burst", "app": "a1", "tokens": ["t0", "t1", "t2", "t3", "t1", "t0"]}]
    ops += [{"op": "call", "app": "a1", "token": t} for t in ("t2", "t1")]
    ops += [{"op": "expire", "app": "a0"}, {"op": "burst", "app": "a0", "tokens": ["t3", "t2", "t1", "t0"]},
            {"op": "call", "app": "a0", "token": "t1"}, {"op": "call", "app": "a0", "token": "t0"}]
    return [{"kind": "auth", "strict": False, "ops": ops}, {"kind": "auth", "strict": True, "ops": ops}]


def _flight(rng):
    """overlapping Takes with gated fetch functions on one or two Cache instances over the odd key alphabet
    (0,1 plain; 2 = ""; 3 very long; 4 with NUL; 5 unicode): same key on the same cache shares one fetch (also when
    it fails), the same key string on ANOTHER cache runs its own"""
    ncache = rng.choice([1, 2, 2])
    steps, nid = [], 0
    open_ = []           # ids of gated takes not yet released
    for _ in range(rng.randint(4, 12)):
        r = rng.random()
        if r < 0.6 or not open_:
            k = rng.choice([0, 1, 2, 2, 3, 4, 5])
            c = rng.randrange(ncache)
            gate = rng.random() < 0.6
            steps.append({"op": "take", "id": nid, "cache": c, "key": k, "val": 10 + nid, "fail": rng.random() < 0.3, "gate": gate})
            if gate:
                open_.append(nid)
            nid += 1
            if rng.random() < 0.7:     # the same key again while (maybe) in flight: same cache -> shares, other cache -> own fetch
                c2 = c if rng.random() < 0.5 else rng.randrange(ncache)
                steps.append({"op": "take", "id": nid, "cache": c2, "key": k, "val": 10 + nid, "fail": rng.random() < 0.2,
                              "gate": rng.random() < 0.3})
                if steps[-1]["gate"]:
                    open_.append(nid)
                nid += 1
        elif r < 0.8:
            i = open_.pop(rng.randrange(len(open_)))
            steps.append({"op": "release", "id": i})
        else:
            steps.append({"op": "get", "cache": rng.randrange(ncache), "key": rng.choice([0, 1, 2, 3, 4, 5])})
    for k in (0, 2, 5):
        for c in range(ncache):
            steps.append({"op": "get", "cache": c, "key": k})
    return {"kind": "flight", "caches": ncache, "steps": steps}


def _flight_fixed():
    out = []
    for k in (0, 2, 3, 4, 5):       # per key of the alphabet, "" included
        # two caches, same key: cache 1 must run its own fetch while cache 0's is in flight; within cache 0 it is shared
        out.append({"kind": "flight", "caches": 2, "steps": [
            {"op": "take", "id": 0, "cache": 0, "key": k, "val": 5, "fail": False, "gate": True},
            {"op": "take", "id": 1, "cache": 1, "key": k, "val": 7, "fail": False, "gate": False},
            {"op": "take", "id": 2, "cache": 0, "key": k, "val": 8, "fail": False, "gate": False},
            {"op": "get", "cache": 1, "key": k}, {"op": "get", "cache": 0, "key": k},
            {"op": "release", "id": 0}, {"op": "get", "cache": 0, "key": k}, {"op": "get", "cache": 1, "key": k},
            {"op": "take", "id": 3, "cache": 0, "key": k, "val": 9, "fail": False, "gate": False}]})
        # overlapping misses whose shared fetch fails: nobody caches, the next Take fetches again
        out.append({"kind": "flight", "caches": 1, "steps": [
            {"op": "take", "id": 0, "cache": 0, "key": k, "val": 1, "fail": True, "gate": True},
            {"op": "take", "id": 1, "cache": 0, "key": k, "val": 2, "fail": False, "gate": False},
            {"op": "take", "id": 2, "cache": 0, "key": k, "val": 3, "fail": False, "gate": False},
            {"op": "release", "id": 0}, {"op": "get", "cache": 0, "key": k},
            {"op": "take", "id": 3, "cache": 0, "key": k, "val": 4, "fail": False, "gate": False}, {"op": "get", "cache": 0, "key": k}]})
    return out


def _long(rng, hours):
    e = hours * H
    calls = [{"op": "set", "key": "k0", "val": 1, "draw": _draw(rng)}, {"op": "set", "key": "k1", "val": 2, "draw": 0},
             {"op": "set", "key": "k2", "val": 3, "draw": 2 ** 63 - 2048}]
    calls.extend({"op": "tick"} for _ in range(hours * 3600 * 106 // 100 + 2))
    return {"kind": "cache", "expire": e, "limit": 0, "phase": rng.randrange(300), "calls": calls}


def generate(rng, tier, n):
    cases = []
    if tier == "thorough":
        cases += [_long(rng, 1), _long(rng, 3), _long(rng, 6)]
    nj = max(10, n // 12)
    na = max(10, n // 12)
    cases += [_index_churn()] + _flight_fixed() + [_flight(rng) for _ in range(max(12, n // 15))] + _jitter_fixed() + _long_fixed() + _take_recency_fixed() + _nil_fixed() + _mixed_fixed() + _auth_fixed() + _auth_ctx_fixed()
    if tier == "thorough":
        cases += [_index_churn(second=True), _index_churn(keep=1040, churn=10017), _index_churn(keep=1003, churn=12000, second=True)]
    cases += [_jitter(rng) for _ in range(nj)]
    cases += [_auth(rng) for _ in range(na)]
    while len(cases) < n:
        r = rng.random()
        if r < 0.1:
            cases.append(_long_quick(rng))
        elif r < 0.18:
            cases.append(_mixed_reset(rng))
        elif r < 0.3:
            cases.append(_reinsert(rng))
        else:
            cases.append(_case(rng, rng.random() < 0.15 and tier != "search"))
    return cases


def drive(cases, tier):
    """cache and jitter cases run in lib/collection, authenticator cases in rpc/internal/auth"""
    ia = [i for i, c in enumerate(cases) if c.get("kind") == "auth"]
    ic = [i for i, c in enumerate(cases) if c.get("kind") != "auth"]
    obs = [None] * len(cases)
    log = ""
    if ic:
        o, l = run_driver(GO_PKG, [cases[i] for i in ic], name="C17" + tier[0], timeout=DRIVER_TIMEOUT)
        log += l
        if o is None:
            return None, log
        for i, x in zip(ic, o):
            obs[i] = x
    if ia:
        o, l = run_driver(AUTH_PKG, [cases[i] for i in ia], name="C17a" + tier[0], timeout=DRIVER_TIMEOUT, run="^TestVerifDriverC17$")
        log += l
        if o is None:
            return None, log
        for i, x in zip(ia, o):
            obs[i] = x
    return obs, log


def search(rng, problems):
    """long expiries first (fixed), then re-set at chosen wheel phases (the D7 classes seen through the cache)"""
    out = _flight_fixed() + [_flight(rng) for _ in range(40)] + _jitter_fixed() + _long_fixed() + _take_recency_fixed() + _nil_fixed() + _mixed_fixed() + _auth_fixed() + _auth_ctx_fixed() + [_mixed_reset(rng) for _ in range(40)]
    for _ in range(150):
        e = rng.choice([20, 21, 19, 5, 60])
        phase = rng.randrange(300)
        j = rng.randrange(1, e)
        calls = [{"op": "set", "key": "k0", "val": 1, "draw": _draw(rng)}]
        calls += [{"op": "tick"} for _ in range(j)]
        calls += [{"op": "set", "key": "k0", "val": 2, "draw": _draw(rng)}]
        calls += [{"op": "tick"} for _ in range(e * 105 // 100 + 2)]
        out.append({"kind": "cache", "expire": e * S, "limit": rng.choice([0, 2]), "phase": phase, "calls": calls})
    return out


NILV = 200      # the model's stand-in for a nil value


def _v(c):
    return cnat(NILV if c.get("nil") else c["val"])


def _k(s):
    return cnat(int(s[1:]))


def _n(s):
    return cnat(int(s[1:]))


def encode(case, obs):
    kind = case.get("kind")
    if kind == "jitter":
        return "CJ (mkj %s %s %s %s)" % (cZ(case["base"]), clist([cZ(d) for d in case["draws"]]),
                                         clist([cZ(d) for d in obs.get("durs", [])]), clist([cZ(d) for d in obs.get("ints", [])]))
    if kind == "flight":
        steps = []
        for x in case["steps"]:
            if x["op"] == "take":
                steps.append("FTake %s %s %s %s %s %s" % (cnat(x["id"]), cnat(x["cache"]), cnat(x["key"]), cnat(x["val"]), cbool(x["fail"]), cbool(x["gate"])))
            elif x["op"] == "release":
                steps.append("FRelease %s" % cnat(x["id"]))
            else:
                steps.append("FGet %s %s" % (cnat(x["cache"]), cnat(x["key"])))
        takes = ["mkft %s %s %s" % (cnat(t["id"]), cbool(t["fetched"]), copt(cnat(t["val"]) if t["found"] else None)) for t in obs.get("takes", [])]
        gets = [copt(cnat(g["val"]) if g["found"] else None) for g in obs.get("gets", [])]
        hung = bool(obs.get("hung")) or "error" in obs or any(not t.get("done") for t in obs.get("takes", []))
        return "CF (mkf %s %s %s %s)" % (clist(steps), clist(takes), clist(gets), cbool(hung))
    if kind == "auth":
        ops = []
        for o in case["ops"]:
            k = o["op"]
            if k == "set":
                ops.append("ASet %s %s" % (_n(o["app"]), _n(o["token"])))
            elif k == "del":
                ops.append("ADel %s" % _n(o["app"]))
            elif k == "down":
                ops.append("ADown")
            elif k == "up":
                ops.append("AUp")
            elif k == "expire":
                ops.append("AExpire %s" % _n(o["app"]))
            elif k == "burst":
                ops.append("ABurst %s %s" % (_n(o["app"]), clist([_n(t) for t in o["tokens"]])))
            else:
                ops.append("ACall %s %s" % (_n(o["app"]), _n(o["token"])))
        codes = [cnat(c if c >= 0 else 99) for c in obs.get("codes", [])]
        return "CA (mka %s %s %s %s %s %s)" % (cbool(case["strict"]), clist(ops), clist(codes), clist([cnat(x) for x in obs.get("lookups", [])]),
                                               clist([cnat(x) for x in obs.get("call_lookups", [])]), cbool(bool(obs.get("hung")) or "error" in obs))
    if obs.get("skipped"):      # the driver stopped running cases after too many of them hung
        return "CC (mkcase %s %s 0%%nat %s false 0%%nat [] [])" % (cZ(case["expire"]), cZ(case["limit"]), cZ(S))
    ops, os_ = [], []
    for c, o in zip(case["calls"], obs.get("obs", [])):
        op = c["op"]
        if op in ("fill", "churn"):
            ops.append("%s %s %s %s %s" % ("XFill" if op == "fill" else "XChurn", cnat(c["from"]), cnat(c["n"]), cnat(c["val"]), cZ(o["jit"])))
        elif op == "set":
            ops.append("XO (KSet %s %s %s)" % (_k(c["key"]), _v(c), cZ(o["jit"])))
        elif op == "setx":
            ops.append("XO (KSetX %s %s %s %s)" % (_k(c["key"]), _v(c), cZ(c["expire"]), cZ(o["jit"])))
        elif op == "get":
            ops.append("XO (KGet %s)" % _k(c["key"]))
        elif op == "del":
            ops.append("XO (KDel %s)" % _k(c["key"]))
        elif op == "take":
            ops.append("XO (KTake %s %s %s)" % (_k(c["key"]), copt(None if c.get("fail") else _v(c)), cZ(o["jit"])))
        else:
            ops.append("XO KTick")
        os_.append("mkObs %s %s %s %s %s %s %s" % (copt(cnat(NILV if o.get("nil") else o["val"]) if o["found"] else None), cbool(o["err"]), cbool(o["fetched"]),
                                                   clist([_k(k) for k in o["keys"]]), clist([_k(k) for k in o.get("timers", [])]),
                                                   cnat(o.get("nkeys", len(o["keys"]))), cnat(o.get("ntimers", 0))))
    if len(os_) != len(case["calls"]):
        os_ = []
    hung = bool(obs.get("hung")) or "error" in obs or len(obs.get("obs", [])) != len(case["calls"])
    return "CC (mkcase %s %s %s %s %s %s %s %s)" % (cZ(case["expire"]), cZ(case["limit"]), cnat(case["phase"]), cZ(case.get("interval", S)),
                                                    cbool(hung), cnat(case.get("hide", 0)), clist(ops), clist(os_))


def _events(case, obs):
    expired = evicted = reset = False
    prev = set()
    seen = set()
    for c, o in zip(case["calls"], obs.get("obs", [])):
        keys = set(o["keys"])
        if c["op"] == "tick" and prev - keys:
            expired = True
        if c["op"] in ("set", "setx", "take") and (prev - keys):
            evicted = True
        if c["op"] in ("set", "setx") and c["key"] in prev:
            reset = True
        prev = keys
        seen |= keys
    return expired, evicted, reset


def nontrivial(case, obs):
    if case.get("kind") == "jitter":
        return len(obs.get("durs", [])) == len(case["draws"]) and case["base"] >= S
    if case.get("kind") == "auth":
        ops = [o["op"] for o in case["ops"]]
        return "down" in ops and "call" in ops[ops.index("down"):]
    if case.get("kind") == "flight":
        return any(not t["fetched"] for t in obs.get("takes", [])) and any(t["fetched"] for t in obs.get("takes", []))
    if obs.get("skipped"):
        return False
    expired, evicted, reset = _events(case, obs)
    return expired and (evicted or reset)


def bucket(case, obs):
    if case.get("kind") == "jitter":
        b = case["base"]
        return ["jitter:base<1h" if b < H else "jitter:base<30d" if b < 30 * 24 * H else "jitter:base>=30d"]
    if case.get("kind") == "flight":
        out = ["flight:caches=%d" % case["caches"]]
        keys = {x["key"] for x in case["steps"] if x["op"] == "take"}
        out += ["flight:key=%s" % {0: "plain", 1: "plain", 2: "empty", 3: "long", 4: "NUL", 5: "unicode"}[k] for k in sorted(keys)]
        if any(t["err"] and not t["fetched"] for t in obs.get("takes", [])):
            out.append("flight:shared-failure")
        if obs.get("hung"):
            out.append("obs:HUNG")
        return sorted(set(out))
    if case.get("kind") == "auth":
        out = ["auth:strict" if case["strict"] else "auth:non-strict"]
        if any(o["op"] == "down" for o in case["ops"]):
            out.append("auth:outage")
        nb = [len(o["tokens"]) for o in case["ops"] if o["op"] == "burst"]
        if nb:
            out.append("auth:concurrent-callers(max %d)" % max(nb))
        if any(o["op"] == "expire" for o in case["ops"]):
            out.append("auth:burst-after-expiry")
        if any(o.get("ctx_ms") for o in case["ops"]):
            out.append("auth:leader-context-expires-during-lookup")
        out += ["auth:burst-lookups=%d" % n for n in sorted(set(obs.get("lookups", [])))]
        out += ["auth:code=%d" % c for c in sorted(set(obs.get("codes", [])))]
        return out
    if obs.get("skipped"):
        return ["obs:SKIPPED-after-hung-cases"]
    out = ["limit=%d" % case["limit"], "expire=%ss" % (case["expire"] // S), "phase=%d" % (case["phase"] // 50 * 50)]
    out += ["op:" + k for k in sorted({c["op"] for c in case["calls"]})]
    expired, evicted, reset = _events(case, obs)
    removed = set()
    for c in case["calls"]:
        if c["op"] == "del":
            removed.add(c["key"])
        elif c["op"] in ("set", "setx", "take") and c["key"] in removed:
            out.append("hist:re-insert-after-del")
            break
    if any(c["op"] == "churn" for c in case["calls"]):
        out.append("hist:timer-index-churn(%d removals)" % sum(c["n"] for c in case["calls"] if c["op"] == "churn"))
    if case["expire"] >= H:
        out.append("hist:long-expiry-end-to-end")
    if case.get("interval", S) != S:
        out.append("wheel:interval=%s" % ("1min" if case["interval"] == MIN else "10min" if case["interval"] == 10 * MIN else
                                          "1h" if case["interval"] == H else "1d" if case["interval"] == DAY else "7d"))
    if obs.get("hung"):
        out.append("obs:HUNG")
    if expired:
        out.append("obs:expired")
    if evicted:
        out.append("obs:evicted")
    if reset:
        out.append("obs:re-set")
    if any(o["err"] for o in obs.get("obs", [])):
        out.append("obs:take-error")
    if case["expire"] * 95 // 100 - 1000 < case.get("interval", S):
        out.append("scope:expiry-below-one-tick")
    if obs.get("timeouts"):
        out.append("obs:settle-timeout")
    if "error" in obs:
        out.append("obs:driver-error")
    return out


def explain(case, obs):
    if case.get("kind") == "jitter":
        return ("AroundDuration/AroundInt returned a value outside [0.95, 1.05] x base (1 microsecond tolerance): the expiry "
                "jitter is wrong or overflows for this base duration (c17_jitter_window)")
    if case.get("kind") == "flight":
        return ("overlapping Take calls: the fetch of a missing key must run once among the callers of THAT cache instance and "
                "key (any key, the empty string included), every one of them gets its result, it is stored only on success, "
                "and another cache instance with the same key string runs its own fetch (c17_take_fetches_iff_absent, C18)")
    if case.get("kind") == "auth":
        return ("the authenticator answered differently from 'a token is cached only by a successful store lookup': after "
                "an outage the real token was not required again, or a cached token was not honoured (c17_take_error_not_cached)")
    return ("observed cache behaviour contradicts C17.Exec.spec_ok (reference bounded LRU map with expiry windows): more "
            "entries than the limit, a victim other than the least recently used one, Get/Take returning something else "
            "than the latest value, an entry dropped outside [0.95e,1.05e] after its last Set (whole wheel ticks) or "
            "still present after it, or a failed fetch being cached")
