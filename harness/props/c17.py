"""C17 in-memory cache: call histories (Set/SetWithExpire/Get/Del/Take + wheel ticks) on a cache whose
expiry wheel runs on a fake ticker and whose expiry jitter is scripted (one draw per call).

Case = {"kind":"cache","expire":ns,"limit":n,"phase":ticks before the first call,"calls":[...]};
observation per call = {found,val,err,fetched,jit (the jittered duration of this call's draw),keys}.
"""
from vlib import cZ, cnat, cbool, clist, copt

ID = "C17"
GO_PKG = "./lib/collection"
GEN_SPEC = {"items": [
    {"kind": "const", "file": "lib/collection/cache.go", "name": "slots", "as": "cache_slots"},
    {"kind": "const", "file": "lib/collection/cache.go", "name": "expiryDeviation", "type": "Q"},
    {"kind": "calls", "file": "lib/collection/cache.go", "func": "Cache.SetWithExpire", "as": "set_calls"},
    {"kind": "calls", "file": "lib/collection/cache.go", "func": "Cache.Del", "as": "del_calls"},
    {"kind": "calls", "file": "lib/collection/cache.go", "func": "Cache.doGet", "as": "doGet_calls"},
    {"kind": "calls", "file": "lib/collection/cache.go", "func": "Cache.Take", "as": "take_calls"},
    {"kind": "calls", "file": "lib/collection/cache.go", "func": "Cache.onEvict", "as": "onEvict_calls"},
    {"kind": "calls", "file": "lib/collection/cache.go", "func": "keyLru.add", "as": "lru_add_calls"},
    {"kind": "calls", "file": "lib/collection/cache.go", "func": "keyLru.removeElement", "as": "lru_removeElement_calls"},
    {"kind": "calls", "file": "lib/collection/cache.go", "func": "NewCache", "as": "new_calls"},
]}
QUICK_N = 300
THOROUGH_N = 5000
SEARCH_N = 300
SHARD = 25
DRIVER_TIMEOUT = 1500
RULE = ("one cache per case: limit in {0 (none),1,2,3}, default expiry in {2,3,5,10,19,20,21,60,100,299,300,301,400 s, "
        "2.5 s}, wheel phase 0..299 (ticks before the first call), 4-5 keys, 10-40 calls Set/SetWithExpire/Get/Del/Take "
        "(fetch ok or failing) interleaved with tick bursts around 0.95e, e and 1.05e, scripted jitter draws in "
        "{0, 2^62, 2^63-2048, random}; plus a malformed stream (expiry <= 0, expiry around one second, limit < 0); "
        "non-trivial = an entry was seen to expire and (for limit > 0) an entry was evicted or a key was re-set; "
        "distinct = distinct canonical case JSON")
TRUSTED = ["C10 wheel model for the expiry timers (C10 theorems, C10 correspondence)",
           "mathx.Unstable.AroundDuration: the jittered duration of every call is recomputed by the driver from the "
           "scripted draw and handed to the model as an input",
           "Go map / container/list semantics (data as association list, LRU as a list of keys)",
           "syncx.SingleFlight with a single caller runs the function once (concurrent callers: C18)"]
ASSUMPTIONS = ["calls are sequential and the wheel's expiry callbacks (cache.Del) have finished before the next call "
               "(driver waits); racing Set/expiry and concurrent Take callers are not covered here",
               "expiries whose jittered value can fall below the one-second wheel interval (0.95*expire < 1 s) are "
               "outside the window clause: checked against the model only",
               "window bounds are computed exactly (95/100, 105/100) with 1 microsecond tolerance for the float64 "
               "rounding inside AroundDuration"]

S = 10 ** 9
KEYS = ["k0", "k1", "k2", "k3", "k4"]
DRAWS = [0, 2 ** 62, 2 ** 63 - 2048, 2 ** 61, 3 * 2 ** 61]


def _draw(rng):
    return rng.choice(DRAWS) if rng.random() < 0.6 else rng.randrange(0, 2 ** 63 - 2048)


def _case(rng, malformed):
    limit = rng.choice([0, 1, 2, 2, 3, 3])
    exp = rng.choice([2, 3, 5, 10, 19, 20, 21, 60, 100]) * S if rng.random() < 0.75 else rng.choice([299, 300, 301, 400]) * S
    if rng.random() < 0.1:
        exp = 5 * S // 2
    if malformed:
        r = rng.random()
        if r < 0.3:
            exp = rng.choice([0, -S, S // 2, S, 1040 * S // 1000])
        elif r < 0.5:
            limit = -1
    phase = rng.randrange(300) if rng.random() < 0.8 else rng.choice([0, 1, 298, 299])
    nk = rng.choice([3, 4, 5])
    calls = []
    budget = 1500
    esec = max(1, exp // S)
    for _ in range(rng.randint(10, 40)):
        r = rng.random()
        key = rng.choice(KEYS[:nk])
        if r < 0.28:
            calls.append({"op": "set", "key": key, "val": rng.randrange(100), "draw": _draw(rng)})
        elif r < 0.38:
            e = rng.choice([2, 3, 7, 20, 21, 40, 310]) * S
            if malformed and rng.random() < 0.3:
                e = rng.choice([0, S // 3, S, -5])
            calls.append({"op": "setx", "key": key, "val": rng.randrange(100), "expire": e, "draw": _draw(rng)})
        elif r < 0.55:
            calls.append({"op": "get", "key": key})
        elif r < 0.62:
            calls.append({"op": "del", "key": key})
        elif r < 0.75:
            calls.append({"op": "take", "key": key, "val": rng.randrange(100), "fail": rng.random() < 0.35, "draw": _draw(rng)})
        else:
            n = rng.choice([1, 1, 2, max(1, esec * 95 // 100 - 1), esec, esec * 105 // 100 + 1, max(1, esec // 2)])
            n = min(n, budget)
            budget -= n
            calls.extend({"op": "tick"} for _ in range(n))
    n = min(budget, esec * 105 // 100 + 2)
    calls.extend({"op": "tick"} for _ in range(n))
    return {"kind": "cache", "expire": exp, "limit": limit, "phase": phase, "calls": calls}


def generate(rng, tier, n):
    return [_case(rng, rng.random() < 0.15 and tier != "search") for _ in range(n)]


def search(rng, problems):
    """re-set at chosen wheel phases (the D7 classes seen through the cache)"""
    out = []
    for _ in range(150):
        e = rng.choice([20, 21, 19, 5, 60])
        phase = rng.randrange(300)
        j = rng.randrange(1, e)
        calls = [{"op": "set", "key": "k0", "val": 1, "draw": _draw(rng)}]
        calls += [{"op": "tick"} for _ in range(j)]
        calls += [{"op": "set", "key": "k0", "val": 2, "draw": _draw(rng)}]
        calls += [{"op": "tick"} for _ in range(e * 105 // 100 + 2)]
        out.append({"kind": "cache", "expire": e * S, "limit": rng.choice([0, 2]), "phase": phase, "calls": calls})
    return out


def _k(s):
    return cnat(int(s[1:]))


def encode(case, obs):
    ops, os_ = [], []
    for c, o in zip(case["calls"], obs.get("obs", [])):
        op = c["op"]
        if op == "set":
            ops.append("KSet %s %s %s" % (_k(c["key"]), cnat(c["val"]), cZ(o["jit"])))
        elif op == "setx":
            ops.append("KSetX %s %s %s %s" % (_k(c["key"]), cnat(c["val"]), cZ(c["expire"]), cZ(o["jit"])))
        elif op == "get":
            ops.append("KGet %s" % _k(c["key"]))
        elif op == "del":
            ops.append("KDel %s" % _k(c["key"]))
        elif op == "take":
            ops.append("KTake %s %s %s" % (_k(c["key"]), copt(None if c.get("fail") else cnat(c["val"])), cZ(o["jit"])))
        else:
            ops.append("KTick")
        os_.append("mkObs %s %s %s %s" % (copt(cnat(o["val"]) if o["found"] else None), cbool(o["err"]), cbool(o["fetched"]),
                                          clist([_k(k) for k in o["keys"]])))
    if len(os_) != len(case["calls"]):
        os_ = []
    return "mkcase %s %s %s %s %s" % (cZ(case["expire"]), cZ(case["limit"]), cnat(case["phase"]), clist(ops), clist(os_))


def _events(case, obs):
    expired = evicted = reset = False
    prev = set()
    seen = set()
    for c, o in zip(case["calls"], obs.get("obs", [])):
        keys = set(o["keys"])
        if c["op"] == "tick" and prev - keys:
            expired = True
        if c["op"] in ("set", "setx", "take") and (prev - keys):
            evicted = True
        if c["op"] in ("set", "setx") and c["key"] in prev:
            reset = True
        prev = keys
        seen |= keys
    return expired, evicted, reset


def nontrivial(case, obs):
    expired, evicted, reset = _events(case, obs)
    return expired and (evicted or reset)


def bucket(case, obs):
    out = ["limit=%d" % case["limit"], "expire=%ss" % (case["expire"] // S), "phase=%d" % (case["phase"] // 50 * 50)]
    out += ["op:" + k for k in sorted({c["op"] for c in case["calls"]})]
    expired, evicted, reset = _events(case, obs)
    if expired:
        out.append("obs:expired")
    if evicted:
        out.append("obs:evicted")
    if reset:
        out.append("obs:re-set")
    if any(o["err"] for o in obs.get("obs", [])):
        out.append("obs:take-error")
    if case["expire"] * 95 // 100 - 1000 < S:
        out.append("scope:expiry-below-one-tick")
    if obs.get("timeouts"):
        out.append("obs:settle-timeout")
    if "error" in obs:
        out.append("obs:driver-error")
    return out


def explain(case, obs):
    return ("observed cache behaviour contradicts C17.Exec.spec_ok (reference bounded LRU map with expiry windows): more "
            "entries than the limit, a victim other than the least recently used one, Get/Take returning something else "
            "than the latest value, an entry dropped outside [0.95e,1.05e] after its last Set (whole wheel ticks) or "
            "still present after it, or a failed fetch being cached")
