"""C11 SQL sessions: transaction fault/body scripts and destination shapes x result sets.

Two kinds of cases (field "t"):
  tx  : driver faults (begin/commit/rollback) x body script (statements that may fail, the body's
        reaction, final outcome nil/err/panic), run through Transact / TransactCtx on a recording
        SQL driver; observed: returned error, driver call log, escaped panic.
  orm : destination shape (primitive / struct with db tags, pointer fields, embedded structs /
        slices of them, materialised with reflect.StructOf) x result set (sqlmock.NewRows), run
        through QueryRow(s)[Partial] (plain or Ctx form) on each entry point family ("via"): conn,
        statement prepared on conn, transaction session, statement prepared on the transaction
        session; observed: error class / panic, canonical destination dump, and for the two
        transaction families Transact's result and the begin/commit/rollback log.
"""
import itertools
import re

from vlib import cZ, cnat, cbool, clist, copt, cstr

ID = "C11"
GO_PKG = "./lib/store/sqlx"
GEN_SPEC = {"imports": ["From God Require Import C11.GenEnv."], "items": [
    {"kind": "calls", "file": "lib/store/sqlx/tx.go", "func": "transactOnConn", "as": "tx_skeleton"},
    {"kind": "calls", "file": "lib/store/sqlx/tx.go", "func": "transact", "as": "transact_skeleton"},
    {"kind": "calls", "file": "lib/store/sqlx/conn.go", "func": "commonConn.TransactCtx", "as": "transactctx_skeleton"},
    {"kind": "func", "file": "lib/store/sqlx/conn.go", "name": "commonConn.acceptable", "as": "acceptable",
     "calls": {"db.accept": "ext_accept"}},
    {"kind": "const", "file": "lib/store/sqlx/orm.go", "name": "tagName"},
    {"kind": "calls", "file": "lib/store/sqlc/cachedsql.go", "func": "CachedConn.TransactCtx", "as": "cached_transactctx_skeleton"},
    {"kind": "calls", "file": "lib/store/sqlc/cachedsql.go", "func": "CachedConn.Transact", "as": "cached_transact_skeleton"},
    {"kind": "calls", "file": "lib/store/sqlx/conn.go", "func": "commonConn.Transact", "as": "conn_transact_skeleton"},
    {"kind": "calls", "file": "lib/store/sqlx/stmt.go", "func": "exec", "as": "stmt_exec_skeleton"},
    {"kind": "calls", "file": "lib/store/sqlx/stmt.go", "func": "execStmt", "as": "stmt_execstmt_skeleton"},
    {"kind": "calls", "file": "lib/store/sqlx/stmt.go", "func": "query", "as": "stmt_query_skeleton"},
    {"kind": "calls", "file": "lib/store/sqlx/stmt.go", "func": "queryStmt", "as": "stmt_querystmt_skeleton"},
    {"kind": "calls", "file": "lib/store/sqlx/stmt.go", "func": "nilGuard.finish", "as": "nilguard_finish_skeleton"},
    {"kind": "calls", "file": "lib/store/sqlx/stmt.go", "func": "nilGuard.start", "as": "nilguard_start_skeleton"},
    {"kind": "calls", "file": "lib/store/sqlx/stmt.go", "func": "newGuard", "as": "newguard_skeleton"},
    {"kind": "calls", "file": "lib/store/sqlx/tx.go", "func": "txSession.ExecCtx", "as": "tx_execctx_skeleton"},
    {"kind": "calls", "file": "lib/store/sqlx/orm.go", "func": "getTaggedFieldValueMap", "as": "taggedmap_skeleton"},
    {"kind": "calls", "file": "lib/store/sqlx/orm.go", "func": "unwrapFields", "as": "unwrapfields_skeleton"},
    {"kind": "calls", "file": "lib/store/sqlx/orm.go", "func": "mapStructFieldsIntoSlice", "as": "mapstruct_skeleton"},
    {"kind": "const", "file": "lib/breaker/googlebreaker.go", "name": "k", "as": "brk_k", "type": "Q"},
    {"kind": "const", "file": "lib/breaker/googlebreaker.go", "name": "protection", "as": "brk_protection"},
    {"kind": "calls", "file": "lib/store/sqlx/conn.go", "func": "commonConn.queryRows", "as": "queryrows_skeleton"},
    {"kind": "calls", "file": "lib/breaker/googlebreaker.go", "func": "googleBreaker.doReq", "as": "doreq_skeleton"},
    {"kind": "calls", "file": "lib/store/sqlx/tx.go", "func": "begin", "as": "begin_skeleton"},
    {"kind": "chain", "file": "lib/store/sqlx/tx.go", "func": "begin", "call": "db.Begin", "as": "begin_args"},
    {"kind": "chain", "file": "lib/store/sqlx/conn.go", "func": "commonConn.TransactCtx", "call": "transact", "as": "transact_args"},
    {"kind": "chain", "file": "lib/store/sqlx/tx.go", "func": "transact", "call": "transactOnConn", "as": "transactonconn_args"},
    {"kind": "chain", "file": "lib/store/sqlx/tx.go", "func": "transactOnConn", "call": "fn", "as": "fn_args"},
    {"kind": "chain", "file": "lib/store/sqlc/cachedsql.go", "func": "CachedConn.TransactCtx", "call": "cc.db.TransactCtx", "as": "cached_args"},
]}
# (method -> strict literal handed to unmarshalRow(s)) for every receiver, and plain form -> Ctx form
RECVS = [("conn", "commonConn", "lib/store/sqlx/conn.go"), ("stmt", "statement", "lib/store/sqlx/conn.go"),
         ("tx", "txSession", "lib/store/sqlx/tx.go")]
for _short, _typ, _file in RECVS:
    for _m in ("QueryRow", "QueryRowPartial", "QueryRows", "QueryRowsPartial"):
        GEN_SPEC["items"].append({"kind": "chain", "file": _file, "func": "%s.%sCtx" % (_typ, _m),
                                  "call": "unmarshalRows" if "Rows" in _m else "unmarshalRow",
                                  "as": "flag_%s_%s" % (_short, _m)})
        GEN_SPEC["items"].append({"kind": "calls", "file": _file, "func": "%s.%s" % (_typ, _m),
                                  "as": "plain_%s_%s" % (_short, _m)})
QUICK_N = 300          # orm base cases (each run through the 4 entry point families); + 504 exhaustive tx cases
THOROUGH_N = 5000
SHARD = 400
DRIVER_TIMEOUT = 600
RULE = ("tx: all 8 begin/commit/rollback fail-or-not combinations x all bodies of 0-2 statements (each ok / failing with the "
        "body returning, ignoring or panicking) x final outcome nil/err/panic (504 cases, exhaustive over this structure; the KIND "
        "of each fault drawn from {driver's own error, driver.ErrBadConn, sql.ErrConnDone, sql.ErrTxDone, context.Canceled, "
        "context.DeadlineExceeded}, the statement operation from {Exec, Prepare+Exec, QueryRow}, the wrapper from {sqlx Transact, "
        "TransactCtx, sqlc.CachedConn Transact, TransactCtx} and the log switches {all on, DisableStmtLog, DisableLog} x {normal, every "
        "statement slow} at random), plus a sweep of every fault kind at every site (Begin incl. 1/2/3/5 bad-connection attempts, "
        "Commit, Rollback, each statement operation x reaction - statement faults under ALL 6 switch settings, through sqlx and "
        "through sqlc each; 702 cases), plus a context sweep (ctx given to TransactCtx live / cancelled or expired right after the "
        "body's last statement / cancelled or expired before the call x body nil, error, panic x commit ok, failing x body using the "
        "plain Session methods or the XxxCtx methods on that ctx, through conn.TransactCtx and sqlc.CachedConn.TransactCtx; 180 "
        "cases), plus random bodies of 3-6 statements, on a recording SQL driver; "
        "orm: random destination shapes (int64/string/sql.NullInt64/plain-struct fields, pointer fields, embedded "
        "structs to depth 2; fully tagged 45% / untagged 25% / MIXED 30%: some top-level fields tagged, tagged outer fields with an "
        "untagged embedded struct, untagged outer fields with a tagged embedded struct; tag options, rare duplicate tags; primitives; "
        "slices of values or pointers; unsupported destinations) x result sets (columns = permuted subset of the tags plus "
        "extras, or arity nf-2..nf+1 for positional shapes, optionally named after the tags; 0-3 rows; cells typed for the intended "
        "field with 15% noise incl. NULL, 40% of the row sets free of zero-valued cells) x strict/partial x row/rows, plus permutation "
        "families of the same (shape, rows); every orm case is run (together with a fixed arity/order boundary stream of 60 cases x 4 "
        "entry points x plain/Ctx, incl. three mixed shapes) through all 4 entry point families (conn, stmt on conn, tx session, stmt on "
        "tx session), plain or Ctx form at random; "
        "plus per run 15+ case-sensitivity cases (tags differing only in letter case - userId/userid/UserID/USERID, createdAt/"
        "created_at/CreatedAt ... - with permuted columns and case-variant decoy columns; the tag alphabet of all shapes contains "
        "camelCase / mixed-case names) and 15+ embedded-arity cases (untagged struct embedding by value or pointer a struct of 2-3 "
        "fields, column count between the top-level and the flattened field count, mostly strict), each through all 4 entry points; "
        "plus a body-error-identity sweep (body returns sqlc.ErrNotFound / sql.ErrTxDone / context.Canceled / ... itself, 4 wrappers "
        "x 6 values x rollback ok/failing); "
        "plus 8 failing-result-set cases (single-row query whose result set fails on its first rows.Next(), sqlmock RowError; x 4 "
        "entry points); 25% of the tags of fully tagged shapes carry options (',type=char,length=16', ',range=[1:10]', ', optional' ...); "
        "plus 36 PAIRED cases (thorough: 400): two queries one after the other in the same driver process into two different fully tagged "
        "struct types that are both function-local types called T (reflect.Type.String() coincides; tags at other field positions, "
        "other field counts, swapped tags; 6 pairs x both orders x row/rows x conn/stmt/tx/txstmt at random); "
        "plus 3 STREAM cases (thorough: 12): 300-400 consecutive queries that hit an empty result (QueryRow / QueryRowPartial / "
        "QueryRows / QueryRowsPartial into an int64 or a tagged struct, one of the streams single-row only) on ONE conn with its "
        "real googleBreaker under the virtual clock, followed by a query for an existing row on the same conn; "
        "non-trivial = tx case in which a Begin succeeded, or orm case with at least one row reaching a struct/primitive destination; "
        "distinct = distinct canonical case JSON")
TRUSTED = ["database/sql Rows.Scan / convertAssign for int64, string, sql.NullInt64 and struct destinations "
           "(Model.conv, Model.scan); generated strings are non-numeric so string->int64 always fails",
           "go-sqlmock delivers the rows it was given; the recording SQL driver in verif_driver_test.go logs every "
           "Begin/Exec/Commit/Rollback it receives",
           "database/sql's handling of driver.ErrBadConn: DB.BeginTx retried (3 attempts in all), Stmt.ExecContext of a prepared "
           "statement retried (3 attempts, also inside a transaction), Tx.ExecContext/QueryContext/Commit/Rollback not retried "
           "(Model.begin_calls, Model.stmt_calls; faults other than at Begin are persistent)",
           "internal/verifsql (recording SQL driver + body-script interpreter shared by the sqlx and sqlc drivers) and "
           "sqlx.VerifSetSwitches (build tag verif; sets/restores logSQL, logSlowSQL, slowThreshold)",
           "timex virtual clock (VerifSetNow/VerifAdvance) for the breaker's rolling window in stream cases; the breaker's random "
           "draw is only consulted when the drop ratio is positive, which the model tracks (Model.brk_may_reject)",
           "googleBreaker lets every call of a fresh connection through (passed = true in the cases; the rejected branch "
           "is covered by c11_breaker_rejected only)"]
ASSUMPTIONS = ["db.provider() of NewConnFromDB cannot fail (transact's provider-error branch is not exercised)",
               "untagged destination with more columns than flattened fields panics (index out of range): modelled as "
               "Panic, excluded from the theorems by hypothesis, spec_ok silent (DESIGN section 7 observation)",
               "destinations start as the zero value; unexported fields and pointer-to-pointer fields are not generated"]

# ------------------------------------------------------------------------------------------ tx
FKINDS = ["gen", "badconn", "conndone", "txdone", "canceled", "deadline"]
OPS = ["exec", "pexec", "query"]
APIS = ["transact", "transactctx", "cached", "cachedctx"]
# statement prototypes of the exhaustive part: ok / failing with the body returning, ignoring, panicking
STMT_KINDS = [
    {"fault": "none", "react": "return", "p": 0},
    {"fault": "gen", "react": "return", "p": 0},
    {"fault": "gen", "react": "ignore", "p": 0},
    {"fault": "gen", "react": "panic", "p": 3},
]
FINALS = [{"k": "nil", "n": 0}, {"k": "err", "n": 7}, {"k": "panic", "n": 9}]


def rkind(rng):
    return "gen" if rng.random() < 0.35 else rng.choice(FKINDS[1:])


CTXS = ["live", "cancel_after", "expire_after", "cancelled", "expired"]


def settings(rng):
    d = {"api": rng.choice(APIS), "log": rng.randrange(3), "slow": rng.random() < 0.5, "cx": "live", "bound": False}
    if d["api"].endswith("ctx"):
        d["cx"] = rng.choice(CTXS + ["live"] * 2)
        d["bound"] = rng.random() < 0.4
    return d


def begin_fault(rng, fail):
    if not fail:
        # a connection that is bad once or twice and then fine still begins
        return {"k": "badconn", "n": rng.choice([1, 2])} if rng.random() < 0.15 else {"k": "none", "n": 0}
    k = rkind(rng)
    return {"k": k, "n": rng.choice([3, 4]) if k == "badconn" else 1}


def mk_stmt(rng, proto):
    s = dict(proto)
    s["op"] = rng.choice(OPS)
    if s["fault"] != "none":
        s["fault"] = rkind(rng)
    return s


def tx_exhaustive(rng):
    """all begin/commit/rollback fail-or-not combinations x all bodies of 0-2 statements x final outcome;
    the KIND of every fault, the statement operation, the wrapper and the log switches are drawn at random"""
    out = []
    for b, c, r in itertools.product([False, True], repeat=3):
        for n in (0, 1, 2):
            for stmts in itertools.product(STMT_KINDS, repeat=n):
                for fin in FINALS:
                    d = {"t": "tx", "begin": begin_fault(rng, b), "commit": rkind(rng) if c else "none",
                         "rollback": rkind(rng) if r else "none", "stmts": [mk_stmt(rng, x) for x in stmts],
                         "final": dict(fin)}
                    d.update(settings(rng))
                    out.append(d)
    return out


LOGSETS = [(log, slow) for log in (0, 1, 2) for slow in (False, True)]


def tx_sweep(rng):
    """every fault kind at every site; statement faults under every log-switch setting, through the sqlx conn and
    through sqlc.CachedConn"""
    out = []

    def add(d, sets):
        for log, slow in sets:
            for api in (rng.choice(APIS[:2]), rng.choice(APIS[2:])):
                e = json_copy(d)
                e.update({"api": api, "log": log, "slow": slow})
                out.append(e)

    base = {"t": "tx", "begin": {"k": "none", "n": 0}, "commit": "none", "rollback": "none", "stmts": [],
            "final": {"k": "nil", "n": 0}}
    one = lambda: [rng.choice(LOGSETS)]
    for k in FKINDS:
        for n in ([1, 2, 3, 5] if k == "badconn" else [1]):
            d = json_copy(base)
            d["begin"] = {"k": k, "n": n}
            d["stmts"] = [{"op": "exec", "fault": "none", "react": "return", "p": 0}]
            add(d, one())
        d = json_copy(base)
        d["commit"] = k
        add(d, one())
        for fin in FINALS[1:]:
            d = json_copy(base)
            d["rollback"] = k
            d["final"] = dict(fin)
            add(d, one())
        for op in OPS:
            for react in ("return", "ignore", "panic"):
                d = json_copy(base)
                d["stmts"] = [{"op": rng.choice(OPS), "fault": "none", "react": "return", "p": 0},
                              {"op": op, "fault": k, "react": react, "p": 5}]
                if rng.random() < 0.3:
                    d["rollback"] = rkind(rng)
                add(d, LOGSETS)
    return out


def tx_ctx_sweep(rng):
    """bodies x {ctx live, finished right after the last statement, finished before the call} x {body nil / error /
    panic} x {commit ok / fails} x {plain Session methods, ctx-bound methods}, through conn.TransactCtx and
    sqlc.CachedConn.TransactCtx"""
    out = []
    bodies = [[], [{"op": "exec", "fault": "none", "react": "return", "p": 0}],
              [{"op": "query", "fault": "none", "react": "return", "p": 0}, {"op": "pexec", "fault": "none", "react": "return", "p": 0}],
              [{"op": "exec", "fault": "none", "react": "ignore", "p": 0}, {"op": "query", "fault": "none", "react": "panic", "p": 6}]]
    for cx in CTXS:
        for fin in FINALS:
            for commit in ("none", "gen", "canceled"):
                for bound in (False, True):
                    stmts = json_copy(rng.choice(bodies) if not (cx in ("cancelled", "expired") and not bound and rng.random() < 0.5)
                                      else bodies[1])
                    for api in ("transactctx", "cachedctx"):
                        out.append({"t": "tx", "begin": {"k": "none", "n": 0}, "commit": commit,
                                    "rollback": rng.choice(["none", "none", "gen"]), "stmts": json_copy(stmts), "final": dict(fin),
                                    "api": api, "log": rng.randrange(3), "slow": rng.random() < 0.3, "cx": cx, "bound": bound})
    return out


BODY_SENTINELS = ["notfound", "txdone", "canceled", "badconn", "conndone", "deadline"]


def tx_sentinel_sweep(rng):
    """the body returns a well-known error VALUE (sqlc.ErrNotFound = sqlx.ErrNotFound = sql.ErrNoRows, sql.ErrTxDone, ...):
    it must come back itself, after exactly one Rollback, through every wrapper"""
    out = []
    bodies = [[], [{"op": "query", "fault": "none", "react": "return", "p": 0}]]
    for api in APIS:
        for sname in BODY_SENTINELS:
            for rb in ("none", "gen"):
                d = {"t": "tx", "begin": {"k": "none", "n": 0}, "commit": rng.choice(["none", "gen"]), "rollback": rb,
                     "stmts": json_copy(rng.choice(bodies)), "final": {"k": "err", "n": 0, "s": sname},
                     "api": api, "log": rng.randrange(3), "slow": rng.random() < 0.3, "cx": "live", "bound": False}
                out.append(d)
    return out


def json_copy(x):
    import json
    return json.loads(json.dumps(x))


def tx_random(rng, n):
    out = []
    for _ in range(n):
        stmts = []
        for _ in range(rng.randint(3, 6)):
            s = mk_stmt(rng, rng.choice(STMT_KINDS + [STMT_KINDS[0]] * 3))
            if s["react"] == "panic":
                s["p"] = rng.randrange(50)
            stmts.append(s)
        fin = dict(rng.choice(FINALS))
        fin["n"] = rng.randrange(50) if fin["k"] != "nil" else 0
        if fin["k"] == "err" and rng.random() < 0.4:
            fin["s"] = rng.choice(BODY_SENTINELS)
        d = {"t": "tx", "begin": begin_fault(rng, rng.random() < 0.1), "commit": rkind(rng) if rng.random() < 0.4 else "none",
             "rollback": rkind(rng) if rng.random() < 0.4 else "none", "stmts": stmts, "final": fin}
        d.update(settings(rng))
        out.append(d)
    return out


# ------------------------------------------------------------------------------------------ orm
TAGS = list("abcdefgh") + ["userId", "userid", "User_ID", "UserID", "A", "B", "createdAt", "created_at", "CreatedAt", "eMail"]
KINDS = ["int"] * 9 + ["str"] * 6 + ["nint"] * 3 + ["opaque"]


# options after the column name, as lib/store/builder documents them (and a few odd ones)
TAG_OPTIONS = [",omitempty", ",x,y", ",", ",type=char,length=16", ",type=varchar", ",range=[1:10]", ", optional", ",default=0",
               ",options=a|b", ",-"]


def gen_fields(rng, depth, tagmode, pool, n=None):
    """tagmode: 'all' | 'none' | 'mixed' (applies to this level; inner levels random unless 'none')."""
    n = rng.randint(1, 4) if n is None else n
    fs = []
    for _ in range(n):
        if tagmode == "all":
            tag = pool.pop() if pool else "z"
            if rng.random() < 0.25:
                tag += rng.choice(TAG_OPTIONS)
        elif tagmode == "mixed":
            tag = (pool.pop() if pool else "z") if rng.random() < 0.5 else rng.choice(["", ",opt"])
        else:
            tag = ""
        ptr = rng.random() < 0.3
        if depth < 2 and rng.random() < 0.18:
            inner_mode = "none" if tagmode == "none" else rng.choice(["all", "none", "mixed"])
            sub = gen_fields(rng, depth + 1, inner_mode, pool, n=rng.randint(0, 3))
            fs.append({"tag": tag, "ptr": ptr, "emb": sub})
        else:
            fs.append({"tag": tag, "ptr": ptr, "k": rng.choice(KINDS)})
    return fs


def flatten(fs):
    out = []
    for f in fs:
        if "emb" in f:
            out.extend(flatten(f["emb"]))
        else:
            out.append(f["k"])
    return out


def tag_name(f):
    return f["tag"].split(",")[0]


def gen_cell(rng, kind, noise=0.15, nonzero=False):
    if nonzero:
        if kind == "int" or kind == "nint":
            return rng.randrange(1, 1000)
        if kind == "str":
            return rng.choice(["s%d" % rng.randrange(1000), rng.randrange(1, 100)])
        return rng.randrange(1, 50)
    return gen_cell0(rng, kind, noise)


def gen_cell0(rng, kind, noise=0.15):
    if kind is None or rng.random() < noise:
        return rng.choice([None, rng.randrange(-50, 1000), "s%d" % rng.randrange(100), "", -1, 0])
    if kind == "int":
        return rng.choice([rng.randrange(-1000, 100000), 0, 1, -1, 2 ** 40 + rng.randrange(100)])
    if kind == "str":
        return rng.choice(["s%d" % rng.randrange(1000), "", "x y", rng.randrange(100)])
    if kind == "nint":
        return rng.choice([None, rng.randrange(-5, 500)])
    return rng.choice([None, 1, "o"])


def all_tags(fs):
    out = []
    for f in fs:
        if tag_name(f):
            out.append(tag_name(f))
        if "emb" in f:
            out.extend(all_tags(f["emb"]))
    return out


def gen_mixed_fields(rng, pool):
    """the three mixed-tagging families: some top-level fields tagged and some not; tagged outer fields
    next to an untagged embedded struct; untagged outer fields around an embedded struct with tagged fields"""
    fam = rng.choice(["top", "tagged-outer", "untagged-outer"])
    if fam == "top":
        while True:
            fs = gen_fields(rng, 0, "mixed", pool, n=rng.randint(2, 4))
            tags = [bool(tag_name(f)) for f in fs]
            if any(tags) and not all(tags):
                return fs
    leaf = lambda tag: {"tag": tag, "ptr": rng.random() < 0.3, "k": rng.choice(KINDS[:-1])}
    if fam == "tagged-outer":
        fs = [leaf(pool.pop()) for _ in range(rng.randint(1, 3))]
        inner_tagged = rng.random() < 0.4
        emb = {"tag": "", "ptr": rng.random() < 0.4, "emb": [leaf(pool.pop() if inner_tagged else "") for _ in range(rng.randint(1, 2))]}
        fs.insert(rng.randint(0, len(fs)), emb)
        return fs
    fs = [leaf("") for _ in range(rng.randint(1, 3))]
    emb = {"tag": rng.choice(["", "", pool.pop()]), "ptr": rng.random() < 0.4, "emb": [leaf(pool.pop()) for _ in range(rng.randint(1, 2))]}
    fs.insert(rng.randint(0, len(fs)), emb)
    return fs


def gen_struct_case(rng):
    r = rng.random()
    tagmode = "all" if r < 0.45 else ("none" if r < 0.70 else "mixed")
    pool = TAGS[:]
    rng.shuffle(pool)
    fs = gen_mixed_fields(rng, pool) if tagmode == "mixed" else gen_fields(rng, 0, tagmode, pool)
    if tagmode == "all" and len(fs) > 1 and rng.random() < 0.05:
        fs[-1]["tag"] = fs[0]["tag"]                       # duplicate tag
    kinds = flatten(fs)
    nf = len(kinds)
    if tagmode == "all":
        named = {tag_name(f): (f.get("k") if "emb" not in f else "opaque") for f in fs}
        names = list(named)
        rng.shuffle(names)
        k = rng.choice([len(names), len(names), len(names), rng.randint(0, len(names))])
        cols = names[:k]
        for _ in range(rng.choice([0, 0, 1, 2, 4])):
            cols.append(rng.choice(["x", "y", "w", "id", "v"]) + str(rng.randrange(3)))
        if names and rng.random() < 0.3:
            # a column whose name differs from a tag only in letter case: it names NO field
            t = rng.choice(names)
            v = rng.choice([t.upper(), t.lower(), t.swapcase(), t.capitalize()])
            if v not in named and v not in cols:
                cols.append(v)
        if cols and rng.random() < 0.05:
            cols.append(cols[0])                           # duplicate column name
        if not cols:
            cols = ["x0"]
        rng.shuffle(cols)
        ckinds = [named.get(c) for c in cols]
    else:
        if tagmode == "mixed":
            nc = max(1, rng.choice([nf, nf, nf, nf, nf - 1, nf + 1]))
        else:
            nc = max(1, rng.choice([nf, nf, nf, nf - 1, nf - 2, nf + 1]))
        cols = ["c%d" % i for i in range(nc)]
        if tagmode == "mixed" and rng.random() < 0.6:
            # name the columns after the tags that exist (in field order or shuffled): the code ignores them
            tags = all_tags(fs)
            cols = [(tags[i] if i < len(tags) else "c%d" % i) for i in range(nc)]
        if rng.random() < 0.3:
            rng.shuffle(cols)
        ckinds = [(kinds[i] if i < nf else None) for i in range(nc)]
    return fs, cols, ckinds


CASE_GROUPS = [["userId", "userid", "UserID", "USERID"], ["createdAt", "created_at", "CreatedAt"], ["a", "A"], ["eMail", "email", "Email"]]


def gen_case_sensitive(rng):
    """fully tagged struct whose tags differ only in letter case (camelCase / snake / upper), columns = the tags permuted
    (sometimes plus another case variant that names no field)"""
    group = rng.choice(CASE_GROUPS)
    tags = group[:]
    rng.shuffle(tags)
    decoy = tags.pop() if len(tags) > 2 and rng.random() < 0.5 else None
    extra = rng.choice(TAGS[:8])
    fs = [{"tag": t + (rng.choice(TAG_OPTIONS) if rng.random() < 0.4 else ""), "ptr": rng.random() < 0.2,
           "k": rng.choice(["int", "int", "str"])} for t in tags + [extra]]
    cols = tags + [extra] + ([decoy] if decoy else [])
    rng.shuffle(cols)
    kinds = {tag_name(f): f["k"] for f in fs}
    mode = rng.choice(["row", "rows"])
    rows = [[gen_cell(rng, kinds.get(c, "int"), 0.0, True) for c in cols] for _ in range(1 if mode == "row" else rng.randint(1, 3))]
    shape = {"d": "slice", "ptr": rng.random() < 0.5, "e": {"fs": fs}} if mode == "rows" else {"d": "elem", "ptr": False, "e": {"fs": fs}}
    return {"t": "orm", "mode": mode, "strict": rng.random() < 0.6, "shape": shape, "cols": cols, "rows": rows}


def gen_embedded_arity(rng):
    """untagged struct embedding (by value / by pointer) a struct with 2-3 fields; column count between the number of
    top-level fields and the flattened field count (short by 1..k, exact, sometimes one more)"""
    leaf = lambda: {"tag": "", "ptr": rng.random() < 0.2, "k": rng.choice(["int", "int", "str"])}
    fs = [leaf() for _ in range(rng.randint(0, 2))]
    emb = {"tag": "", "ptr": rng.random() < 0.5, "emb": [leaf() for _ in range(rng.randint(2, 3))]}
    fs.insert(rng.randint(0, len(fs)), emb)
    if rng.random() < 0.25:
        fs.append({"tag": "", "ptr": rng.random() < 0.5, "emb": [leaf() for _ in range(2)]})
    kinds = flatten(fs)
    nf, ntop = len(kinds), len(fs)
    nc = rng.choice([rng.randint(max(1, ntop), nf - 1)] * 3 + [nf, nf])
    cols = ["c%d" % i for i in range(nc)]
    mode = rng.choice(["row", "rows"])
    rows = [[gen_cell(rng, kinds[i], 0.0, True) for i in range(nc)] for _ in range(1 if mode == "row" else rng.randint(1, 2))]
    shape = {"d": "slice", "ptr": rng.random() < 0.5, "e": {"fs": fs}} if mode == "rows" else {"d": "elem", "ptr": False, "e": {"fs": fs}}
    return {"t": "orm", "mode": mode, "strict": rng.random() < 0.75, "shape": shape, "cols": cols, "rows": rows}


def gen_rowerr(rng):
    """single-row query (strict or partial, int64 / string / tagged struct destination) whose result set fails on its
    first rows.Next()"""
    if rng.random() < 0.5:
        k = rng.choice(["int", "str"])
        e, cols, row = {"k": k}, ["c0"], [gen_cell(rng, k, 0.0, True)]
    else:
        fs = [{"tag": "id,type=char,length=16", "ptr": False, "k": "int"}, {"tag": "name", "ptr": rng.random() < 0.3, "k": "str"}]
        cols = rng.choice([["id", "name"], ["name", "id"]])
        e, row = {"fs": fs}, [(7 if c == "id" else "n") for c in cols]
    return {"t": "orm", "rowerr": True, "mode": "row", "strict": rng.random() < 0.5,
            "shape": {"d": "elem", "ptr": False, "e": e}, "cols": cols, "rows": [row]}


def gen_rows(rng, ckinds):
    nrows = rng.choice([0, 1, 1, 1, 1, 2, 3])
    noise = rng.choice([0.0, 0.0, 0.15, 0.3])
    nonzero = rng.random() < 0.4                       # rows without zero-valued cells (no-field-left-zero clause)
    return [[gen_cell(rng, k, noise, nonzero) for k in ckinds] for _ in range(nrows)]


def gen_orm(rng):
    r = rng.random()
    mode = rng.choice(["row", "rows"])
    strict = rng.random() < 0.6
    if r < 0.78:
        fs, cols, ckinds = gen_struct_case(rng)
        e = {"fs": fs}
    elif r < 0.94:
        k = rng.choice(["int", "str"])
        e = {"k": k}
        nc = rng.choice([1, 1, 1, 1, 2, 3])
        cols = ["c%d" % i for i in range(nc)]
        ckinds = [k] * nc
    else:
        e = {"other": True}
        cols = ["c0"]
        ckinds = [None]
    good = rng.random() < 0.93
    if (mode == "rows") == good:
        shape = {"d": "slice", "ptr": rng.random() < 0.5, "e": e}
    else:
        shape = {"d": "elem", "ptr": False, "e": e}
    return {"t": "orm", "mode": mode, "strict": strict, "shape": shape, "cols": cols, "rows": gen_rows(rng, ckinds)}


def permute_case(c, perm):
    d = dict(c)
    d["cols"] = [c["cols"][i] for i in perm]
    d["rows"] = [[row[i] for i in perm] for row in c["rows"]]
    return d


def gen_family(rng, maxperms):
    """the same tagged shape and rows under several column orders"""
    while True:
        c = gen_orm(rng)
        e = c["shape"]["e"]
        if "fs" in e and all(tag_name(f) for f in e["fs"]) and 2 <= len(c["cols"]) <= 5 and c["rows"]:
            break
    perms = list(itertools.permutations(range(len(c["cols"]))))
    rng.shuffle(perms)
    return [permute_case(c, p) for p in perms[:maxperms]]


# declared destination types of the driver (verifDecl): function-local types that are ALL called T
def _lf(tag, k, ptr=False):
    return {"tag": tag, "ptr": ptr, "k": k}


DECLS = {
    "1a": [_lf("a", "int"), _lf("b", "str")], "1b": [_lf("b", "str"), _lf("a", "int")],
    "2a": [_lf("a", "int"), _lf("b", "int"), _lf("c", "int")], "2b": [_lf("c", "int"), _lf("a", "int")],
    "3a": [_lf("x", "str"), _lf("y", "int")], "3b": [_lf("y", "int"), _lf("z", "int"), _lf("x", "str")],
    "4a": [_lf("a", "int"), _lf("b", "int")], "4b": [_lf("b", "int"), _lf("a", "int")],
    "5a": [_lf("p", "int", True), _lf("q", "str")], "5b": [_lf("q", "str"), _lf("p", "int", True), _lf("r", "nint")],
    "6a": [_lf("a", "int"), _lf("b", "int"), _lf("c", "int"), _lf("d", "int")],
    "6b": [_lf("d", "int"), _lf("c", "int"), _lf("b", "int"), _lf("a", "int")],
}


def gen_decl_query(rng, decl, cols=None):
    """one query into declared type `decl`: its tag names as columns (given order, or permuted, sometimes one
    extra column or one column short), non-zero distinct cells typed for the tagged field"""
    fs = json_copy(DECLS[decl])
    kinds = {f["tag"]: f["k"] for f in fs}
    if cols is None:
        cols = [f["tag"] for f in fs]
        rng.shuffle(cols)
        r = rng.random()
        if r < 0.25:
            cols.insert(rng.randint(0, len(cols)), "w")          # an extra, unknown column
        elif r < 0.5 and len(cols) > 1:
            cols.pop(rng.randrange(len(cols)))                   # one column short (strict forms must reject)
    mode = rng.choice(["row", "rows"])
    nrows = 1 if mode == "row" else rng.choice([1, 2, 3])
    rows = []
    for r in range(nrows):
        row = []
        for j, c in enumerate(cols):
            k = kinds.get(c, "int")
            v = 10 * (r + 1) + j + 1
            row.append(("s%d" % v) if k == "str" else v)
        rows.append(row)
    shape = {"d": "slice", "ptr": rng.random() < 0.5, "e": {"fs": fs}} if mode == "rows" else {"d": "elem", "ptr": False, "e": {"fs": fs}}
    return {"t": "orm", "decl": decl, "mode": mode, "strict": rng.random() < 0.6, "shape": shape, "cols": cols, "rows": rows,
            "via": rng.choice(VIAS), "ctx": rng.random() < 0.5}


def gen_pair(rng, k=None, order=None):
    """first a query into one of two same-named types, then into the other one"""
    k = k or rng.choice("123456")
    order = order or rng.choice(["ab", "ba"])
    first = gen_decl_query(rng, k + order[0])
    # the second query often reuses the first one's column list where the tag sets allow it
    second = gen_decl_query(rng, k + order[1])
    return {"t": "pair", "first": first, "second": second}


def pairs_all(rng):
    out = [gen_pair(rng, k, o) for k in "123456" for o in ("ab", "ba") for _ in range(3)]
    rng.shuffle(out)                                             # which T the process meets first varies with the seed
    return out


STREAM_OPS = ["row:int", "rowp:int", "rows:int", "rowsp:int", "row:st", "rowp:st", "rows:st", "rowsp:st"]
STREAM_FS = [{"tag": "a", "ptr": False, "k": "int"}, {"tag": "b", "ptr": False, "k": "str"}]


def gen_stream(rng, n=300, single_only=False):
    """n consecutive queries that hit an empty result on ONE conn (real breaker), mostly single-row ones, then a
    query for an existing row"""
    pool = [o for o in STREAM_OPS if o.startswith("row:") or o.startswith("rowp:")] if single_only else \
        STREAM_OPS[:2] * 3 + STREAM_OPS[4:6] * 3 + STREAM_OPS
    ops = [rng.choice(pool) for _ in range(n)]
    cols = rng.choice([["a", "b"], ["b", "a"], ["b", "x", "a"]])
    vals = {"a": rng.randrange(1, 1000), "b": "s%d" % rng.randrange(100), "x": 5}
    mode = rng.choice(["row", "rows"])
    final = {"t": "orm", "mode": mode, "strict": rng.random() < 0.5, "via": "conn", "ctx": rng.random() < 0.5,
             "shape": {"d": "slice" if mode == "rows" else "elem", "ptr": False, "e": {"fs": json_copy(STREAM_FS)}},
             "cols": cols, "rows": [[vals[c] for c in cols]]}
    return {"t": "stream", "ops": ops, "final": final}


def streams_all(rng):
    return [gen_stream(rng, 300, single_only=True), gen_stream(rng, 300), gen_stream(rng, rng.randint(320, 400))]


def generate(rng, tier, n):
    cases = []
    if tier != "search":
        cases += tx_exhaustive(rng)
        cases += tx_sweep(rng)
        cases += tx_ctx_sweep(rng)
        cases += tx_sentinel_sweep(rng)
        cases += tx_random(rng, 60 if tier == "quick" else 600)
    else:
        cases += tx_random(rng, 40)
    nfam = max(1, n // 30) if tier != "thorough" else max(1, n // 100)
    for _ in range(nfam):
        cases += gen_family(rng, 4 if tier != "thorough" else 120)
    for _ in range(8):
        cases.append(gen_rowerr(rng))
    for _ in range(max(12, n // 20)):
        cases.append(gen_case_sensitive(rng))
        cases.append(gen_embedded_arity(rng))
    while len([c for c in cases if c["t"] == "orm"]) < n:
        cases.append(gen_orm(rng))
    out = via_all(rng, cases)
    out += pairs_all(rng) if tier != "thorough" else [gen_pair(rng) for _ in range(400)]
    out += streams_all(rng) if tier != "thorough" else [gen_stream(rng, rng.randint(300, 600)) for _ in range(12)]
    if tier != "search":
        for c in boundary_orm():                       # boundary stream: every entry point, plain AND Ctx form
            for via in VIAS:
                for ctx in (False, True):
                    d = dict(c)
                    d["via"], d["ctx"] = via, ctx
                    out.append(d)
    return out


VIAS = ("conn", "stmt", "tx", "txstmt")


def via_all(rng, cases):
    """every orm case goes through each entry point family; plain or Ctx form at random"""
    out = []
    for c in cases:
        if c["t"] != "orm":
            out.append(c)
            continue
        for via in VIAS:
            d = dict(c)
            d["via"] = via
            d["ctx"] = rng.random() < 0.5
            out.append(d)
    return out


def boundary_orm():
    """arity / order boundary: tagged and untagged 2-field structs with exact, swapped, short and empty results"""
    out = []
    two = [{"tag": "a", "ptr": False, "k": "int"}, {"tag": "b", "ptr": False, "k": "int"}]
    two_u = [{"tag": "", "ptr": False, "k": "int"}, {"tag": "", "ptr": False, "k": "int"}]
    mixed = [
        [{"tag": "a", "ptr": False, "k": "int"}, {"tag": "", "ptr": False, "k": "int"}],
        [{"tag": "a", "ptr": False, "k": "int"}, {"tag": "", "ptr": False, "emb": [{"tag": "", "ptr": False, "k": "int"}]}],
        [{"tag": "", "ptr": False, "k": "int"}, {"tag": "", "ptr": True, "emb": [{"tag": "b", "ptr": False, "k": "int"}]}],
    ]
    for strict in (False, True):
        for mode, d in (("row", "elem"), ("rows", "slice")):
            for m in mixed:
                shm = {"d": d, "ptr": False, "e": {"fs": m}}
                out.append({"t": "orm", "mode": mode, "strict": strict, "shape": shm, "cols": ["b", "a"], "rows": [[1, 2]]})
                out.append({"t": "orm", "mode": mode, "strict": strict, "shape": shm, "cols": ["a", "b"], "rows": [[3, 4]]})
                out.append({"t": "orm", "mode": mode, "strict": strict, "shape": shm, "cols": ["a"], "rows": [[5]]})
            sh = {"d": d, "ptr": False, "e": {"fs": two}}
            shu = {"d": d, "ptr": False, "e": {"fs": two_u}}
            out.append({"t": "orm", "mode": mode, "strict": strict, "shape": sh, "cols": ["b", "a"], "rows": [[1, 2]]})
            out.append({"t": "orm", "mode": mode, "strict": strict, "shape": sh, "cols": ["a", "b"], "rows": [[1, 2]]})
            out.append({"t": "orm", "mode": mode, "strict": strict, "shape": sh, "cols": ["b"], "rows": [[5]]})
            out.append({"t": "orm", "mode": mode, "strict": strict, "shape": sh, "cols": ["a", "b"], "rows": []})
            out.append({"t": "orm", "mode": mode, "strict": strict, "shape": shu, "cols": ["x", "y"], "rows": [[1, 2]]})
            out.append({"t": "orm", "mode": mode, "strict": strict, "shape": shu, "cols": ["x"], "rows": [[5]]})
    return out


def search(rng, problems):
    """directed cases: every fault combination with a panicking / failing / clean body; exact-arity shapes"""
    out = []
    for b, c, r in itertools.product([False, True], repeat=3):
        for fin in FINALS:
            for stmts in ([], [dict(STMT_KINDS[0])], [dict(STMT_KINDS[1])]):
                d = {"t": "tx", "begin": begin_fault(rng, b), "commit": rkind(rng) if c else "none",
                     "rollback": rkind(rng) if r else "none", "stmts": [mk_stmt(rng, x) for x in stmts], "final": dict(fin)}
                d.update(settings(rng))
                out.append(d)
    out += tx_sweep(rng)
    out += tx_ctx_sweep(rng)
    out += tx_sentinel_sweep(rng)
    out += boundary_orm()
    for _ in range(6):
        out.append(gen_rowerr(rng))
    for _ in range(10):
        out.append(gen_case_sensitive(rng))
        out.append(gen_embedded_arity(rng))
    return via_all(rng, out) + pairs_all(rng) + streams_all(rng)


# ------------------------------------------------------------------------------------------ drive
def drive(cases, tier):
    """tx cases whose api is cached/cachedctx run in lib/store/sqlc (TestVerifDriverC11), everything else in
    lib/store/sqlx (TestVerifDriver); observations are merged back in case order"""
    import vlib
    idx_c = [i for i, c in enumerate(cases) if c["t"] == "tx" and c.get("api", "").startswith("cached")]
    in_c = set(idx_c)
    idx_x = [i for i in range(len(cases)) if i not in in_c]
    obs = [None] * len(cases)
    logs = []
    for name, pkg, run, idx in (("C11x" + tier[0], "./lib/store/sqlx", "^TestVerifDriver$", idx_x),
                                ("C11c" + tier[0], "./lib/store/sqlc", "^TestVerifDriverC11$", idx_c)):
        if not idx:
            continue
        o, log = vlib.run_driver(pkg, [cases[i] for i in idx], name=name, timeout=DRIVER_TIMEOUT, run=run)
        logs.append(log[-3000:])
        if o is None:
            return None, "\n".join(logs)
        for i, x in zip(idx, o):
            obs[i] = x
    return obs, "\n".join(logs)


# ------------------------------------------------------------------------------------------ encode
SENT = {"begin": "EBegin", "commit": "ECommit", "rollback": "ERollback", "unavailable": "EUnavailable"}
FK = {"notfound": "KNoRows", "badconn": "KBadConn", "conndone": "KConnDone", "txdone": "KTxDone", "canceled": "KCanceled", "deadline": "KDeadline"}
KIND_MSG = {"sql: no rows in result set": "notfound", "driver: bad connection": "badconn", "sql: connection is already closed": "conndone",
            "sql: transaction has already been committed or rolled back": "txdone",
            "context canceled": "canceled", "context deadline exceeded": "deadline"}


def fault_term(k):
    if k in ("", "none", None):
        return "FNone"
    if k == "gen":
        return "FGen"
    return "(FKind %s)" % FK[k]


def sent_term(name):
    if name in SENT:
        return SENT[name]
    if name in FK:
        return "(EKind %s)" % FK[name]
    m = re.match(r"^(exec|body):(\d+)$", name or "")
    if m and int(m.group(2)) < 5000:
        return "(%s %s)" % ("EExec" if m.group(1) == "exec" else "EBody", cnat(int(m.group(2))))
    return None


def msg_term(msg):
    if msg in KIND_MSG:
        return sent_term(KIND_MSG[msg])
    m = re.match(r"^E:(.+)$", msg)
    return (sent_term(m.group(1)) if m else None) or "EOther"


def err_term(e):
    if e is None:
        return "None"
    t = sent_term(e.get("is", ""))
    if t is None:
        msg = e.get("msg", "")
        unwrapped = sent_term(e.get("unwrap", "")) if e.get("unwrap") else None
        m1 = re.match(r"^事务发生恐慌：P:(\d+)，回滚也失败了：(.*)$", msg)
        m2 = re.match(r"^事务发生恐慌：P:(\d+)$", msg)
        m3 = re.match(r"^事务失败了：(.*)，回滚也失败了：(.*)$", msg)
        if m1 and unwrapped == msg_term(m1.group(2)) and int(m1.group(1)) < 5000:
            t = "(EPanicJoin %s %s)" % (cnat(int(m1.group(1))), unwrapped)
        elif m2 and int(m2.group(1)) < 5000:
            t = "(EPanic %s)" % cnat(int(m2.group(1)))
        elif m3 and unwrapped == msg_term(m3.group(2)):
            t = "(EJoin %s %s)" % (msg_term(m3.group(1)), unwrapped)
        else:
            t = "EOther"
    return "(Some %s)" % t


def call_term(s):
    parts = s.split(":")
    ok = cbool(parts[-1] == "ok")
    if parts[0] == "exec":
        return "Exec %s %s" % (cnat(int(parts[1])), ok)
    return "%s %s" % ({"begin": "Begin", "commit": "Commit", "rollback": "Rollback"}[parts[0]], ok)


def react_term(s):
    return {"return": "RReturn", "ignore": "RIgnore"}.get(s["react"]) or "(RPanic %s)" % cnat(s["p"])


def final_term(f):
    if f["k"] == "nil":
        return "ONil"
    if f["k"] == "err" and f.get("s"):
        return "(OErr (EKind %s))" % FK[f["s"]]
    if f["k"] == "err":
        return "(OErr (EBody %s))" % cnat(f["n"])
    return "(OPanic %s)" % cnat(f["n"])


SOP = {"exec": "SExec", "pexec": "SPrepExec", "query": "SQuery"}


def switches_term(c):
    log = c.get("log", 0)
    return "(mkswitches %s %s %s)" % (cbool(log == 0), cbool(log != 2), cbool(c.get("slow", False)))


CTX_TERM = {"live": "CLive", "": "CLive", "cancel_after": "(CDoneAfterBody KCanceled)", "expire_after": "(CDoneAfterBody KDeadline)",
            "cancelled": "(CDoneBefore KCanceled)", "expired": "(CDoneBefore KDeadline)"}


def encode_tx(c, o):
    stmts = clist(["mkstmt %s %s %s" % (SOP[s.get("op", "exec")], fault_term(s["fault"]), react_term(s)) for s in c["stmts"]])
    esc = o.get("escaped")
    if "driver_panic" in o or "error" in o:
        esc_t = "(Some 4999%nat)"
    elif esc is None:
        esc_t = "None"
    else:
        m = re.match(r"^P:(\d+)$", esc)
        esc_t = "(Some %s)" % cnat(int(m.group(1)) if m and int(m.group(1)) < 4999 else 4999)
    faults = "(mkfaults %s %s %s %s)" % (fault_term(c["begin"]["k"]), cnat(min(int(c["begin"].get("n", 0)), 4000)),
                                         fault_term(c["commit"]), fault_term(c["rollback"]))
    ctxapi = c.get("api", "transact").endswith("ctx")
    return "CTx %s %s %s %s %s (mkbody %s %s) %s %s %s %s %s" % (
        cbool(c.get("api", "transact").startswith("cached")), switches_term(c),
        CTX_TERM[c.get("cx", "live")] if ctxapi else "CLive", cbool(bool(c.get("bound")) and ctxapi), faults, stmts, final_term(c["final"]),
        err_term(o.get("err")), clist([call_term(s) for s in o.get("calls", [])]), esc_t,
        cnat(min(int(o.get("runs", 0)), 4000)), clist([cbool(x) for x in o.get("seen", [])]))


KIND = {"int": "KInt", "str": "KStr", "nint": "KNInt", "opaque": "KOpaque"}


def field_term(f):
    if "emb" in f and f["emb"] is not None:
        return "FEmb %s %s %s" % (cstr(f["tag"]), cbool(f["ptr"]), clist([field_term(x) for x in f["emb"]]))
    return "FLeaf %s %s %s" % (cstr(f["tag"]), cbool(f["ptr"]), KIND[f["k"]])


def elem_term(e):
    if e.get("fs") is not None:
        return "(EStruct %s)" % clist([field_term(f) for f in e["fs"]])
    if e.get("other"):
        return "EUnsup"
    return "(EPrim %s)" % KIND[e["k"]]


def cell_term(x):
    if x is None:
        return "CNull"
    if isinstance(x, str):
        return "(CStr %s)" % cstr(x)
    return "(CInt %s)" % cZ(x)


def leaf_term(x):
    if x is None:
        return "None"
    if "i" in x:
        return "(Some (LInt %s))" % cZ(x["i"])
    if "s" in x:
        return "(Some (LStr %s))" % cstr(x["s"])
    if "n" in x:
        return "(Some (LNInt %s %s))" % (cbool(x["n"][0]), cZ(x["n"][1]))
    return "(Some LOpaque)" if x.get("o") == 0 else "(Some (LInt 424242))"


def status_term(o):
    if o.get("panic") is not None or "driver_panic" in o or "error" in o:
        return "Panic"
    e = o.get("err")
    if e is None:
        return "(Ok tt)"
    code = {"notfound": 1, "notmatch": 2, "unsupported": 3, "rowerr": 6}.get(e.get("is", ""))
    if code is None:
        code = 4 if (not e.get("is") and e.get("msg", "").startswith("sql: ")) else 9
    return "(Err %d%%nat)" % code


METH = {("row", True): "MQueryRow", ("row", False): "MQueryRowPartial",
        ("rows", True): "MQueryRows", ("rows", False): "MQueryRowsPartial"}
VIA = {"conn": "VConn", "stmt": "VStmt", "tx": "VTx", "txstmt": "VTxStmt"}


def tx_obs_term(o):
    """Transact's result around a query body: nil, the query's own error (same object), or the recover branch's error"""
    t = o.get("tx")
    if t is None:
        return "None"
    e = t.get("err")
    if e is None:
        r = "None"
    elif t.get("same"):
        st = status_term(o)
        m = re.match(r"^\(Err (\d+)%nat\)$", st)
        r = "(Some (EBody %s%%nat))" % m.group(1) if m else "(Some EOther)"
    elif re.match(r"^事务发生恐慌：", e.get("msg", "")) and not e.get("unwrap") and "回滚也失败了" not in e.get("msg", ""):
        r = "(Some (EPanic 0%nat))"
    else:
        r = "(Some EOther)"
    return "(Some (%s, %s, %s, %s))" % (r, clist([call_term(x) for x in t.get("calls", [])]), cbool(t.get("escaped", False)),
                                       cnat(min(int(t.get("runs", 0)), 4000)))


def encode_orm(c, o):
    sh = c["shape"]
    sh_t = ("(DSlice %s %s)" % (cbool(sh["ptr"]), elem_term(sh["e"]))) if sh["d"] == "slice" else "(DElem %s)" % elem_term(sh["e"])
    rows = clist([clist([cell_term(x) for x in r]) for r in c["rows"]])
    dest = clist([clist([leaf_term(x) for x in el]) for el in o.get("dest", [])])
    return "COrm %s %s %s %s %s %s %s %s" % (VIA[c.get("via", "conn")], METH[(c["mode"], bool(c["strict"]))], sh_t,
                                             clist([cstr(x) for x in c["cols"]]), rows, status_term(o), dest, tx_obs_term(o))


STREAM_ST = {"nil": "(Ok tt)", "notfound": "(Err 1%nat)", "notmatch": "(Err 2%nat)", "unsupported": "(Err 3%nat)",
             "unavailable": "(Err 5%nat)", "panic": "Panic"}
STREAM_METH = {"row": "MQueryRow", "rowp": "MQueryRowPartial", "rows": "MQueryRows", "rowsp": "MQueryRowsPartial"}


def encode_stream(case, obs):
    ops = clist(["(%s, %s)" % (STREAM_METH[o.split(":")[0]], cbool(o.endswith(":st"))) for o in case["ops"]])
    st = clist([STREAM_ST.get(x, "(Err 9%nat)") for x in obs.get("st", [])])
    return "CStream %s %s (%s)" % (ops, st, encode_orm(case["final"], obs.get("final") or {"error": "missing"}))


def encode(case, obs):
    if case["t"] == "orm" and case.get("rowerr"):
        return "CRowErr (%s)" % encode_orm(case, obs)
    if case["t"] == "stream":
        return encode_stream(case, obs)
    if case["t"] == "pair":
        return "CPair (%s) (%s)" % (encode_orm(case["first"], obs.get("first") or {"error": "missing"}),
                                    encode_orm(case["second"], obs.get("second") or {"error": "missing"}))
    return encode_tx(case, obs) if case["t"] == "tx" else encode_orm(case, obs)


# ------------------------------------------------------------------------------------------ evidence
def nontrivial(case, obs):
    if case["t"] in ("pair", "stream"):
        return True
    if case["t"] == "tx":
        return any(c.startswith("begin:ok") for c in obs.get("calls", []))
    e = case["shape"]["e"]
    good = (case["mode"] == "rows") == (case["shape"]["d"] == "slice")
    return good and bool(case["rows"]) and not e.get("other")


def bucket(case, obs):
    if case["t"] == "stream":
        return ["stream", "stream:n=%d" % len(case["ops"])] + sorted({"stream:st=" + x for x in obs.get("st", [])})
    if case["t"] == "pair":
        return ["pair", "pair:%s->%s" % (case["first"]["decl"], case["second"]["decl"]),
                "pair:via=%s->%s" % (case["first"]["via"], case["second"]["via"])]
    if case["t"] == "tx":
        out = ["tx", "tx:stmts=%d" % min(len(case["stmts"]), 3), "tx:final=" + case["final"]["k"],
               "tx:begin=" + case["begin"]["k"], "tx:commit=" + case["commit"], "tx:rollback=" + case["rollback"],
               "tx:api=" + case.get("api", "transact"), "tx:log=%d%s" % (case.get("log", 0), "+slow" if case.get("slow") else "")]
        for st in case["stmts"]:
            if st["fault"] != "none":
                out.append("tx:stmt-fault=%s/%s" % (st["op"], st["fault"]))
        out.append("tx:runs=%s" % obs.get("runs"))
        if case.get("api", "").endswith("ctx"):
            out.append("tx:ctx=%s/%s" % (case.get("cx", "live"), "bound" if case.get("bound") else "plain"))
        calls = obs.get("calls", [])
        out.append("tx:terminal=" + ("commit" if any(c.startswith("commit") for c in calls) else
                                     "rollback" if any(c.startswith("rollback") for c in calls) else "none"))
        out.append("tx:result=" + ("nil" if obs.get("err") is None else "error"))
        return out
    e = case["shape"]["e"]
    if case.get("rowerr"):
        return ["orm", "orm:rowerr", "orm:rowerr:via=" + case.get("via", "conn"),
                "obs:err=" + ((obs.get("err") or {}).get("is") or "nil")]
    out = ["orm", "orm:" + case["mode"], "orm:strict" if case["strict"] else "orm:partial", "orm:rows=%d" % len(case["rows"]),
           "orm:via=" + case.get("via", "conn"), "orm:ctxform" if case.get("ctx") else "orm:plainform"]
    if obs.get("tx") is not None:
        calls = obs["tx"].get("calls", [])
        out.append("orm:tx-terminal=" + ("commit" if any(x.startswith("commit") for x in calls) else
                                          "rollback" if any(x.startswith("rollback") for x in calls) else "none"))
    if e.get("fs") is not None:
        fs = e["fs"]
        tags = [tag_name(f) for f in fs]
        out.append("orm:tagged" if fs and all(tags) else ("orm:untagged" if not all_tags(fs) else "orm:mixed"))
        if any("emb" in f for f in fs):
            out.append("orm:embedded")
        out.append("orm:cols%sfields" % ("<" if len(case["cols"]) < len(flatten(fs)) else ">" if len(case["cols"]) > len(flatten(fs)) else "="))
    elif e.get("other"):
        out.append("orm:unsupported-dest")
    else:
        out.append("orm:primitive")
    if obs.get("panic") is not None:
        out.append("obs:panic")
    elif obs.get("err") is None:
        out.append("obs:ok")
    else:
        out.append("obs:err=" + (obs["err"].get("is") or "scan"))
    return out


def explain(case, obs):
    if case["t"] == "stream":
        bad = [i for i, (o, x) in enumerate(zip(case["ops"], obs.get("st", []))) if x != ("nil" if o.startswith("rows") else "notfound")]
        return ("a run of %d queries hitting an empty result on one breaker-guarded conn: query #%s did not report %s, or the "
                "following query for an existing row was not answered"
                % (len(case["ops"]), bad[0] if bad else "-", "ErrNotFound / nil"))
    if case["t"] == "pair":
        return ("two queries in one process into two different struct types of the same name (%s then %s): one of them was "
                "not filled by the db tags of ITS OWN type (C11.Exec.spec_orm on each query separately)"
                % (case["first"]["decl"], case["second"]["decl"]))
    if case["t"] == "tx":
        return ("observed Transact behaviour contradicts C11.Spec.tx_allowed: with these driver faults and this body the "
                "returned error / the Begin-Exec-Commit-Rollback log is not the one the outcome table allows "
                "(nil result <=> exactly one successful Commit; otherwise exactly one Rollback and a non-nil result)")
    if case.get("rowerr"):
        return ("single-row query on a result set that FAILS on its first rows.Next() (entry point '%s'): the driver's error must "
                "come back - not ErrNotFound, not nil - and inside Transact the transaction must roll back" % case.get("via", "conn"))
    return ("observed query result contradicts C11.Exec.spec_orm: destination not filled by column name / by position, "
            "missing ErrNotFound on an empty result, strict form accepted fewer columns than fields / partial form rejected them, "
            "on entry point '%s'; or a query failing inside Transact did not lead to exactly one Rollback" % case.get("via", "conn"))


def shrink(v):
    return v
