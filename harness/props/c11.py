"""C11 SQL sessions: transaction fault/body scripts and destination shapes x result sets.

Two kinds of cases (field "t"):
  tx  : driver faults (begin/commit/rollback) x body script (statements that may fail, the body's
        reaction, final outcome nil/err/panic), run through Transact / TransactCtx on a recording
        SQL driver; observed: returned error, driver call log, escaped panic.
  orm : destination shape (primitive / struct with db tags, pointer fields, embedded structs /
        slices of them, materialised with reflect.StructOf) x result set (sqlmock.NewRows), run
        through QueryRow(s)[Partial] (plain or Ctx form) on each entry point family ("via"): conn,
        statement prepared on conn, transaction session, statement prepared on the transaction
        session; observed: error class / panic, canonical destination dump, and for the two
        transaction families Transact's result and the begin/commit/rollback log.
"""
import itertools
import re

from vlib import cZ, cnat, cbool, clist, copt, cstr

ID = "C11"
GO_PKG = "./lib/store/sqlx"
GEN_SPEC = {"imports": ["From God Require Import C11.GenEnv."], "items": [
    {"kind": "calls", "file": "lib/store/sqlx/tx.go", "func": "transactOnConn", "as": "tx_skeleton"},
    {"kind": "calls", "file": "lib/store/sqlx/tx.go", "func": "transact", "as": "transact_skeleton"},
    {"kind": "calls", "file": "lib/store/sqlx/conn.go", "func": "commonConn.TransactCtx", "as": "transactctx_skeleton"},
    {"kind": "func", "file": "lib/store/sqlx/conn.go", "name": "commonConn.acceptable", "as": "acceptable",
     "calls": {"db.accept": "ext_accept"}},
    {"kind": "const", "file": "lib/store/sqlx/orm.go", "name": "tagName"},
]}
# (method -> strict literal handed to unmarshalRow(s)) for every receiver, and plain form -> Ctx form
RECVS = [("conn", "commonConn", "lib/store/sqlx/conn.go"), ("stmt", "statement", "lib/store/sqlx/conn.go"),
         ("tx", "txSession", "lib/store/sqlx/tx.go")]
for _short, _typ, _file in RECVS:
    for _m in ("QueryRow", "QueryRowPartial", "QueryRows", "QueryRowsPartial"):
        GEN_SPEC["items"].append({"kind": "chain", "file": _file, "func": "%s.%sCtx" % (_typ, _m),
                                  "call": "unmarshalRows" if "Rows" in _m else "unmarshalRow",
                                  "as": "flag_%s_%s" % (_short, _m)})
        GEN_SPEC["items"].append({"kind": "calls", "file": _file, "func": "%s.%s" % (_typ, _m),
                                  "as": "plain_%s_%s" % (_short, _m)})
QUICK_N = 300          # orm base cases (each run through the 4 entry point families); + 504 exhaustive tx cases
THOROUGH_N = 5000
SHARD = 400
DRIVER_TIMEOUT = 600
RULE = ("tx: all 8 begin/commit/rollback fault combinations x all bodies of 0-2 statements (each ok / failing with the "
        "body returning, ignoring or panicking) x final outcome nil/err/panic (504 cases, exhaustive) plus random bodies "
        "of 3-6 statements, via Transact or TransactCtx on a recording SQL driver; "
        "orm: random destination shapes (int64/string/sql.NullInt64/plain-struct fields, pointer fields, embedded "
        "structs to depth 2, all-tagged / untagged / mixed, tag options, rare duplicate tags; primitives; slices of "
        "values or pointers; unsupported destinations) x result sets (columns = permuted subset of the tags plus "
        "extras, or arity nf-2..nf+1 for untagged; 0-3 rows; cells typed for the intended field with 15% noise incl. "
        "NULL) x strict/partial x row/rows, plus permutation families of the same (shape, rows); every orm case is run "
        "(together with a fixed arity/order boundary stream of 24 cases x 4 entry points x plain/Ctx) "
        "through all 4 entry point families (conn, stmt on conn, tx session, stmt on tx session), plain or Ctx form at random; "
        "non-trivial = tx case that began, or orm case with at least one row reaching a struct/primitive destination; "
        "distinct = distinct canonical case JSON")
TRUSTED = ["database/sql Rows.Scan / convertAssign for int64, string, sql.NullInt64 and struct destinations "
           "(Model.conv, Model.scan); generated strings are non-numeric so string->int64 always fails",
           "go-sqlmock delivers the rows it was given; the recording SQL driver in verif_driver_test.go logs every "
           "Begin/Exec/Commit/Rollback it receives",
           "googleBreaker lets every call of a fresh connection through (passed = true in the cases; the rejected branch "
           "is covered by c11_breaker_rejected only)"]
ASSUMPTIONS = ["db.provider() of NewConnFromDB cannot fail (transact's provider-error branch is not exercised)",
               "untagged destination with more columns than flattened fields panics (index out of range): modelled as "
               "Panic, excluded from the theorems by hypothesis, spec_ok silent (DESIGN section 7 observation)",
               "destinations start as the zero value; unexported fields and pointer-to-pointer fields are not generated"]

# ------------------------------------------------------------------------------------------ tx
STMT_KINDS = [
    {"fail": False, "react": "return", "p": 0},
    {"fail": True, "react": "return", "p": 0},
    {"fail": True, "react": "ignore", "p": 0},
    {"fail": True, "react": "panic", "p": 3},
]
FINALS = [{"k": "nil", "n": 0}, {"k": "err", "n": 7}, {"k": "panic", "n": 9}]


def tx_exhaustive(rng):
    out = []
    for b, c, r in itertools.product([False, True], repeat=3):
        for n in (0, 1, 2):
            for stmts in itertools.product(STMT_KINDS, repeat=n):
                for fin in FINALS:
                    out.append({"t": "tx", "begin": b, "commit": c, "rollback": r, "stmts": [dict(s) for s in stmts],
                                "final": dict(fin), "api": rng.choice(["transact", "transactctx"])})
    return out


def tx_random(rng, n):
    out = []
    for _ in range(n):
        stmts = []
        for _ in range(rng.randint(3, 6)):
            s = dict(rng.choice(STMT_KINDS + [STMT_KINDS[0]] * 3))
            if s["react"] == "panic":
                s["p"] = rng.randrange(50)
            stmts.append(s)
        fin = dict(rng.choice(FINALS))
        fin["n"] = rng.randrange(50) if fin["k"] != "nil" else 0
        out.append({"t": "tx", "begin": rng.random() < 0.1, "commit": rng.random() < 0.4, "rollback": rng.random() < 0.4,
                    "stmts": stmts, "final": fin, "api": rng.choice(["transact", "transactctx"])})
    return out


# ------------------------------------------------------------------------------------------ orm
TAGS = list("abcdefgh")
KINDS = ["int"] * 9 + ["str"] * 6 + ["nint"] * 3 + ["opaque"]


def gen_fields(rng, depth, tagmode, pool, n=None):
    """tagmode: 'all' | 'none' | 'mixed' (applies to this level; inner levels random unless 'none')."""
    n = rng.randint(1, 4) if n is None else n
    fs = []
    for _ in range(n):
        if tagmode == "all":
            tag = pool.pop() if pool else "z"
            if rng.random() < 0.12:
                tag += rng.choice([",omitempty", ",x,y", ","])
        elif tagmode == "mixed":
            tag = (pool.pop() if pool else "z") if rng.random() < 0.5 else rng.choice(["", ",opt"])
        else:
            tag = ""
        ptr = rng.random() < 0.3
        if depth < 2 and rng.random() < 0.18:
            inner_mode = "none" if tagmode == "none" else rng.choice(["all", "none", "mixed"])
            sub = gen_fields(rng, depth + 1, inner_mode, pool, n=rng.randint(0, 3))
            fs.append({"tag": tag, "ptr": ptr, "emb": sub})
        else:
            fs.append({"tag": tag, "ptr": ptr, "k": rng.choice(KINDS)})
    return fs


def flatten(fs):
    out = []
    for f in fs:
        if "emb" in f:
            out.extend(flatten(f["emb"]))
        else:
            out.append(f["k"])
    return out


def tag_name(f):
    return f["tag"].split(",")[0]


def gen_cell(rng, kind, noise=0.15):
    if kind is None or rng.random() < noise:
        return rng.choice([None, rng.randrange(-50, 1000), "s%d" % rng.randrange(100), "", -1, 0])
    if kind == "int":
        return rng.choice([rng.randrange(-1000, 100000), 0, 1, -1, 2 ** 40 + rng.randrange(100)])
    if kind == "str":
        return rng.choice(["s%d" % rng.randrange(1000), "", "x y", rng.randrange(100)])
    if kind == "nint":
        return rng.choice([None, rng.randrange(-5, 500)])
    return rng.choice([None, 1, "o"])


def gen_struct_case(rng):
    r = rng.random()
    tagmode = "all" if r < 0.55 else ("none" if r < 0.88 else "mixed")
    pool = TAGS[:]
    rng.shuffle(pool)
    fs = gen_fields(rng, 0, tagmode, pool)
    if tagmode == "all" and len(fs) > 1 and rng.random() < 0.05:
        fs[-1]["tag"] = fs[0]["tag"]                       # duplicate tag
    kinds = flatten(fs)
    nf = len(kinds)
    if tagmode == "all":
        named = {tag_name(f): (f.get("k") if "emb" not in f else "opaque") for f in fs}
        names = list(named)
        rng.shuffle(names)
        k = rng.choice([len(names), len(names), len(names), rng.randint(0, len(names))])
        cols = names[:k]
        for _ in range(rng.choice([0, 0, 1, 2, 4])):
            cols.append(rng.choice(["x", "y", "w", "id", "v"]) + str(rng.randrange(3)))
        if cols and rng.random() < 0.05:
            cols.append(cols[0])                           # duplicate column name
        if not cols:
            cols = ["x0"]
        rng.shuffle(cols)
        ckinds = [named.get(c) for c in cols]
    else:
        nc = max(1, rng.choice([nf, nf, nf, nf - 1, nf - 2, nf + 1]))
        cols = ["c%d" % i for i in range(nc)]
        if rng.random() < 0.3:
            rng.shuffle(cols)
        ckinds = [(kinds[i] if i < nf else None) for i in range(nc)]
    return fs, cols, ckinds


def gen_rows(rng, ckinds):
    nrows = rng.choice([0, 1, 1, 1, 1, 2, 3])
    noise = rng.choice([0.0, 0.0, 0.15, 0.3])
    return [[gen_cell(rng, k, noise) for k in ckinds] for _ in range(nrows)]


def gen_orm(rng):
    r = rng.random()
    mode = rng.choice(["row", "rows"])
    strict = rng.random() < 0.6
    if r < 0.78:
        fs, cols, ckinds = gen_struct_case(rng)
        e = {"fs": fs}
    elif r < 0.94:
        k = rng.choice(["int", "str"])
        e = {"k": k}
        nc = rng.choice([1, 1, 1, 1, 2, 3])
        cols = ["c%d" % i for i in range(nc)]
        ckinds = [k] * nc
    else:
        e = {"other": True}
        cols = ["c0"]
        ckinds = [None]
    good = rng.random() < 0.93
    if (mode == "rows") == good:
        shape = {"d": "slice", "ptr": rng.random() < 0.5, "e": e}
    else:
        shape = {"d": "elem", "ptr": False, "e": e}
    return {"t": "orm", "mode": mode, "strict": strict, "shape": shape, "cols": cols, "rows": gen_rows(rng, ckinds)}


def permute_case(c, perm):
    d = dict(c)
    d["cols"] = [c["cols"][i] for i in perm]
    d["rows"] = [[row[i] for i in perm] for row in c["rows"]]
    return d


def gen_family(rng, maxperms):
    """the same tagged shape and rows under several column orders"""
    while True:
        c = gen_orm(rng)
        e = c["shape"]["e"]
        if "fs" in e and all(tag_name(f) for f in e["fs"]) and 2 <= len(c["cols"]) <= 5 and c["rows"]:
            break
    perms = list(itertools.permutations(range(len(c["cols"]))))
    rng.shuffle(perms)
    return [permute_case(c, p) for p in perms[:maxperms]]


def generate(rng, tier, n):
    cases = []
    if tier != "search":
        cases += tx_exhaustive(rng)
        cases += tx_random(rng, 60 if tier == "quick" else 600)
    else:
        cases += tx_random(rng, 40)
    nfam = max(1, n // 30) if tier != "thorough" else max(1, n // 100)
    for _ in range(nfam):
        cases += gen_family(rng, 4 if tier != "thorough" else 120)
    while len([c for c in cases if c["t"] == "orm"]) < n:
        cases.append(gen_orm(rng))
    out = via_all(rng, cases)
    if tier != "search":
        for c in boundary_orm():                       # boundary stream: every entry point, plain AND Ctx form
            for via in VIAS:
                for ctx in (False, True):
                    d = dict(c)
                    d["via"], d["ctx"] = via, ctx
                    out.append(d)
    return out


VIAS = ("conn", "stmt", "tx", "txstmt")


def via_all(rng, cases):
    """every orm case goes through each entry point family; plain or Ctx form at random"""
    out = []
    for c in cases:
        if c["t"] != "orm":
            out.append(c)
            continue
        for via in VIAS:
            d = dict(c)
            d["via"] = via
            d["ctx"] = rng.random() < 0.5
            out.append(d)
    return out


def boundary_orm():
    """arity / order boundary: tagged and untagged 2-field structs with exact, swapped, short and empty results"""
    out = []
    two = [{"tag": "a", "ptr": False, "k": "int"}, {"tag": "b", "ptr": False, "k": "int"}]
    two_u = [{"tag": "", "ptr": False, "k": "int"}, {"tag": "", "ptr": False, "k": "int"}]
    for strict in (False, True):
        for mode, d in (("row", "elem"), ("rows", "slice")):
            sh = {"d": d, "ptr": False, "e": {"fs": two}}
            shu = {"d": d, "ptr": False, "e": {"fs": two_u}}
            out.append({"t": "orm", "mode": mode, "strict": strict, "shape": sh, "cols": ["b", "a"], "rows": [[1, 2]]})
            out.append({"t": "orm", "mode": mode, "strict": strict, "shape": sh, "cols": ["a", "b"], "rows": [[1, 2]]})
            out.append({"t": "orm", "mode": mode, "strict": strict, "shape": sh, "cols": ["b"], "rows": [[5]]})
            out.append({"t": "orm", "mode": mode, "strict": strict, "shape": sh, "cols": ["a", "b"], "rows": []})
            out.append({"t": "orm", "mode": mode, "strict": strict, "shape": shu, "cols": ["x", "y"], "rows": [[1, 2]]})
            out.append({"t": "orm", "mode": mode, "strict": strict, "shape": shu, "cols": ["x"], "rows": [[5]]})
    return out


def search(rng, problems):
    """directed cases: every fault combination with a panicking / failing / clean body; exact-arity shapes"""
    out = []
    for b, c, r in itertools.product([False, True], repeat=3):
        for fin in FINALS:
            out.append({"t": "tx", "begin": b, "commit": c, "rollback": r, "stmts": [], "final": dict(fin), "api": "transact"})
            out.append({"t": "tx", "begin": b, "commit": c, "rollback": r, "stmts": [dict(STMT_KINDS[0])], "final": dict(fin),
                        "api": "transactctx"})
    out += boundary_orm()
    return via_all(rng, out)


# ------------------------------------------------------------------------------------------ encode
SENT = {"begin": "EBegin", "commit": "ECommit", "rollback": "ERollback", "unavailable": "EUnavailable"}


def sent_term(name):
    if name in SENT:
        return SENT[name]
    m = re.match(r"^(exec|body):(\d+)$", name or "")
    if m and int(m.group(2)) < 5000:
        return "(%s %s)" % ("EExec" if m.group(1) == "exec" else "EBody", cnat(int(m.group(2))))
    return None


def msg_term(msg):
    m = re.match(r"^E:(.+)$", msg)
    return (sent_term(m.group(1)) if m else None) or "EOther"


def err_term(e):
    if e is None:
        return "None"
    t = sent_term(e.get("is", ""))
    if t is None:
        msg = e.get("msg", "")
        unwrapped = sent_term(e.get("unwrap", "")) if e.get("unwrap") else None
        m1 = re.match(r"^事务发生恐慌：P:(\d+)，回滚也失败了：(.*)$", msg)
        m2 = re.match(r"^事务发生恐慌：P:(\d+)$", msg)
        m3 = re.match(r"^事务失败了：(.*)，回滚也失败了：(.*)$", msg)
        if m1 and unwrapped == msg_term(m1.group(2)) and int(m1.group(1)) < 5000:
            t = "(EPanicJoin %s %s)" % (cnat(int(m1.group(1))), unwrapped)
        elif m2 and int(m2.group(1)) < 5000:
            t = "(EPanic %s)" % cnat(int(m2.group(1)))
        elif m3 and unwrapped == msg_term(m3.group(2)):
            t = "(EJoin %s %s)" % (msg_term(m3.group(1)), unwrapped)
        else:
            t = "EOther"
    return "(Some %s)" % t


def call_term(s):
    parts = s.split(":")
    ok = cbool(parts[-1] == "ok")
    if parts[0] == "exec":
        return "Exec %s %s" % (cnat(int(parts[1])), ok)
    return "%s %s" % ({"begin": "Begin", "commit": "Commit", "rollback": "Rollback"}[parts[0]], ok)


def react_term(s):
    return {"return": "RReturn", "ignore": "RIgnore"}.get(s["react"]) or "(RPanic %s)" % cnat(s["p"])


def final_term(f):
    if f["k"] == "nil":
        return "ONil"
    if f["k"] == "err":
        return "(OErr (EBody %s))" % cnat(f["n"])
    return "(OPanic %s)" % cnat(f["n"])


def encode_tx(c, o):
    stmts = clist(["mkstmt %s %s" % (cbool(s["fail"]), react_term(s)) for s in c["stmts"]])
    esc = o.get("escaped")
    if "driver_panic" in o or "error" in o:
        esc_t = "(Some 4999%nat)"
    elif esc is None:
        esc_t = "None"
    else:
        m = re.match(r"^P:(\d+)$", esc)
        esc_t = "(Some %s)" % cnat(int(m.group(1)) if m and int(m.group(1)) < 4999 else 4999)
    return "CTx (mkfaults %s %s %s) (mkbody %s %s) %s %s %s" % (
        cbool(c["begin"]), cbool(c["commit"]), cbool(c["rollback"]), stmts, final_term(c["final"]),
        err_term(o.get("err")), clist([call_term(s) for s in o.get("calls", [])]), esc_t)


KIND = {"int": "KInt", "str": "KStr", "nint": "KNInt", "opaque": "KOpaque"}


def field_term(f):
    if "emb" in f and f["emb"] is not None:
        return "FEmb %s %s %s" % (cstr(f["tag"]), cbool(f["ptr"]), clist([field_term(x) for x in f["emb"]]))
    return "FLeaf %s %s %s" % (cstr(f["tag"]), cbool(f["ptr"]), KIND[f["k"]])


def elem_term(e):
    if e.get("fs") is not None:
        return "(EStruct %s)" % clist([field_term(f) for f in e["fs"]])
    if e.get("other"):
        return "EUnsup"
    return "(EPrim %s)" % KIND[e["k"]]


def cell_term(x):
    if x is None:
        return "CNull"
    if isinstance(x, str):
        return "(CStr %s)" % cstr(x)
    return "(CInt %s)" % cZ(x)


def leaf_term(x):
    if x is None:
        return "None"
    if "i" in x:
        return "(Some (LInt %s))" % cZ(x["i"])
    if "s" in x:
        return "(Some (LStr %s))" % cstr(x["s"])
    if "n" in x:
        return "(Some (LNInt %s %s))" % (cbool(x["n"][0]), cZ(x["n"][1]))
    return "(Some LOpaque)" if x.get("o") == 0 else "(Some (LInt 424242))"


def status_term(o):
    if o.get("panic") is not None or "driver_panic" in o or "error" in o:
        return "Panic"
    e = o.get("err")
    if e is None:
        return "(Ok tt)"
    code = {"notfound": 1, "notmatch": 2, "unsupported": 3}.get(e.get("is", ""))
    if code is None:
        code = 4 if (not e.get("is") and e.get("msg", "").startswith("sql: ")) else 9
    return "(Err %d%%nat)" % code


METH = {("row", True): "MQueryRow", ("row", False): "MQueryRowPartial",
        ("rows", True): "MQueryRows", ("rows", False): "MQueryRowsPartial"}
VIA = {"conn": "VConn", "stmt": "VStmt", "tx": "VTx", "txstmt": "VTxStmt"}


def tx_obs_term(o):
    """Transact's result around a query body: nil, the query's own error (same object), or the recover branch's error"""
    t = o.get("tx")
    if t is None:
        return "None"
    e = t.get("err")
    if e is None:
        r = "None"
    elif t.get("same"):
        st = status_term(o)
        m = re.match(r"^\(Err (\d+)%nat\)$", st)
        r = "(Some (EBody %s%%nat))" % m.group(1) if m else "(Some EOther)"
    elif re.match(r"^事务发生恐慌：", e.get("msg", "")) and not e.get("unwrap") and "回滚也失败了" not in e.get("msg", ""):
        r = "(Some (EPanic 0%nat))"
    else:
        r = "(Some EOther)"
    return "(Some (%s, %s, %s))" % (r, clist([call_term(x) for x in t.get("calls", [])]), cbool(t.get("escaped", False)))


def encode_orm(c, o):
    sh = c["shape"]
    sh_t = ("(DSlice %s %s)" % (cbool(sh["ptr"]), elem_term(sh["e"]))) if sh["d"] == "slice" else "(DElem %s)" % elem_term(sh["e"])
    rows = clist([clist([cell_term(x) for x in r]) for r in c["rows"]])
    dest = clist([clist([leaf_term(x) for x in el]) for el in o.get("dest", [])])
    return "COrm %s %s %s %s %s %s %s %s" % (VIA[c.get("via", "conn")], METH[(c["mode"], bool(c["strict"]))], sh_t,
                                             clist([cstr(x) for x in c["cols"]]), rows, status_term(o), dest, tx_obs_term(o))


def encode(case, obs):
    return encode_tx(case, obs) if case["t"] == "tx" else encode_orm(case, obs)


# ------------------------------------------------------------------------------------------ evidence
def nontrivial(case, obs):
    if case["t"] == "tx":
        return not case["begin"]
    e = case["shape"]["e"]
    good = (case["mode"] == "rows") == (case["shape"]["d"] == "slice")
    return good and bool(case["rows"]) and not e.get("other")


def bucket(case, obs):
    if case["t"] == "tx":
        out = ["tx", "tx:stmts=%d" % min(len(case["stmts"]), 3), "tx:final=" + case["final"]["k"],
               "tx:faults=%d%d%d" % (case["begin"], case["commit"], case["rollback"])]
        calls = obs.get("calls", [])
        out.append("tx:terminal=" + ("commit" if any(c.startswith("commit") for c in calls) else
                                     "rollback" if any(c.startswith("rollback") for c in calls) else "none"))
        out.append("tx:result=" + ("nil" if obs.get("err") is None else "error"))
        return out
    e = case["shape"]["e"]
    out = ["orm", "orm:" + case["mode"], "orm:strict" if case["strict"] else "orm:partial", "orm:rows=%d" % len(case["rows"]),
           "orm:via=" + case.get("via", "conn"), "orm:ctxform" if case.get("ctx") else "orm:plainform"]
    if obs.get("tx") is not None:
        calls = obs["tx"].get("calls", [])
        out.append("orm:tx-terminal=" + ("commit" if any(x.startswith("commit") for x in calls) else
                                          "rollback" if any(x.startswith("rollback") for x in calls) else "none"))
    if e.get("fs") is not None:
        fs = e["fs"]
        tags = [tag_name(f) for f in fs]
        out.append("orm:tagged" if fs and all(tags) else ("orm:untagged" if not any(f["tag"] for f in fs) else "orm:mixed"))
        if any("emb" in f for f in fs):
            out.append("orm:embedded")
        out.append("orm:cols%sfields" % ("<" if len(case["cols"]) < len(flatten(fs)) else ">" if len(case["cols"]) > len(flatten(fs)) else "="))
    elif e.get("other"):
        out.append("orm:unsupported-dest")
    else:
        out.append("orm:primitive")
    if obs.get("panic") is not None:
        out.append("obs:panic")
    elif obs.get("err") is None:
        out.append("obs:ok")
    else:
        out.append("obs:err=" + (obs["err"].get("is") or "scan"))
    return out


def explain(case, obs):
    if case["t"] == "tx":
        return ("observed Transact behaviour contradicts C11.Spec.tx_allowed: with these driver faults and this body the "
                "returned error / the Begin-Exec-Commit-Rollback log is not the one the outcome table allows "
                "(nil result <=> exactly one successful Commit; otherwise exactly one Rollback and a non-nil result)")
    return ("observed query result contradicts C11.Exec.spec_orm: destination not filled by column name / by position, "
            "missing ErrNotFound on an empty result, strict form accepted fewer columns than fields / partial form rejected them, "
            "on entry point '%s'; or a query failing inside Transact did not lead to exactly one Rollback" % case.get("via", "conn"))


def shrink(v):
    return v
