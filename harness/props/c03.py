"""C03 HTTP routing: route tables x requests against api/router (patRouter) and lib/search (Tree).

case (router): {"kind":"router","nf":bool,"regs":[{"m","p"}],"reqs":[{"m","p"}]}
case (tree):   {"kind":"tree","adds":[route],"reqs":[route]}
"""
import itertools

import vlib
from vlib import cnat, cbool, clist, cpair, cstr, cbytes

ID = "C03"
GO_PKG = "./api/router"
GO_PKG_TREE = "./lib/search"
GO_PKG_ENGINE = "./api"
GEN_SPEC = {"imports": ["From God Require Import C03.GenEnv."], "items": [
    {"kind": "func", "file": "api/router/patrouter.go", "name": "validMethod"},
    {"kind": "const", "file": "api/router/patrouter.go", "name": "allowHeader"},
    {"kind": "const", "file": "api/router/patrouter.go", "name": "allowMethodSeparator"},
    {"kind": "const", "file": "lib/search/tree.go", "name": "slash"},
    {"kind": "const", "file": "lib/search/tree.go", "name": "colon"},
    {"kind": "calls", "file": "api/router/patrouter.go", "func": "patRouter.ServeHTTP", "as": "serve_calls"},
    {"kind": "calls", "file": "api/router/patrouter.go", "func": "patRouter.Handle", "as": "handle_calls"},
    {"kind": "calls", "file": "api/router/patrouter.go", "func": "patRouter.methodsAllowed", "as": "allowed_calls"},
    {"kind": "calls", "file": "lib/search/tree.go", "func": "Tree.next", "as": "next_calls"},
    {"kind": "calls", "file": "lib/search/tree.go", "func": "add", "as": "add_calls"},
    {"kind": "calls", "file": "lib/search/tree.go", "func": "Tree.Add", "as": "tree_add_calls"},
    {"kind": "calls", "file": "lib/search/tree.go", "func": "Tree.Search", "as": "tree_search_calls"},
    {"kind": "calls", "file": "lib/search/tree.go", "func": "node.forEach", "as": "foreach_calls"},
    {"kind": "chain", "file": "api/engine.go", "func": "engine.bindRoute", "call": "router.Handle", "as": "bind_handle_args"},
    {"kind": "chain", "file": "api/server.go", "func": "WithPrefix", "call": "path.Join", "as": "prefix_join_args"},
    {"kind": "calls", "file": "api/engine.go", "func": "engine.bindRoutes", "as": "bind_routes_calls"},
    {"kind": "calls", "file": "api/engine.go", "func": "engine.bindFeaturedRoutes", "as": "bind_featured_calls"},
    {"kind": "calls", "file": "api/engine.go", "func": "engine.addRoutes", "as": "add_routes_calls"},
    {"kind": "calls", "file": "api/server.go", "func": "Server.AddRoutes", "as": "server_add_routes_calls"},
    {"kind": "calls", "file": "api/server.go", "func": "WithPrefix", "as": "with_prefix_calls"},
]}
QUICK_N = 300
THOROUGH_N = 2000
SHARD = 50
COQ_FILES = ["theories/C03/Props.v", "theories/C03/Link.v", "theories/C03/Engine.v", "theories/C03/Determ.v", "theories/C03/Table.v",
             "theories/C03/Proofs.v", "theories/C03/Path.v"]
COQ_TARGETS = ["theories/C03/Props.v", "theories/C03/Link.v", "theories/C03/Exec.v"]
RULE = ("route tables of 1-12 registrations over segments {a,b,c,:x,:y,:z} (depth 0-4, shared prefixes, "
        "literal/param alternatives that force backtracking, duplicates, dirty and unrooted paths, the 7 "
        "methods plus invalid ones), ~60 requests each (instances and near-misses of the patterns, random paths "
        "over {a,b,c,d} of depth <= 4, dirty paths with '//', '/./', '/../', trailing '/', unrooted paths; "
        "exhaustive depth <= 3 for small tables); ~12% of the cases drive lib/search's Tree directly with raw "
        "routes; ~20% register through api.engine / api.Server (AddRoutes groups, WithPrefix, relative / empty / "
        "dirty paths, duplicates across groups, bad methods; bindRoutes on a fresh router, every Router.Handle "
        "call recorded) and serve the requests through the bound router; thorough adds every 1-2 route table over patterns of depth <= 2 x every path of depth <= 3; "
        "non-trivial = some handler ran with path variables and some request got 404/405; distinct = distinct case JSON")
TRUSTED = ["net/http request construction (driver sets r.Method / r.URL.Path directly) and httptest.ResponseRecorder",
           "path.Clean re-implemented as C03.Path.clean and compared with Go's result on every registered and requested path",
           "net/http method constants as written in C03/GenEnv.v"]
ASSUMPTIONS = ["handlers are non-nil (errEmptyItem not exercised through the router)",
               "default not-allowed handler (a custom SetNotAllowedHandler replaces the Allow header logic)"]

METHODS = ["DELETE", "GET", "HEAD", "OPTIONS", "PATCH", "POST", "PUT"]
BAD_METHODS = ["get", "FOO", "", "CONNECT", "TRACE", "GET ", "Post"]
SEGS = ["a", "b", "c", ":x", ":y", ":z"]
LITS = ["a", "b", "c", "d"]


# ----------------------------------------------------------------------------- generation
def _pattern(rng, pats):
    """a pattern (list of segments); mostly derived from an earlier one so that prefixes are shared and
    literal / param alternatives overlap"""
    if pats and rng.random() < 0.75:
        base = list(rng.choice(pats))
        r = rng.random()
        if r < 0.35 and base:
            i = rng.randrange(len(base))         # swap one segment literal <-> param / other param
            base[i] = rng.choice(SEGS)
        elif r < 0.6 and len(base) < 4:
            base.append(rng.choice(SEGS))        # extend
        elif r < 0.75 and base:
            base.pop()                           # prefix
        elif r < 0.9 and base:
            k = rng.randrange(len(base))         # keep a prefix, new tail
            base = base[:k] + [rng.choice(SEGS) for _ in range(rng.randint(1, 4 - k))]
        return base[:4]
    return [rng.choice(SEGS) for _ in range(rng.choice([0, 1, 1, 2, 2, 2, 3, 3, 4]))]


def _dirty(rng, segs):
    """a path string for the segment list, possibly needing cleaning"""
    p = "/" + "/".join(segs)
    r = rng.random()
    if r < 0.7:
        return p
    parts = list(segs)
    out = ""
    for s in parts:
        k = rng.random()
        if k < 0.2:
            out += "//" + s
        elif k < 0.35:
            out += "/./" + s
        elif k < 0.5:
            out += "/" + rng.choice(LITS) + "/../" + s
        else:
            out += "/" + s
    if not parts:
        out = rng.choice(["/", "//", "/.", "/..", "/./", "/../", "/a/.."])
    elif rng.random() < 0.4:
        out += rng.choice(["/", "//", "/.", "/./"])
    return out


def _router_case(rng, tier):
    small = rng.random() < 0.2
    nreg = rng.randint(1, 3) if small else rng.randint(2, 12)
    ms = rng.sample(METHODS, rng.choice([1, 2, 2, 3, 3, 7]))
    pats, regs = [], []
    for _ in range(nreg):
        r = rng.random()
        if regs and r < 0.12:
            prev = rng.choice(regs)              # duplicate (maybe written differently / other method)
            segs = [s for s in prev["p"].split("/") if s not in ("", ".", "..")] if rng.random() < 0.5 else None
            p = _dirty(rng, segs) if segs is not None else prev["p"]
            m = prev["m"] if rng.random() < 0.8 else rng.choice(ms)
            regs.append({"m": m, "p": p})
            continue
        segs = _pattern(rng, pats)
        pats.append(segs)
        m = rng.choice(ms)
        p = _dirty(rng, segs)
        if r > 0.95:
            m = rng.choice(BAD_METHODS)
        elif r > 0.90:
            p = rng.choice(["", p[1:], "a/b", ".", "../a", ":x"])
        regs.append({"m": m, "p": p})
    reqs = []
    req_ms = ms + [rng.choice(METHODS), rng.choice(BAD_METHODS)]

    def method():
        return rng.choice(ms) if rng.random() < 0.8 else rng.choice(req_ms)
    if small:
        m0 = rng.choice(ms)
        for d in range(0, 4):
            for t in itertools.product(LITS, repeat=d):
                reqs.append({"m": m0, "p": "/" + "/".join(t)})
        for m in ms[:3]:
            reqs.append({"m": m, "p": "/"})
    n_inst = 30
    for _ in range(n_inst):
        if not pats:
            break
        segs = list(rng.choice(pats))
        segs = [rng.choice(LITS) if s.startswith(":") else s for s in segs]
        r = rng.random()
        if r < 0.3 and segs:
            segs[rng.randrange(len(segs))] = rng.choice(LITS)       # near miss
        elif r < 0.4:
            segs.append(rng.choice(LITS))
        elif r < 0.5 and segs:
            segs.pop()
        elif r < 0.55 and segs:
            segs[rng.randrange(len(segs))] = rng.choice([":x", ":y", ":", "a:x", "."])
        reqs.append({"m": method(), "p": _dirty(rng, segs) if rng.random() < 0.5 else "/" + "/".join(segs)})
    for _ in range(16):
        segs = [rng.choice(LITS) for _ in range(rng.randint(0, 4))]
        reqs.append({"m": method(), "p": "/" + "/".join(segs)})
    for _ in range(8):
        segs = [rng.choice(LITS) for _ in range(rng.randint(0, 3))]
        reqs.append({"m": method(), "p": _dirty(rng, segs)})
    for p in rng.sample(["", "a", "a/b", ".", "..", "../a", "/..", "/../..", "//", "/a/", "/a//", "/a/b/..", "/a/b/../..", "/./.", ":x", "/:x", "/a/:y"], 5):
        reqs.append({"m": method(), "p": p})
    return {"kind": "router", "nf": rng.random() < 0.3, "regs": regs, "reqs": reqs}


def _tree_case(rng, tier):
    pats, adds = [], []
    for _ in range(rng.randint(1, 10)):
        segs = _pattern(rng, pats)
        pats.append(segs)
        p = "/" + "/".join(segs)
        r = rng.random()
        if r < 0.12:
            p += "/"
        elif r < 0.2:
            p = p.replace("/", "//", 1) if rng.random() < 0.5 else p + "//" + rng.choice(SEGS)
        elif r < 0.25:
            p = rng.choice(["", p[1:], "a"])
        elif r < 0.33 and adds:
            p = rng.choice(adds)
        adds.append(p)
    reqs = []
    for _ in range(40):
        if pats and rng.random() < 0.7:
            segs = [rng.choice(LITS) if s.startswith(":") else s for s in rng.choice(pats)]
            if rng.random() < 0.3 and segs:
                segs[rng.randrange(len(segs))] = rng.choice(LITS)
        else:
            segs = [rng.choice(LITS) for _ in range(rng.randint(0, 4))]
        p = "/" + "/".join(segs)
        r = rng.random()
        if r < 0.15:
            p += "/"
        elif r < 0.22:
            p = p.replace("/", "//", 1)
        elif r < 0.25:
            p = p[1:]
        reqs.append(p)
    reqs += ["/", "//", ""]
    return {"kind": "tree", "adds": adds, "reqs": reqs}


def _exhaustive(rng):
    """every single-method table of 1-2 patterns of depth <= 2 x every path of depth <= 3 over {a,b,c,d}"""
    pats = [list(t) for d in range(0, 3) for t in itertools.product(SEGS, repeat=d)]
    paths = ["/" + "/".join(t) for d in range(0, 4) for t in itertools.product(LITS, repeat=d)]
    reqs = [{"m": "GET", "p": p} for p in paths]
    out = []
    for i, p1 in enumerate(pats):
        out.append({"kind": "router", "nf": False, "regs": [{"m": "GET", "p": "/" + "/".join(p1)}], "reqs": reqs})
        for p2 in pats[i + 1:]:
            out.append({"kind": "router", "nf": False,
                        "regs": [{"m": "GET", "p": "/" + "/".join(p1)}, {"m": "GET", "p": "/" + "/".join(p2)}], "reqs": reqs})
    return out


PREFIXES = ["/api", "/api/", "api", "", "/", "/v1/:x", "//g", "/a/..", "/a/b", "/a", ".", "/:y"]
REL_PATHS = ["a/b", ":id", "./x", "", "../a", "a", ".", "b/:z/"]


def _engine_case(rng, tier, clean=None):
    """route groups added through the engine; clean=True: only registrations that should be accepted"""
    if clean is None:
        clean = rng.random() < 0.45
    ms = rng.sample(METHODS, rng.choice([1, 2, 2, 3]))
    groups, pats, eff = [], [], []
    for _ in range(rng.randint(1, 3)):
        prefix = None
        if rng.random() < 0.5:
            prefix = rng.choice(["/api", "/api/", "/v1/:x", "/a/b", "/a", "/", "//g", "/:y"]) if clean or rng.random() < 0.7 else rng.choice(PREFIXES)
        routes = []
        for _ in range(rng.randint(1, 5)):
            segs = _pattern(rng, pats)
            pats.append(segs)
            m = rng.choice(ms)
            r = rng.random()
            if prefix is not None and prefix.startswith("/") and r < 0.45:
                p = "/".join(segs) + rng.choice(["", "", "/"]) if rng.random() < 0.8 else rng.choice(REL_PATHS)
            else:
                p = _dirty(rng, segs)
            if not clean:
                if r > 0.93:
                    m = rng.choice(BAD_METHODS)
                elif r > 0.86:
                    p = rng.choice(REL_PATHS)
                elif r > 0.80 and eff:
                    m, psegs = rng.choice(eff)          # duplicate of an earlier effective route
                    prefix_segs = [x for x in (prefix or "").split("/") if x not in ("", ".")]
                    if psegs[:len(prefix_segs)] == prefix_segs:
                        p = "/".join(psegs[len(prefix_segs):]) if prefix and prefix.startswith("/") else "/" + "/".join(psegs)
            routes.append({"m": m, "p": p})
            eff.append((m, [x for x in ((prefix or "") + "/" + p).split("/") if x not in ("", ".", "..")]))
        groups.append({"prefix": prefix, "routes": routes})
    reqs = []

    def method():
        return rng.choice(ms) if rng.random() < 0.8 else rng.choice(METHODS + BAD_METHODS[:2])
    for _ in range(30):
        segs = [rng.choice(LITS) if x.startswith(":") else x for x in rng.choice(eff)[1]]
        r = rng.random()
        if r < 0.25 and segs:
            segs[rng.randrange(len(segs))] = rng.choice(LITS)
        elif r < 0.35:
            segs.append(rng.choice(LITS))
        elif r < 0.45 and segs:
            segs.pop(0)                                    # the path without its prefix
        reqs.append({"m": method(), "p": _dirty(rng, segs) if rng.random() < 0.3 else "/" + "/".join(segs)})
    for _ in range(10):
        segs = [rng.choice(LITS + ["api", "g", "v1"]) for _ in range(rng.randint(0, 4))]
        reqs.append({"m": method(), "p": "/" + "/".join(segs)})
    for p in rng.sample(["", "a", "a/b", ":id", "/", "/api", "/api/", "x", "/x", "/./x", "/a/b/..", "api/a"], 5):
        reqs.append({"m": method(), "p": p})
    return {"kind": "engine", "via": "server" if rng.random() < 0.35 else "engine", "groups": groups, "reqs": reqs}


def generate(rng, tier, n):
    cases = []
    for _ in range(n):
        r = rng.random()
        cases.append(_tree_case(rng, tier) if r < 0.12 else _engine_case(rng, tier) if r < 0.32 else _router_case(rng, tier))
    if tier == "thorough":
        cases += _exhaustive(rng)
    return cases


def _r(m, p):
    return {"m": m, "p": p}


def search(rng, problems):
    """directed tables: backtracking after a failed literal branch, last-token item test, cleaning at
    registration, full Allow sets, duplicates"""
    out = []
    paths = ["/" + "/".join(t) for d in range(0, 4) for t in itertools.product(LITS, repeat=d)]
    tables = [
        [_r("GET", "/a/b"), _r("GET", "/:x/c")],
        [_r("GET", "/a/b/c"), _r("GET", "/a/:x/d"), _r("GET", "/:y/b/d")],
        [_r("GET", "/a/b"), _r("GET", "/a")],
        [_r("GET", "/a/b"), _r("GET", "/:x")],
        [_r("GET", "/a/b/c"), _r("GET", "/a/:x")],
        [_r("GET", "/a//b"), _r("GET", "/a/./c/"), _r("POST", "/b/../a/b")],
        [_r(m, "/a/:x") for m in METHODS],
        [_r(m, "/") for m in METHODS[:4]] + [_r("GET", "/:x")],
        [_r("GET", "/a/b"), _r("GET", "/a/b"), _r("GET", "/a//b"), _r("GET", "/a/b/"), _r("POST", "/a/b")],
        [_r("GET", "/:x/:x"), _r("GET", "/:x/:y/:x")],
        [_r("get", "/a"), _r("GET", "a"), _r("GET", ""), _r("TRACE", "/a")],
    ]
    for tb in tables:
        ms = sorted({r["m"] for r in tb}) + ["HEAD"]
        reqs = [{"m": m, "p": p} for m in ms[:3] for p in paths]
        reqs += [{"m": "GET", "p": p} for p in ["/a//b", "/a/b/", "/a/./b", "/a/c/../b", "a/b", ""]]
        out.append({"kind": "router", "nf": False, "regs": tb, "reqs": reqs})
    egroups = [
        [{"prefix": None, "routes": [_r("GET", "a/b")]}],
        [{"prefix": None, "routes": [_r("GET", "/c"), _r("GET", ":id"), _r("GET", "/d")]}],
        [{"prefix": None, "routes": [_r("GET", "")]}],
        [{"prefix": None, "routes": [_r("GET", "./x"), _r("POST", "../a")]}],
        [{"prefix": "api", "routes": [_r("GET", "/x")]}],
        [{"prefix": "", "routes": [_r("GET", "a")]}],
        [{"prefix": "/api", "routes": [_r("GET", "a/:id"), _r("GET", "/b/"), _r("POST", "")]}, {"prefix": None, "routes": [_r("GET", "/api/b")]}],
        [{"prefix": "/api", "routes": [_r("get", "a")]}],
        [{"prefix": None, "routes": [_r("GET", "/a//b"), _r("GET", "/a/./c/"), _r("GET", "/a/b")]}],
    ]
    ereqs = [{"m": m, "p": p} for m in ("GET", "POST") for p in
             ["/", "/a", "/a/b", "/b", "/c", "/d", "/x", "/id", "/:id", "/api", "/api/a", "/api/a/b", "/api/b", "/api/x", "/a/c",
              "a/b", "a", "", "x", "./x", "/./x", ":id", "../a", "/../a"]]
    for gs in egroups:
        for via in ("engine", "server"):
            out.append({"kind": "engine", "via": via, "groups": gs, "reqs": ereqs})
    return out


# ----------------------------------------------------------------------------- driving
def _norm_tree_obs(case, o):
    res = []
    for r in o["res"]:
        res.append({"clean": None, "status": (200 if r["item"] >= 0 else 0) if r["found"] else 404,
                    "hids": [r["item"]] if r["found"] and r["item"] >= 0 else [],
                    "vars": r["vars"], "allow": [], "nf": 0})
    return {"errs": o["errs"], "rclean": None, "res": res}


def drive(cases, tier):
    idx_r = [i for i, c in enumerate(cases) if c["kind"] == "router"]
    idx_t = [i for i, c in enumerate(cases) if c["kind"] == "tree"]
    idx_e = [i for i, c in enumerate(cases) if c["kind"] == "engine"]
    obs = [None] * len(cases)
    logs = []
    for pkg, idx, name, run in ((GO_PKG, idx_r, "C03r", "^TestVerifDriver$"), (GO_PKG_TREE, idx_t, "C03t", "^TestVerifDriver$"),
                                (GO_PKG_ENGINE, idx_e, "C03e", "^TestVerifDriverC03$")):
        if not idx:
            continue
        o, lg = vlib.run_driver(pkg, [cases[i] for i in idx], name=name + tier[0], timeout=600, run=run)
        logs.append(lg)
        if o is None:
            return None, "\n".join(logs)
        for i, x in zip(idx, o):
            obs[i] = x
    return obs, "\n".join(logs)


# ----------------------------------------------------------------------------- encoding
ERR = {"": 0, "method": 1, "path": 2, "dup": 3, "dupslash": 4, "notfromroot": 5, "invalidstate": 6}


def _b(s):
    if all(32 <= ord(ch) < 127 for ch in s):
        return "(bs %s)" % cstr(s)
    return cbytes(s.encode("utf-8"))


MT = METHODS + BAD_METHODS


def _m(m):
    return "(mt %d)" % MT.index(m) if m in MT else cstr(m)


def encode(case, obs):
    if "driver_panic" in obs or "error" in obs:
        # unparsable observation: a case no checker accepts
        return "mkcase false false [] [1] [] [] [] [] None"
    tree = case["kind"] == "tree"
    if case["kind"] == "engine":
        return _encode_engine(case, obs)
    if tree:
        regs = [("", p) for p in case["adds"]]
        reqs = [("", p) for p in case["reqs"]]
        obs = _norm_tree_obs(case, obs)
    else:
        regs = [(r["m"], r["p"]) for r in case["regs"]]
        reqs = [(r["m"], r["p"]) for r in case["reqs"]]
    cregs = clist([cpair(_m(m), _b(p)) for m, p in regs])
    cerrs = clist([cnat(ERR.get(e, 9)) for e in obs["errs"]])
    if tree:
        crclean = "(xcleans %s)" % cregs
    else:
        crclean = clist([_b(s) for s in obs["rclean"]])
    creqs = clist([cpair(_m(m), _b(p)) for m, p in reqs])
    rows = []
    for (m, p), r in zip(reqs, obs["res"]):
        if r["clean"] is None:
            cl = "(xsome_clean %s)" % _b(p)
        elif r["clean"] == p:
            cl = "None"
        else:
            cl = "(Some %s)" % _b(r["clean"])
        rows.append("mkobs %s %s %s %s %s %s" % (
            cl, "%d%%N" % r["status"], clist([cnat(h) for h in r["hids"]]),
            clist([cpair(_b(k), _b(v)) for k, v in r["vars"]]),
            clist([_m(a) for a in r["allow"]]), cnat(r["nf"])))
    return "mkcase %s %s %s %s %s %s %s [] None" % (cbool(tree), cbool(bool(case.get("nf"))), cregs, cerrs, crclean, creqs, clist(rows))


def _rows(reqs, res):
    rows = []
    for (m, p), r in zip(reqs, res):
        cl = "None" if r["clean"] == p else "(Some %s)" % _b(r["clean"])
        rows.append("mkobs %s %s %s %s %s %s" % (
            cl, "%d%%N" % r["status"], clist([cnat(h) for h in r["hids"]]),
            clist([cpair(_b(k), _b(v)) for k, v in r["vars"]]),
            clist([_m(a) for a in r["allow"]]), cnat(r["nf"])))
    return clist(rows)


def _encode_engine(case, obs):
    reqs = [(r["m"], r["p"]) for r in case["reqs"]]
    gs, i = [], 0
    for g in case["groups"]:
        rs = []
        for r in g["routes"]:
            rs.append(cpair(_m(r["m"]), _b(r["p"]), cnat(i)))
            i += 1
        gs.append(cpair("None" if g["prefix"] is None else "(Some %s)" % _b(g["prefix"]), clist(rs)))
    eo = "(Some (mkeobs %s %s %s))" % (
        cnat(ERR.get(obs["err"], 9)), clist([_b(p) for p in obs["paths"]]),
        clist([cpair(_m(c["m"]), _b(c["p"]), cnat(ERR.get(c["err"], 9))) for c in obs["calls"]]))
    return "mkcase false false [] [] [] %s %s %s %s" % (
        clist([cpair(_m(m), _b(p)) for m, p in reqs]), _rows(reqs, obs["res"]), clist(gs), eo)


# ----------------------------------------------------------------------------- evidence helpers
def _res(case, obs):
    if case["kind"] == "tree":
        return _norm_tree_obs(case, obs)["res"]
    return obs.get("res", [])


def nontrivial(case, obs):
    rs = _res(case, obs)
    return any(r["status"] == 200 and r["vars"] for r in rs) and any(r["status"] in (404, 405) for r in rs)


def _segs(clean):
    return clean[1:].split("/") if clean.startswith("/") else None


def bucket(case, obs):
    out = ["kind:" + case["kind"]]
    rs = _res(case, obs)
    for r in rs:
        out.append("status:%d" % r["status"])
    for e in obs.get("errs", []):
        out.append("reg:" + (e.split(":")[0] or "ok"))
    if case["kind"] == "engine":
        out.append("engine:via=" + case["via"])
        out.append("engine:bind=" + (obs["err"].split(":")[0] or "ok"))
        if any(g["prefix"] is not None for g in case["groups"]):
            out.append("engine:prefix")
    if case["kind"] == "router":
        out.append("regs=%d" % len(case["regs"]))
        acc = [(case["regs"][i]["m"], _segs(obs["rclean"][i])) for i, e in enumerate(obs["errs"])]
        acc_ok = [(i, a) for i, a in enumerate(acc) if obs["errs"][i] == "" and a[1] is not None]
        for rq, r in zip(case["reqs"], rs):
            if r["clean"] != rq["p"]:
                out.append("req:dirty")
            if len(r.get("allow", [])) >= 2:
                out.append("allow>=2")
            if r["status"] == 200 and len(r["hids"]) == 1:
                q = _segs(r["clean"])
                won = dict(acc_ok).get(r["hids"][0])
                if q is None or won is None:
                    continue
                for i, (m, pat) in acc_ok:
                    if m != rq["m"] or i == r["hids"][0]:
                        continue
                    for k in range(min(len(pat), len(q), len(won[1]))):
                        if not (pat[k].startswith(":") or pat[k] == q[k]):
                            break
                        if pat[k] == q[k] and won[1][k].startswith(":"):
                            out.append("backtrack")
                            break
    return out


def explain(case, obs):
    return ("observed routing contradicts C03.Exec.spec_ok: a registration that must be rejected was accepted, or a "
            "request was not answered by a handler of a matching pattern of its method (literal-only pattern first, "
            "':name' bound to its segment), or the 404/405/Allow partition is wrong")


# ----------------------------------------------------------------------------- shrinking
def _spec_fails(cands):
    """indices of the candidate cases whose observed behaviour falsifies spec_ok (re-driven)"""
    if not cands:
        return [], []
    obs, _ = drive(cands, "shrink")
    if obs is None:
        return [], []
    res = vlib.coq_eval(ID, "C03.Exec", [encode(c, o) for c, o in zip(cands, obs)], shard=SHARD,
                        checks=("spec_ok",), tag="k")
    return res["spec_ok"], obs


def shrink(v):
    """one failing request, then greedily drop registrations while the violation persists"""
    case = v["case"]
    rk = "reqs"
    if case["kind"] == "engine":
        cands = [dict(case, reqs=[q]) for q in case["reqs"]] + [dict(case, reqs=[])]
        bad, obs = _spec_fails(cands)
        return {"case": cands[bad[-1]], "obs": obs[bad[-1]]} if bad else v
    gk = "regs" if case["kind"] == "router" else "adds"
    cands = [dict(case, **{rk: [q]}) for q in case[rk]]
    bad, obs = _spec_fails(cands)
    if not bad:
        return v
    cur, cur_obs = cands[bad[0]], obs[bad[0]]
    for _ in range(12):
        cands = [dict(cur, **{gk: cur[gk][:j] + cur[gk][j + 1:]}) for j in range(len(cur[gk]))]
        bad, obs = _spec_fails(cands)
        if not bad:
            break
        cur, cur_obs = cands[bad[0]], obs[bad[0]]
    return {"case": cur, "obs": cur_obs}
