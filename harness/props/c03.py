"""C03 HTTP routing: route tables x requests against api/router (patRouter), lib/search (Tree), api (engine).

case (router): {"kind":"router","nf":bool,"ops":[{"op":"reg","m","p"} | {"op":"req","m","p"} | {"op":"req","m","raw","ph"}]}
case (engine): {"kind":"engine","via":"engine"|"server","groups":[{"prefix","routes":[{"m","p"}]}],"reqs":[...]}
case (tree):   {"kind":"tree","adds":[route],"reqs":[route]}
"""
import itertools
import os

import vlib
from vlib import cnat, cbool, clist, cpair, cstr, cbytes

ID = "C03"
GO_PKG = "./api/router"
GO_PKG_TREE = "./lib/search"
GO_PKG_ENGINE = "./api"
GEN_SPEC = {"imports": ["From God Require Import C03.GenEnv."], "items": [
    {"kind": "func", "file": "api/router/patrouter.go", "name": "validMethod"},
    {"kind": "const", "file": "api/router/patrouter.go", "name": "allowHeader"},
    {"kind": "const", "file": "api/router/patrouter.go", "name": "allowMethodSeparator"},
    {"kind": "const", "file": "lib/search/tree.go", "name": "slash"},
    {"kind": "const", "file": "lib/search/tree.go", "name": "colon"},
    {"kind": "calls", "file": "api/router/patrouter.go", "func": "patRouter.ServeHTTP", "as": "serve_calls"},
    {"kind": "calls", "file": "api/router/patrouter.go", "func": "patRouter.Handle", "as": "handle_calls"},
    {"kind": "calls", "file": "api/router/patrouter.go", "func": "patRouter.methodsAllowed", "as": "allowed_calls"},
    {"kind": "calls", "file": "lib/search/tree.go", "func": "Tree.next", "as": "next_calls"},
    {"kind": "calls", "file": "lib/search/tree.go", "func": "add", "as": "add_calls"},
    {"kind": "calls", "file": "lib/search/tree.go", "func": "Tree.Add", "as": "tree_add_calls"},
    {"kind": "calls", "file": "lib/search/tree.go", "func": "Tree.Search", "as": "tree_search_calls"},
    {"kind": "calls", "file": "lib/search/tree.go", "func": "node.forEach", "as": "foreach_calls"},
    {"kind": "chain", "file": "api/engine.go", "func": "engine.bindRoute", "call": "router.Handle", "as": "bind_handle_args"},
    {"kind": "chain", "file": "api/server.go", "func": "WithPrefix", "call": "path.Join", "as": "prefix_join_args"},
    {"kind": "calls", "file": "api/engine.go", "func": "engine.bindRoutes", "as": "bind_routes_calls"},
    {"kind": "calls", "file": "api/engine.go", "func": "engine.bindFeaturedRoutes", "as": "bind_featured_calls"},
    {"kind": "calls", "file": "api/engine.go", "func": "engine.addRoutes", "as": "add_routes_calls"},
    {"kind": "calls", "file": "api/server.go", "func": "Server.AddRoutes", "as": "server_add_routes_calls"},
    {"kind": "calls", "file": "api/server.go", "func": "WithPrefix", "as": "with_prefix_calls"},
    {"kind": "calls", "file": "api/pathvar/params.go", "func": "Vars", "as": "vars_calls"},
    {"kind": "calls", "file": "api/pathvar/params.go", "func": "WithVars", "as": "withvars_calls"},
    {"kind": "chain", "file": "api/pathvar/params.go", "func": "WithVars", "call": "context.WithValue", "as": "withvars_args"},
    {"kind": "chain", "file": "api/handler/authhandler.go", "func": "Authorize", "call": "context.WithValue", "as": "authorize_ctx_args"},
]}
QUICK_N = 300
THOROUGH_N = 2000
SHARD = 50
COQ_FILES = ["theories/C03/Props.v", "theories/C03/Link.v", "theories/C03/Engine.v", "theories/C03/Determ.v", "theories/C03/Table.v",
             "theories/C03/Proofs.v", "theories/C03/Path.v"]
COQ_TARGETS = ["theories/C03/Props.v", "theories/C03/Link.v", "theories/C03/Exec.v"]
RULE = ("route tables of 1-12 registrations over segments {a,b,c,:x,:y,:z} (depth 0-4, shared prefixes, "
        "literal/param alternatives that force backtracking, duplicates, dirty and unrooted paths, the 7 "
        "methods plus invalid ones), ~60 requests each (instances and near-misses of the patterns, random paths "
        "over {a,b,c,d} of depth <= 4, dirty paths with '//', '/./', '/../', trailing '/', unrooted paths; "
        "exhaustive depth <= 3 for small tables); ~12% of the cases drive lib/search's Tree directly with raw "
        "routes; ~20% register through api.engine / api.Server (AddRoutes groups, WithPrefix, relative / empty / "
        "dirty paths, duplicates across groups, bad methods; bindRoutes on a fresh router, every Router.Handle "
        "call recorded) and serve the requests through the bound router; thorough adds every 1-2 route table over patterns of depth <= 2 x every path of depth <= 3; "
        "router cases are histories: ~40% interleave registrations and requests (a literal route registered for a "
        "path already served through a ':param' route and served again, duplicates after serving); ~10 requests per "
        "case are built by net/http from a raw target whose segments are percent-encoded once (%2541, a%252Fb, %25, +, "
        "%20, UTF-8, %ff, %2e%2e, %2F) and must reach pathvar.Vars verbatim; non-trivial = some handler ran with path variables and some request got 404/405; distinct = distinct case JSON")
TRUSTED = ["net/http request construction (driver sets r.Method / r.URL.Path directly) and httptest.ResponseRecorder",
           "path.Clean re-implemented as C03.Path.clean and compared with Go's result on every registered and requested path",
           "net/http method constants as written in C03/GenEnv.v"]
ASSUMPTIONS = ["responses are observed as the client receives them (ResponseRecorder.Result(): status and header snapshot at "
               "WriteHeader); NewServer options: WithRouter placed AFTER WithNotFoundHandler / WithNotAllowedHandler / WithCors "
               "discards them on the unchanged tree (c03_server_options_refuted, class withrouter-drops-handlers); such orders "
               "are generated only when that finding is listed in KNOWN_FINDINGS.txt or C03_ROUTER_LAST=1",
               "WithCors / WithCustomCors install cors.NotAllowedHandler through the router's public SetNotAllowedHandler override "
               "(as upstream): with CORS on, the ROUTER's decision is checked (route handler iff a pattern of the method matches - "
               "also for non-OPTIONS requests with Origin / Access-Control-Request-* headers; the not-allowed handler is the one "
               "that answers iff no pattern of the method matches but another method's does - its answer is 404; the not-found "
               "handler iff none matches; every OPTIONS request is a preflight answered 204); the '405 + exact Allow' clause is "
               "checked with the default not-allowed handler (CORS off)",
               "handlers are non-nil (errEmptyItem not exercised through the router)",
               "default not-allowed handler (a custom SetNotAllowedHandler replaces the Allow header logic)"]

METHODS = ["DELETE", "GET", "HEAD", "OPTIONS", "PATCH", "POST", "PUT"]
BAD_METHODS = ["get", "FOO", "", "CONNECT", "TRACE", "GET ", "Post"]
SEGS = ["a", "b", "c", ":x", ":y", ":z"]
LITS = ["a", "b", "c", "d"]


# ----------------------------------------------------------------------------- generation
def _pattern(rng, pats):
    """a pattern (list of segments); mostly derived from an earlier one so that prefixes are shared and
    literal / param alternatives overlap"""
    if pats and rng.random() < 0.75:
        base = list(rng.choice(pats))
        r = rng.random()
        if r < 0.35 and base:
            i = rng.randrange(len(base))         # swap one segment literal <-> param / other param
            base[i] = rng.choice(SEGS)
        elif r < 0.6 and len(base) < 4:
            base.append(rng.choice(SEGS))        # extend
        elif r < 0.75 and base:
            base.pop()                           # prefix
        elif r < 0.9 and base:
            k = rng.randrange(len(base))         # keep a prefix, new tail
            base = base[:k] + [rng.choice(SEGS) for _ in range(rng.randint(1, 4 - k))]
        return base[:4]
    return [rng.choice(SEGS) for _ in range(rng.choice([0, 1, 1, 2, 2, 2, 3, 3, 4]))]


def _dirty(rng, segs):
    """a path string for the segment list, possibly needing cleaning"""
    p = "/" + "/".join(segs)
    r = rng.random()
    if r < 0.7:
        return p
    parts = list(segs)
    out = ""
    for s in parts:
        k = rng.random()
        if k < 0.2:
            out += "//" + s
        elif k < 0.35:
            out += "/./" + s
        elif k < 0.5:
            out += "/" + rng.choice(LITS) + "/../" + s
        else:
            out += "/" + s
    if not parts:
        out = rng.choice(["/", "//", "/.", "/..", "/./", "/../", "/a/.."])
    elif rng.random() < 0.4:
        out += rng.choice(["/", "//", "/.", "/./"])
    return out


def _router_case(rng, tier):
    small = rng.random() < 0.2
    nreg = rng.randint(1, 3) if small else rng.randint(2, 12)
    ms = rng.sample(METHODS, rng.choice([1, 2, 2, 3, 3, 7]))
    pats, regs = [], []
    for _ in range(nreg):
        r = rng.random()
        if regs and r < 0.12:
            prev = rng.choice(regs)              # duplicate (maybe written differently / other method)
            segs = [s for s in prev["p"].split("/") if s not in ("", ".", "..")] if rng.random() < 0.5 else None
            p = _dirty(rng, segs) if segs is not None else prev["p"]
            m = prev["m"] if rng.random() < 0.8 else rng.choice(ms)
            regs.append({"m": m, "p": p})
            continue
        segs = _pattern(rng, pats)
        if rng.random() < 0.06 and segs:
            segs[rng.randrange(len(segs))] = rng.choice(["%41", "+", "a%2Fb", "%25"])   # literal segments with escapes-as-text
        pats.append(segs)
        m = rng.choice(ms)
        p = _dirty(rng, segs)
        if r > 0.95:
            m = rng.choice(BAD_METHODS)
        elif r > 0.90:
            p = rng.choice(["", p[1:], "a/b", ".", "../a", ":x"])
        regs.append({"m": m, "p": p})
    reqs = []
    req_ms = ms + [rng.choice(METHODS), rng.choice(BAD_METHODS)]

    def method():
        return rng.choice(ms) if rng.random() < 0.8 else rng.choice(req_ms)
    if small:
        m0 = rng.choice(ms)
        for d in range(0, 4):
            for t in itertools.product(LITS, repeat=d):
                reqs.append({"m": m0, "p": "/" + "/".join(t)})
        for m in ms[:3]:
            reqs.append({"m": m, "p": "/"})
    n_inst = 30
    for _ in range(n_inst):
        if not pats:
            break
        segs = list(rng.choice(pats))
        segs = [rng.choice(LITS) if s.startswith(":") else s for s in segs]
        r = rng.random()
        if r < 0.3 and segs:
            segs[rng.randrange(len(segs))] = rng.choice(LITS)       # near miss
        elif r < 0.4:
            segs.append(rng.choice(LITS))
        elif r < 0.5 and segs:
            segs.pop()
        elif r < 0.55 and segs:
            segs[rng.randrange(len(segs))] = rng.choice([":x", ":y", ":", "a:x", "."])
        reqs.append({"m": method(), "p": _dirty(rng, segs) if rng.random() < 0.5 else "/" + "/".join(segs)})
    for _ in range(16):
        segs = [rng.choice(LITS) for _ in range(rng.randint(0, 4))]
        reqs.append({"m": method(), "p": "/" + "/".join(segs)})
    for _ in range(8):
        segs = [rng.choice(LITS) for _ in range(rng.randint(0, 3))]
        reqs.append({"m": method(), "p": _dirty(rng, segs)})
    for p in rng.sample(["", "a", "a/b", ".", "..", "../a", "/..", "/../..", "//", "/a/", "/a//", "/a/b/..", "/a/b/../..", "/./.", ":x", "/:x", "/a/:y"], 5):
        reqs.append({"m": method(), "p": p})
    return {"kind": "router", "nf": rng.random() < 0.3, "regs": regs, "reqs": reqs, "_pats": pats}


def _tree_case(rng, tier):
    pats, adds = [], []
    for _ in range(rng.randint(1, 10)):
        segs = _pattern(rng, pats)
        pats.append(segs)
        p = "/" + "/".join(segs)
        r = rng.random()
        if r < 0.12:
            p += "/"
        elif r < 0.2:
            p = p.replace("/", "//", 1) if rng.random() < 0.5 else p + "//" + rng.choice(SEGS)
        elif r < 0.25:
            p = rng.choice(["", p[1:], "a"])
        elif r < 0.33 and adds:
            p = rng.choice(adds)
        adds.append(p)
    reqs = []
    for _ in range(40):
        if pats and rng.random() < 0.7:
            segs = [rng.choice(LITS) if s.startswith(":") else s for s in rng.choice(pats)]
            if rng.random() < 0.3 and segs:
                segs[rng.randrange(len(segs))] = rng.choice(LITS)
        else:
            segs = [rng.choice(LITS) for _ in range(rng.randint(0, 4))]
        p = "/" + "/".join(segs)
        r = rng.random()
        if r < 0.15:
            p += "/"
        elif r < 0.22:
            p = p.replace("/", "//", 1)
        elif r < 0.25:
            p = p[1:]
        reqs.append(p)
    reqs += ["/", "//", ""]
    return {"kind": "tree", "adds": adds, "reqs": reqs}


def _exhaustive(rng):
    """every single-method table of 1-2 patterns of depth <= 2 x every path of depth <= 3 over {a,b,c,d}"""
    pats = [list(t) for d in range(0, 3) for t in itertools.product(SEGS, repeat=d)]
    paths = ["/" + "/".join(t) for d in range(0, 4) for t in itertools.product(LITS, repeat=d)]
    reqs = [{"m": "GET", "p": p} for p in paths]
    out = []
    for i, p1 in enumerate(pats):
        out.append({"kind": "router", "nf": False, "regs": [{"m": "GET", "p": "/" + "/".join(p1)}], "reqs": reqs})
        for p2 in pats[i + 1:]:
            out.append({"kind": "router", "nf": False,
                        "regs": [{"m": "GET", "p": "/" + "/".join(p1)}, {"m": "GET", "p": "/" + "/".join(p2)}], "reqs": reqs})
    return out


PREFIXES = ["/api", "/api/", "api", "", "/", "/v1/:x", "//g", "/a/..", "/a/b", "/a", ".", "/:y"]
REL_PATHS = ["a/b", ":id", "./x", "", "../a", "a", ".", "b/:z/"]


def _engine_case(rng, tier, clean=None):
    """route groups added through the engine; clean=True: only registrations that should be accepted"""
    if clean is None:
        clean = rng.random() < 0.45
    ms = rng.sample(METHODS, rng.choice([1, 2, 2, 3]))
    groups, pats, eff = [], [], []
    for _ in range(rng.randint(1, 3)):
        prefix = None
        if rng.random() < 0.5:
            prefix = rng.choice(["/api", "/api/", "/v1/:x", "/a/b", "/a", "/", "//g", "/:y"]) if clean or rng.random() < 0.7 else rng.choice(PREFIXES)
        routes = []
        for _ in range(rng.randint(1, 5)):
            segs = _pattern(rng, pats)
            pats.append(segs)
            m = rng.choice(ms)
            r = rng.random()
            if prefix is not None and prefix.startswith("/") and r < 0.45:
                p = "/".join(segs) + rng.choice(["", "", "/"]) if rng.random() < 0.8 else rng.choice(REL_PATHS)
            else:
                p = _dirty(rng, segs)
            if not clean:
                if r > 0.93:
                    m = rng.choice(BAD_METHODS)
                elif r > 0.86:
                    p = rng.choice(REL_PATHS)
                elif r > 0.80 and eff:
                    m, psegs = rng.choice(eff)          # duplicate of an earlier effective route
                    prefix_segs = [x for x in (prefix or "").split("/") if x not in ("", ".")]
                    if psegs[:len(prefix_segs)] == prefix_segs:
                        p = "/".join(psegs[len(prefix_segs):]) if prefix and prefix.startswith("/") else "/" + "/".join(psegs)
            routes.append({"m": m, "p": p})
            eff.append((m, [x for x in ((prefix or "") + "/" + p).split("/") if x not in ("", ".", "..")]))
        groups.append({"prefix": prefix, "routes": routes})
    reqs = []

    def method():
        return rng.choice(ms) if rng.random() < 0.8 else rng.choice(METHODS + BAD_METHODS[:2])
    for _ in range(30):
        segs = [rng.choice(LITS) if x.startswith(":") else x for x in rng.choice(eff)[1]]
        r = rng.random()
        if r < 0.25 and segs:
            segs[rng.randrange(len(segs))] = rng.choice(LITS)
        elif r < 0.35:
            segs.append(rng.choice(LITS))
        elif r < 0.45 and segs:
            segs.pop(0)                                    # the path without its prefix
        reqs.append({"m": method(), "p": _dirty(rng, segs) if rng.random() < 0.3 else "/" + "/".join(segs)})
    for _ in range(10):
        segs = [rng.choice(LITS + ["api", "g", "v1"]) for _ in range(rng.randint(0, 4))]
        reqs.append({"m": method(), "p": "/" + "/".join(segs)})
    for p in rng.sample(["", "a", "a/b", ":id", "/", "/api", "/api/", "x", "/x", "/./x", "/a/b/..", "api/a"], 5):
        reqs.append({"m": method(), "p": p})
    reqs += _raw_reqs(rng, [e[1] for e in eff], ms, 6)
    return {"kind": "engine", "via": "server" if rng.random() < 0.35 else "engine", "groups": groups, "reqs": reqs}


RAW_SEGS = [b"%41", b"a%2Fb", b"%", b"+", b"a b", "\u00e9".encode("utf-8"), b"%zz", b"%2", b"\xff", b"a+b", b"%25",
            b"%2541", b"a;b", b"a?b", b"a#b", "\u4e2d\u6587".encode("utf-8"), b"%c3%a9", b" ", b"%2e", b"x/y", b".", b"..", b"a", b"b"]
SAFE = set(b"ABCDEFGHIJKLMNOPQRSTUVWXYZabcdefghijklmnopqrstuvwxyz0123456789-_.~:")


def _escape(rng, seg):
    """percent-encode a decoded segment once ('/' inside a segment becomes %2F, i.e. a separator after
    decoding); characters that may stay raw ('+', ';') are escaped at random"""
    out = ""
    for c in seg:
        if c in SAFE and not (c == 0x2E and rng.random() < 0.3) or (c in b"+;@,=" and rng.random() < 0.6):
            out += chr(c)
        else:
            out += "%%%02X" % c if rng.random() < 0.8 else "%%%02x" % c
    return out


def _raw_req(rng, m, segs):
    """request given by its raw target; ph = hex of the path net/http must decode it to"""
    return {"m": m, "raw": "/" + "/".join(_escape(rng, x) for x in segs), "ph": (b"/" + b"/".join(segs)).hex(), "p": ""}


def _raw_reqs(rng, pats, ms, n):
    out = []
    for _ in range(n):
        if pats and rng.random() < 0.8:
            segs = [rng.choice(RAW_SEGS) if x.startswith(":") or rng.random() < 0.1 else x.encode() for x in rng.choice(pats)]
        else:
            segs = [rng.choice(RAW_SEGS) for _ in range(rng.randint(1, 3))]
        out.append(_raw_req(rng, rng.choice(ms), segs))
    return out


def _weave(rng, regs, reqs, pats):
    """ops of a history: registrations and requests interleaved; after a request that can be answered through a
    ':param' route, a more specific literal route for that very path is registered and the path served again;
    duplicates are re-registered after serving"""
    regs, reqs = list(regs), list(reqs)
    ops = []
    while regs or reqs:
        if regs and (not reqs or rng.random() < 0.35):
            ops.append(dict(regs.pop(0), op="reg"))
        else:
            for _ in range(rng.randint(1, 6)):
                if reqs:
                    ops.append(dict(reqs.pop(rng.randrange(len(reqs))), op="req"))
        r = rng.random()
        served = [o for o in ops if o["op"] == "req" and not o.get("raw") and o["p"].startswith("/")]
        done = [o for o in ops if o["op"] == "reg"]
        if r < 0.12 and served:
            q = rng.choice(served)
            ops.append({"op": "reg", "m": q["m"], "p": q["p"]})          # literal route for a served path
            ops.append(dict(q))
            ops.append(dict(q, m=rng.choice(METHODS)))
        elif r < 0.2 and done:
            ops.append(dict(rng.choice(done)))                           # duplicate after serving
            if served:
                ops.append(dict(rng.choice(served)))
    return ops


def _to_ops(case, rng=None, weave=False, pats=None):
    regs, reqs = case.pop("regs"), case.pop("reqs")
    if weave:
        case["ops"] = _weave(rng, regs, reqs, pats)
    else:
        case["ops"] = [dict(r, op="reg") for r in regs] + [dict(r, op="req") for r in reqs]
    return case


GOOD_PREFIXES = ["/v1", "/v2", "/api", "/api/", "/x", "/a", "/a/b", "/:t", "/", "//g"]
OTHER_OPTS = ["timeout", "maxbytes", "priority", "signature"]


def _eff_segs(prefixes, p):
    """approximate segments of the prefix-joined path (for request generation only)"""
    segs = [x for x in p.split("/") if x not in ("", ".")]
    for g in prefixes:
        segs = [x for x in g.split("/") if x not in ("", ".")] + segs
    return segs


def _mount_case(rng, tier):
    """caller slices mounted several times through AddRoutes with different option lists"""
    ms = rng.sample(METHODS, rng.choice([1, 2, 2, 3]))
    pats, slices = [], []
    for _ in range(rng.choice([1, 1, 2])):
        sl = []
        for _ in range(rng.choice([1, 1, 2, 3, 4])):
            segs = _pattern(rng, pats)
            pats.append(segs)
            r = rng.random()
            p = "/".join(segs) if r < 0.3 else ("/" + "/".join(segs) + ("/" if r > 0.9 else ""))
            sl.append({"m": rng.choice(ms), "p": p})
        slices.append(sl)
    mounts, eff = [], []
    free = list(GOOD_PREFIXES)
    rng.shuffle(free)
    for k in range(rng.randint(2, 4)):
        si = rng.randrange(len(slices)) if k >= len(slices) else k
        opts = []
        npre = rng.choice([1, 1, 1, 2, 2, 3]) if rng.random() < 0.9 else 0
        for _ in range(npre):
            opts.append({"o": "prefix", "v": free.pop() if free and rng.random() < 0.85 else rng.choice(PREFIXES)})
        for _ in range(rng.choice([0, 0, 1, 2])):
            opts.insert(rng.randint(0, len(opts)), {"o": rng.choice(OTHER_OPTS)})
        mt = {"slice": si, "opts": opts, "mw": rng.choice([0, 0, 0, 1, 2]), "single": rng.random() < 0.5}
        mounts.append(mt)
        for r in slices[si]:
            eff.append((r["m"], _eff_segs([o["v"] for o in opts if o["o"] == "prefix"], r["p"])))
    allpre = [o["v"] for mt in mounts for o in mt["opts"] if o["o"] == "prefix"]
    reqs = []

    def inst(segs):
        return [rng.choice(LITS) if x.startswith(":") else x for x in segs]
    for m, segs in eff:
        reqs.append({"m": m, "p": "/" + "/".join(inst(segs))})
        reqs.append({"m": rng.choice(ms), "p": "/" + "/".join(inst(segs))})
    for sl in slices:                                    # the bare paths and prefix compositions nobody registered
        for r in sl:
            reqs.append({"m": r["m"], "p": "/" + "/".join(inst(_eff_segs([], r["p"])))})
            for _ in range(3):
                gs = [rng.choice(allpre) for _ in range(rng.randint(1, 3))] if allpre else []
                reqs.append({"m": r["m"], "p": "/" + "/".join(inst(_eff_segs(gs, r["p"])))})
    for _ in range(8):
        m, segs = rng.choice(eff)
        segs = inst(segs)
        if segs and rng.random() < 0.6:
            segs[rng.randrange(len(segs))] = rng.choice(LITS)
        reqs.append({"m": rng.choice(ms + ["HEAD"]), "p": _dirty(rng, segs)})
    reqs += _raw_reqs(rng, [e[1] for e in eff], ms, 3)
    if rng.random() < 0.55:
        _add_jwt(rng, mounts, reqs, [x[1:] for _, segs in eff for x in segs if x.startswith(":")])
    return {"kind": "engine", "via": "server" if rng.random() < 0.6 else "engine", "slices": slices, "mounts": mounts, "reqs": reqs}


CLAIM_NAMES = ["pathVars", "rest/pathvar/context key: pathVars", "pathvars", "PathVars", "vars", "", "user", "sub", "iss", "id", "x", "y", "z"]
CLAIM_VALUES = ["evil", 7, True, {"x": "evil", "y": "evil", "z": "evil", "t": "evil", "id": "evil"}, ["a"], None, "", {"pathVars": {"x": "evil"}}]


def _add_jwt(rng, mounts, reqs, params):
    """protect some mounts with WithJwt / WithJwtTransition and give EVERY request a valid token whose custom
    claims have adversarial names (the routes' own parameter names, pathvar's context key, ...)"""
    secret, prev = "verif-secret-%d" % rng.randrange(10 ** 6), "verif-prev-secret-%d" % rng.randrange(10 ** 6)
    plain = False
    chosen = [mt for mt in mounts if rng.random() < 0.6] or [rng.choice(mounts)]
    for mt in chosen:
        if rng.random() < 0.5:
            opt, plain = {"o": "jwt", "v": secret}, True
        else:
            opt = {"o": "jwtx", "v": secret, "p": prev}
        mt["opts"].insert(rng.randint(0, len(mt["opts"])), opt)
    names = CLAIM_NAMES + list(params) * 3
    for q in reqs:
        q["sec"] = secret if plain or rng.random() < 0.5 else prev
        claims, used = [], set()
        for _ in range(rng.choice([0, 1, 2, 3, 4, 6])):
            k = rng.choice(names)
            if k not in used:
                used.add(k)
                claims.append({"k": k, "v": rng.choice(CLAIM_VALUES)})
        if "pathVars" not in used and rng.random() < 0.4:
            claims.insert(rng.randint(0, len(claims)), {"k": "pathVars", "v": rng.choice(CLAIM_VALUES)})
        q["claims"] = claims


CORS_ORIGINS = [[], [], ["*"], ["example.com"], ["example.com", "verif.test"]]
REQ_ORIGINS = ["http://x.example.com", "https://verif.test", "http://evil.org", "null", ""]


def _add_sopts(rng, case):
    """NewServer options: custom not-found / not-allowed handlers, WithRouter, WithCors in random order"""
    if rng.random() < 0.5:
        return case
    case["via"] = "server"
    opts = []
    if rng.random() < 0.7:
        opts.append({"o": "nf"})
    if rng.random() < 0.15:
        opts.append({"o": "nfnil"})
    if rng.random() < 0.5:
        opts.append({"o": "na"})
    cors = case.pop("cors", None)
    if cors:
        opts.append({"o": "cors", "cors": cors})
    rng.shuffle(opts)
    if rng.random() < 0.5:
        k = rng.randint(0, len(opts)) if ROUTER_LAST else 0
        opts.insert(k, {"o": "router"})
        if rng.random() < 0.2:
            opts.insert(0, {"o": "router"})
    case["sopts"] = opts
    return case


def _add_cors(rng, case):
    """cors on/off dimension: the server is created with WithCors / WithCustomCors; requests (in both modes) carry
    preflight-style headers although most of them are not OPTIONS requests, and some OPTIONS requests are added"""
    if rng.random() < 0.55:
        case["via"] = "server"
        case["cors"] = {"mode": rng.choice(["cors", "cors", "custom"]), "origins": rng.choice(CORS_ORIGINS)}
    reqs = case["reqs"]
    for q in list(reqs):
        if rng.random() < 0.12:
            reqs.append(dict(q, m="OPTIONS"))
    for q in reqs:
        r = rng.random()
        if r < 0.6:
            hdr = []
            if rng.random() < 0.8:
                hdr.append(["Origin", rng.choice(REQ_ORIGINS)])
            if rng.random() < 0.8:
                hdr.append(["Access-Control-Request-Method", rng.choice(METHODS + [q["m"], "get"])])
            if rng.random() < 0.4:
                hdr.append(["Access-Control-Request-Headers", rng.choice(["Content-Type", "X-Verif, Authorization"])])
            q["hdr"] = hdr
    return case


def generate(rng, tier, n):
    cases = []
    for _ in range(n):
        r = rng.random()
        if r < 0.12:
            cases.append(_tree_case(rng, tier))
        elif r < 0.22:
            cases.append(_add_sopts(rng, _add_cors(rng, _engine_case(rng, tier))))
        elif r < 0.34:
            cases.append(_add_sopts(rng, _add_cors(rng, _mount_case(rng, tier))))
        else:
            c = _router_case(rng, tier)
            pats = c.pop("_pats")
            ms = sorted({x["m"] for x in c["regs"] if x["m"] in METHODS}) or ["GET"]
            c["reqs"] += _raw_reqs(rng, pats, ms, 10)
            cases.append(_to_ops(c, rng, weave=rng.random() < 0.4, pats=pats))
    if tier == "thorough":
        cases += [_to_ops(c) for c in _exhaustive(rng)]
    return cases


def _r(m, p):
    return {"m": m, "p": p}


def search(rng, problems):
    """directed tables: backtracking after a failed literal branch, last-token item test, cleaning at
    registration, full Allow sets, duplicates"""
    out = []
    paths = ["/" + "/".join(t) for d in range(0, 4) for t in itertools.product(LITS, repeat=d)]
    tables = [
        [_r("GET", "/a/b"), _r("GET", "/:x/c")],
        [_r("GET", "/a/b/c"), _r("GET", "/a/:x/d"), _r("GET", "/:y/b/d")],
        [_r("GET", "/a/b"), _r("GET", "/a")],
        [_r("GET", "/a/b"), _r("GET", "/:x")],
        [_r("GET", "/a/b/c"), _r("GET", "/a/:x")],
        [_r("GET", "/a//b"), _r("GET", "/a/./c/"), _r("POST", "/b/../a/b")],
        [_r(m, "/a/:x") for m in METHODS],
        [_r(m, "/") for m in METHODS[:4]] + [_r("GET", "/:x")],
        [_r("GET", "/a/b"), _r("GET", "/a/b"), _r("GET", "/a//b"), _r("GET", "/a/b/"), _r("POST", "/a/b")],
        [_r("GET", "/:x/:x"), _r("GET", "/:x/:y/:x")],
        [_r("get", "/a"), _r("GET", "a"), _r("GET", ""), _r("TRACE", "/a")],
    ]
    for tb in tables:
        ms = sorted({r["m"] for r in tb}) + ["HEAD"]
        reqs = [{"m": m, "p": p} for m in ms[:3] for p in paths]
        reqs += [{"m": "GET", "p": p} for p in ["/a//b", "/a/b/", "/a/./b", "/a/c/../b", "a/b", ""]]
        out.append(_to_ops({"kind": "router", "nf": False, "regs": tb, "reqs": reqs}))
    # percent-encoded segments must be bound verbatim (decoded exactly once by net/http)
    rawsegs = [[x] for x in RAW_SEGS] + [[b"a", x] for x in RAW_SEGS] + [[x, y] for x in RAW_SEGS[:6] for y in RAW_SEGS[:6]]
    out.append(_to_ops({"kind": "router", "nf": False,
                        "regs": [_r("GET", "/:x"), _r("GET", "/a/:y"), _r("GET", "/:x/:z"), _r("GET", "/a/%41"), _r("POST", "/+")],
                        "reqs": [_raw_req(rng, "GET", sg) for sg in rawsegs]}))
    # histories: param route served, literal route added, served again; registration after 404 / 405; duplicates
    def q(m, p):
        return {"op": "req", "m": m, "p": p}

    def g(m, p):
        return {"op": "reg", "m": m, "p": p}
    out.append({"kind": "router", "nf": False, "ops": [
        q("GET", "/a/b"), g("GET", "/a/:x"), q("GET", "/a/b"), q("GET", "/a/c"), g("GET", "/a/b"), q("GET", "/a/b"), q("GET", "/a/c"),
        q("POST", "/a/b"), g("POST", "/a/b"), q("POST", "/a/b"), q("PUT", "/a/b"), g("GET", "/a/b"), q("GET", "/a/b"),
        q("GET", "/"), g("GET", "/:r"), q("GET", "/"), g("GET", "/"), q("GET", "/"), q("GET", "/z"), g("GET", "/z/"), q("GET", "/z"),
        q("GET", "/a/b/c"), g("GET", "/a/b/:w"), q("GET", "/a/b/c"), g("GET", "/:u/b/c"), q("GET", "/a/b/c"), q("GET", "/q/b/c")]})
    egroups = [
        [{"prefix": None, "routes": [_r("GET", "a/b")]}],
        [{"prefix": None, "routes": [_r("GET", "/c"), _r("GET", ":id"), _r("GET", "/d")]}],
        [{"prefix": None, "routes": [_r("GET", "")]}],
        [{"prefix": None, "routes": [_r("GET", "./x"), _r("POST", "../a")]}],
        [{"prefix": "api", "routes": [_r("GET", "/x")]}],
        [{"prefix": "", "routes": [_r("GET", "a")]}],
        [{"prefix": "/api", "routes": [_r("GET", "a/:id"), _r("GET", "/b/"), _r("POST", "")]}, {"prefix": None, "routes": [_r("GET", "/api/b")]}],
        [{"prefix": "/api", "routes": [_r("get", "a")]}],
        [{"prefix": None, "routes": [_r("GET", "/a//b"), _r("GET", "/a/./c/"), _r("GET", "/a/b")]}],
    ]
    ereqs = [{"m": m, "p": p} for m in ("GET", "POST") for p in
             ["/", "/a", "/a/b", "/b", "/c", "/d", "/x", "/id", "/:id", "/api", "/api/a", "/api/a/b", "/api/b", "/api/x", "/a/c",
              "a/b", "a", "", "x", "./x", "/./x", ":id", "../a", "/../a"]]
    for gs in egroups:
        for via in ("engine", "server"):
            out.append({"kind": "engine", "via": via, "groups": gs, "reqs": ereqs})
    # one slice mounted under /v1 and /v2 (and nested /x + /v2), with other options and middlewares
    sl = [_r("GET", "/a/:id"), _r("POST", "b"), _r("GET", "/")]
    mreqs = [{"m": m, "p": p} for m in ("GET", "POST") for p in
             ["/v1/a/7", "/v2/a/7", "/v1/b", "/v2/b", "/v1", "/v2", "/a/7", "/b", "/", "/v2/v1/a/7", "/v1/v2/a/7", "/v2/v1/b",
              "/v1/v1/a/7", "/x/v2/a/7", "/v2/x/a/7", "/x/v2/b", "/x/v2", "/v2/x/v1/a/7", "/x/a/7"]]
    for via in ("server", "engine"):
        for opts2 in ([{"o": "prefix", "v": "/v2"}], [{"o": "prefix", "v": "/v2"}, {"o": "prefix", "v": "/x"}],
                      [{"o": "timeout"}, {"o": "prefix", "v": "/v2"}, {"o": "priority"}]):
            for mw in (0, 2):
                out.append({"kind": "engine", "via": via, "slices": [sl], "reqs": mreqs,
                            "mounts": [{"slice": 0, "opts": [{"o": "prefix", "v": "/v1"}, {"o": "maxbytes"}], "mw": mw},
                                       {"slice": 0, "opts": opts2, "mw": 0}]})
                out.append({"kind": "engine", "via": via, "slices": [sl[:1], sl[1:2]], "reqs": mreqs,
                            "mounts": [{"slice": 0, "opts": [{"o": "prefix", "v": "/v1"}], "mw": mw, "single": True},
                                       {"slice": 0, "opts": opts2, "mw": 0, "single": True},
                                       {"slice": 1, "opts": opts2 + [{"o": "signature"}], "mw": mw, "single": True}]})
    # CORS on: non-OPTIONS requests with preflight-style headers must be dispatched, OPTIONS gets 204
    csl = [_r("GET", "/a/:x"), _r("POST", "/b"), _r("DELETE", "/a/:x"), _r("OPTIONS", "/o"), _r("PUT", "/")]
    hdrs = [[], [["Origin", "http://x.example.com"]], [["Access-Control-Request-Method", "POST"]],
            [["Origin", "http://x.example.com"], ["Access-Control-Request-Method", "GET"], ["Access-Control-Request-Headers", "Content-Type"]]]
    creqs = [{"m": m, "p": p, "hdr": h} for h in hdrs for m, p in
             [("GET", "/a/7"), ("DELETE", "/a/7"), ("POST", "/b"), ("PUT", "/"), ("OPTIONS", "/a/7"), ("OPTIONS", "/o"), ("OPTIONS", "/zz"),
              ("GET", "/zz"), ("PATCH", "/zz/y")]]
    for cors in (None, {"mode": "cors", "origins": []}, {"mode": "custom", "origins": ["example.com"]}):
        out.append({"kind": "engine", "via": "server", "cors": cors, "slices": [csl], "mounts": [{"slice": 0, "opts": []}], "reqs": creqs})
    # server options in different orders: the configured custom handlers must answer (exactly once)
    osl = [_r("POST", "/a"), _r("GET", "/b/:x")]
    oreqs = [{"m": m, "p": p} for m, p in [("GET", "/zz"), ("GET", "/a"), ("POST", "/a"), ("OPTIONS", "/a"), ("GET", "/b/1"), ("PUT", "/b/1"),
                                          ("GET", "/"), ("GET", "a"), ("DELETE", "/zz/y")]]
    nf, na, rt, co = {"o": "nf"}, {"o": "na"}, {"o": "router"}, {"o": "cors", "cors": {"mode": "custom", "origins": []}}
    orders = [[], [nf], [na], [nf, na], [na, nf], [rt], [rt, nf], [rt, na, nf], [rt, rt, nf], [co, nf], [nf, co], [na, co], [co, na],
              [rt, co, nf, na], [{"o": "nfnil"}], [nf, {"o": "nfnil"}], [{"o": "nfnil"}, nf]]
    if ROUTER_LAST:
        orders += [[nf, rt], [na, rt], [co, rt], [nf, rt, na]]
    for so in orders:
        out.append({"kind": "engine", "via": "server", "sopts": so, "slices": [osl], "mounts": [{"slice": 0, "opts": []}], "reqs": oreqs})
    # jwt-protected ':name' routes, valid tokens whose claims are named like the parameters / the context key
    jsl = [_r("GET", "/a/:x"), _r("GET", "/p/:pathVars/:id"), _r("POST", "/:y")]
    jclaims = [[], [{"k": "x", "v": "evil"}], [{"k": "pathVars", "v": "evil"}], [{"k": "pathVars", "v": {"x": "evil"}}],
               [{"k": "id", "v": 5}, {"k": "y", "v": None}, {"k": "pathVars", "v": 7}, {"k": "rest/pathvar/context key: pathVars", "v": 1}]]
    for via in ("server", "engine"):
        for jopt in ({"o": "jwt", "v": "verif-secret-1"}, {"o": "jwtx", "v": "verif-secret-1", "p": "verif-prev-1"}):
            out.append({"kind": "engine", "via": via, "slices": [jsl],
                        "mounts": [{"slice": 0, "opts": [{"o": "prefix", "v": "/v1"}, jopt]}, {"slice": 0, "opts": []}],
                        "reqs": [dict(q, sec="verif-secret-1", claims=cl) for cl in jclaims for q in
                                 [{"m": "GET", "p": "/v1/a/7"}, {"m": "GET", "p": "/v1/p/q/9"}, {"m": "POST", "p": "/v1/w"},
                                  {"m": "GET", "p": "/a/7"}, {"m": "GET", "p": "/v1/zz/zz/zz"}, {"m": "PUT", "p": "/v1/a/7"}]]})
    return out


# ----------------------------------------------------------------------------- driving
def _norm_tree_obs(case, o):
    res = []
    for r in o["res"]:
        res.append({"clean": None, "status": (200 if r["item"] >= 0 else 0) if r["found"] else 404,
                    "hids": [r["item"]] if r["found"] and r["item"] >= 0 else [],
                    "vars": r["vars"], "allow": [], "nf": 0})
    return {"errs": o["errs"], "rclean": None, "res": res}


def _norm(case):
    """router cases of earlier rounds (regs then reqs) as histories"""
    if case.get("kind") == "router" and "ops" not in case:
        return {"kind": "router", "nf": case.get("nf", False),
                "ops": [dict(r, op="reg") for r in case.get("regs", [])] + [dict(r, op="req") for r in case.get("reqs", [])]}
    if case.get("kind") == "engine" and "mounts" not in case:
        return {"kind": "engine", "via": case.get("via", "engine"), "reqs": case.get("reqs", []), "cors": case.get("cors"),
                "sopts": case.get("sopts"),
                "slices": [g["routes"] for g in case.get("groups", [])],
                "mounts": [{"slice": i, "opts": [] if g.get("prefix") is None else [{"o": "prefix", "v": g["prefix"]}]}
                           for i, g in enumerate(case.get("groups", []))]}
    return case


def drive(cases, tier):
    cases = [_norm(c) for c in cases]
    idx_r = [i for i, c in enumerate(cases) if c["kind"] == "router"]
    idx_t = [i for i, c in enumerate(cases) if c["kind"] == "tree"]
    idx_e = [i for i, c in enumerate(cases) if c["kind"] == "engine"]
    obs = [None] * len(cases)
    logs = []
    for pkg, idx, name, run in ((GO_PKG, idx_r, "C03r", "^TestVerifDriver$"), (GO_PKG_TREE, idx_t, "C03t", "^TestVerifDriver$"),
                                (GO_PKG_ENGINE, idx_e, "C03e", "^TestVerifDriverC03$")):
        if not idx:
            continue
        o, lg = vlib.run_driver(pkg, [cases[i] for i in idx], name=name + tier[0], timeout=600, run=run)
        logs.append(lg)
        if o is None:
            return None, "\n".join(logs)
        for i, x in zip(idx, o):
            obs[i] = x
    return obs, "\n".join(logs)


# ----------------------------------------------------------------------------- encoding
ERR = {"": 0, "method": 1, "path": 2, "dup": 3, "dupslash": 4, "notfromroot": 5, "invalidstate": 6}


def _b(s):
    """Coq byte list of a str (utf-8) or bytes value"""
    bs_ = s if isinstance(s, bytes) else s.encode("utf-8")
    if all(32 <= c < 127 for c in bs_):
        return "(bs %s)" % cstr(bs_.decode("ascii"))
    return cbytes(bs_)


def _req_path(rq):
    """the path the request is meant to carry: given directly, or (raw target) hex of the decoded path"""
    return bytes.fromhex(rq["ph"]) if rq.get("raw") else rq["p"].encode("utf-8")


def _row(p, r):
    """mkobs term for a router / engine observation (hex fields) of a request meant to carry path p (bytes)"""
    clean = bytes.fromhex(r["clean"])
    served = bytes.fromhex(r["path"])
    cl = "None" if clean == p else "(Some %s)" % _b(clean)
    op = "None" if served == p and not r.get("_raw") else "(Some %s)" % _b(served)
    return "mkobs %s %s %s %s %s %s %s" % (
        cl, "%d%%N" % r["status"], clist([cnat(h) for h in r["hids"]]),
        clist([cpair(_b(k), _b(bytes.fromhex(v))) for k, v in r["vars"]]),
        clist([_m(a) for a in r["allow"]]), cnat(r["nf"]), op)


MT = METHODS + BAD_METHODS


def _m(m):
    return "(mt %d)" % MT.index(m) if m in MT else cstr(m)


def encode(case, obs):
    case = _norm(case)
    if "driver_panic" in obs or "error" in obs:
        # unparsable observation: a case no checker accepts
        return "mkcase false false [] [1] [] [] [] [] None []"
    if case["kind"] == "engine":
        return _encode_engine(case, obs)
    if case["kind"] == "router":
        return _encode_router(case, obs)
    regs = [("", p) for p in case["adds"]]
    reqs = [("", p) for p in case["reqs"]]
    obs = _norm_tree_obs(case, obs)
    cregs = clist([cpair(_m(m), _b(p)) for m, p in regs])
    cerrs = clist([cnat(ERR.get(e, 9)) for e in obs["errs"]])
    rows = []
    for (m, p), r in zip(reqs, obs["res"]):
        rows.append("mkobs (xsome_clean %s) %s %s %s [] 0 None" % (
            _b(p), "%d%%N" % r["status"], clist([cnat(h) for h in r["hids"]]),
            clist([cpair(_b(k), _b(v)) for k, v in r["vars"]])))
    return "mkcase true false %s %s (xcleans %s) %s %s [] None []" % (
        cregs, cerrs, cregs, clist([cpair(_m(m), _b(p)) for m, p in reqs]), clist(rows))


def _encode_router(case, obs):
    ops = []
    for op, r in zip(case["ops"], obs["res"]):
        if op["op"] == "reg":
            ops.append("XReg %s %s %s %s" % (_m(op["m"]), _b(op["p"]), cnat(ERR.get(r["err"], 9)), _b(bytes.fromhex(r["clean"]))))
        elif r.get("badreq"):
            continue                                  # net/http refused the raw target: nothing was served
        else:
            p = _req_path(op)
            ops.append("XReq %s %s (%s)" % (_m(op["m"]), _b(p), _row(p, dict(r, _raw=bool(op.get("raw"))))))
    return "mkcase false %s [] [] [] [] [] [] None %s" % (cbool(bool(case.get("nf"))), clist(ops))


def _sopts(case):
    """NewServer options in order (the legacy `cors` field is one more option at the end)"""
    out = list(case.get("sopts") or [])
    if case.get("cors"):
        out.append({"o": "cors", "cors": case["cors"]})
    return out if case.get("via") == "server" else []


def _sopt(o):
    return {"nf": "(xnf true)", "nfnil": "(xnf false)", "na": "xna", "cors": "xcors", "router": "xrouter"}[o["o"]]


def _router_last(case):
    """a handler option followed by a later WithRouter: the option is discarded (finding withrouter-drops-handlers)"""
    seen = False
    for o in _sopts(case):
        if o["o"] == "router" and seen:
            return True
        if o["o"] in ("nf", "na", "cors"):
            seen = True
    return False


def classify(case, obs):
    case = _norm(case)
    if case.get("kind") == "engine" and _router_last(case):
        return "withrouter-drops-handlers"
    return None


def _finding_listed(cls):
    try:
        with open(os.path.join(vlib.VERIF, "KNOWN_FINDINGS.txt")) as f:
            return any(l.startswith("finding:") and "property=C03 " in l and ("class=" + cls) in l for l in f)
    except OSError:
        return False


# orders in which WithRouter comes after a handler option violate the statement on the unchanged tree; they are
# generated only when that finding is listed in KNOWN_FINDINGS.txt (or C03_ROUTER_LAST=1)
ROUTER_LAST = os.environ.get("C03_ROUTER_LAST", "1" if _finding_listed("withrouter-drops-handlers") else "0") == "1"


def _encode_engine(case, obs):
    if len(obs.get("after", [])) != len(case["slices"]):
        return "mkcase false false [] [1] [] [] [] [] None []"
    reqs, rows = [], []
    for rq, r in zip(case["reqs"], obs["res"]):
        if r.get("badreq"):
            continue
        p = _req_path(rq)
        reqs.append((rq["m"], p))
        rows.append(_row(p, dict(r, _raw=bool(rq.get("raw")))))
    base, n = [], 0
    for sl in case["slices"]:
        base.append(n)
        n += len(sl)
    gs = []
    for mt in case["mounts"]:
        sl = case["slices"][mt["slice"]]
        rs = [cpair(_m(r["m"]), _b(r["p"]), cnat(base[mt["slice"]] + k)) for k, r in enumerate(sl)]
        gs.append(cpair(clist([_b(o["v"]) for o in mt["opts"] if o["o"] == "prefix"]), clist(rs)))

    def mp(r):
        return cpair(_m(r["m"]), _b(r["p"]))
    eo = "(Some (mkeobs %s %s %s %s %s))" % (
        cnat(ERR.get(obs["err"], 9)), clist([mp(r) for r in obs["routes"]]),
        clist([cpair(clist([mp(r) for r in before]), clist([mp(r) for r in after]))
               for before, after in zip(case["slices"], obs["after"])]),
        clist([cpair(_m(c["m"]), _b(c["p"]), cnat(ERR.get(c["err"], 9))) for c in obs["calls"]]),
        clist([_sopt(o) for o in _sopts(case)]))
    return "mkcase false false [] [] [] %s %s %s %s []" % (
        clist([cpair(_m(m), _b(p)) for m, p in reqs]), clist(rows), clist(gs), eo)


# ----------------------------------------------------------------------------- evidence helpers
def _res(case, obs):
    if case["kind"] == "tree":
        return _norm_tree_obs(case, obs)["res"]
    return obs.get("res", [])


def _req_rows(case, obs):
    case = _norm(case)
    """(request, result) pairs with status / hids / vars present"""
    if case["kind"] == "tree":
        return list(zip(case["reqs"], _norm_tree_obs(case, obs)["res"]))
    if case["kind"] == "engine":
        return [(q, r) for q, r in zip(case["reqs"], obs.get("res", [])) if not r.get("badreq")]
    return [(o, r) for o, r in zip(case["ops"], obs.get("res", [])) if o["op"] == "req" and not r.get("badreq")]


def nontrivial(case, obs):
    rs = [r for _, r in _req_rows(case, obs)]
    return any(r["status"] == 200 and r["vars"] for r in rs) and any(r["status"] in (404, 405) for r in rs)


def _segs(clean):
    return clean[1:].split("/") if clean.startswith("/") else None


def bucket(case, obs):
    case = _norm(case)
    out = ["kind:" + case["kind"]]
    rows = _req_rows(case, obs)
    for _, r in rows:
        out.append("status:%d" % r["status"])
    if case["kind"] == "tree":
        for e in obs.get("errs", []):
            out.append("reg:" + (e.split(":")[0] or "ok"))
    if case["kind"] == "engine":
        out.append("engine:via=" + case["via"])
        out.append("engine:bind=" + (obs["err"].split(":")[0] or "ok"))
        npre = [sum(1 for o in mt["opts"] if o["o"] == "prefix") for mt in case["mounts"]]
        if any(npre):
            out.append("engine:prefix")
        if any(k >= 2 for k in npre):
            out.append("engine:nested-prefix")
        used = [mt["slice"] for mt in case["mounts"]]
        if len(set(used)) < len(used):
            out.append("engine:slice-mounted-twice")
        if any(o["o"] != "prefix" for mt in case["mounts"] for o in mt["opts"]):
            out.append("engine:other-options")
        if any(mt.get("mw") for mt in case["mounts"]):
            out.append("engine:with-middlewares")
        so = [o["o"] for o in _sopts(case)]
        if so:
            out.append("sopts:" + ",".join(so))
        for q, r in rows:
            if r["nf"] % 10:
                out.append("srv:custom-notfound-answered")
            if (r["nf"] // 10) % 10:
                out.append("srv:custom-notallowed-answered")
        if any(o["o"] == "cors" for o in _sopts(case)):
            case = dict(case, cors=[o["cors"] for o in _sopts(case) if o["o"] == "cors"][-1])
        if case.get("cors"):
            out.append("engine:cors=" + case["cors"]["mode"])
            for q, r in rows:
                pre = any(k == "Access-Control-Request-Method" for k, _ in q.get("hdr", []))
                if q["m"] == "OPTIONS":
                    out.append("cors:options")
                elif pre and r["status"] == 200:
                    out.append("cors:non-options-with-preflight-headers-dispatched")
                elif pre:
                    out.append("cors:non-options-with-preflight-headers-%d" % r["status"])
        if any(o["o"] in ("jwt", "jwtx") for mt in case["mounts"] for o in mt["opts"]):
            out.append("engine:jwt")
            for q, r in rows:
                names = {c["k"] for c in q.get("claims", [])}
                if r["status"] == 200 and r["vars"]:
                    if names & {k for k, _ in r["vars"]}:
                        out.append("jwt:claim-named-like-bound-param")
                    if "pathVars" in names:
                        out.append("jwt:claim-named-pathVars-with-vars")
    if case["kind"] in ("engine", "router"):
        for q, r in rows:
            if q.get("raw"):
                out.append("req:raw")
                if r["vars"] and any(b"%" in bytes.fromhex(v) for _, v in r["vars"]):
                    out.append("req:raw-var-with-percent")
    if case["kind"] == "router":
        regs_seen, interleaved = 0, False
        acc_ok = {}
        seen_req = False
        for i, (o, r) in enumerate(zip(case["ops"], obs.get("res", []))):
            if o["op"] == "reg":
                out.append("reg:" + (r["err"].split(":")[0] or "ok"))
                regs_seen += 1
                if seen_req:
                    interleaved = True
                    out.append("hist:reg-after-req")
                cl = bytes.fromhex(r["clean"]).decode("utf-8", "replace")
                if r["err"] == "" and cl.startswith("/"):
                    acc_ok[i] = (o["m"], _segs(cl))
                continue
            seen_req = True
            if r.get("badreq"):
                out.append("req:badreq")
                continue
            if bytes.fromhex(r["clean"]) != bytes.fromhex(r["path"]):
                out.append("req:dirty")
            if len(r.get("allow", [])) >= 2:
                out.append("allow>=2")
            if r["status"] == 200 and len(r["hids"]) == 1:
                q = _segs(bytes.fromhex(r["clean"]).decode("utf-8", "replace"))
                won = acc_ok.get(r["hids"][0])
                if q is None or won is None:
                    continue
                for k, (m, pat) in acc_ok.items():
                    if m != o["m"] or k == r["hids"][0]:
                        continue
                    for d in range(min(len(pat), len(q), len(won[1]))):
                        if not (pat[d].startswith(":") or pat[d] == q[d]):
                            break
                        if pat[d] == q[d] and won[1][d].startswith(":"):
                            out.append("backtrack")
                            break
        out.append("regs=%d" % regs_seen)
        if interleaved:
            out.append("hist:interleaved")
    return out


def explain(case, obs):
    return ("observed routing contradicts C03.Exec.spec_ok: a registration that must be rejected was accepted, or a "
            "request was not answered by a handler of a matching pattern of its method (literal-only pattern first, "
            "':name' bound to its segment), or the 404/405/Allow partition is wrong")


# ----------------------------------------------------------------------------- shrinking
def _spec_fails(cands):
    """indices of the candidate cases whose observed behaviour falsifies spec_ok (re-driven)"""
    if not cands:
        return [], []
    obs, _ = drive(cands, "shrink")
    if obs is None:
        return [], []
    res = vlib.coq_eval(ID, "C03.Exec", [encode(c, o) for c, o in zip(cands, obs)], shard=SHARD,
                        checks=("spec_ok",), tag="k")
    return res["spec_ok"], obs


def shrink(v):
    """router histories: drop ops greedily (keeping order) while spec_ok stays false; tree: one failing
    request then drop adds; engine: one failing request"""
    case = v["case"]
    if case["kind"] == "engine":
        cands = [dict(case, reqs=[q]) for q in case["reqs"]] + [dict(case, reqs=[])]
        bad, obs = _spec_fails(cands)
        if not bad:
            return v
        cur, cur_obs = cands[bad[0]], obs[bad[0]]
        for _ in range(6):
            cands = [dict(cur, mounts=cur["mounts"][:j] + cur["mounts"][j + 1:]) for j in range(len(cur["mounts"]))]
            cands += [dict(cur, mounts=[dict(mt, opts=mt["opts"][:k] + mt["opts"][k + 1:]) if j == jj else mt
                                       for jj, mt in enumerate(cur["mounts"])])
                      for j, mt0 in enumerate(cur["mounts"]) for k in range(len(mt0["opts"])) if mt0["opts"][k]["o"] != "prefix"]
            bad, obs = _spec_fails(cands)
            if not bad:
                break
            cur, cur_obs = cands[bad[0]], obs[bad[0]]
        return {"case": cur, "obs": cur_obs}
    if case["kind"] == "router":
        cur, cur_obs = case, v["obs"]
        # first: a prefix ending at a request (histories are judged step by step)
        cands = [dict(case, ops=case["ops"][:k + 1]) for k, o in enumerate(case["ops"]) if o["op"] == "req"]
        bad, obs = _spec_fails(cands)
        if bad:
            cur, cur_obs = cands[bad[0]], obs[bad[0]]
        # delta debugging on the ops before the failing request (order kept)
        body, last, n = cur["ops"][:-1], cur["ops"][-1:], 2
        for _ in range(30):
            if not body:
                break
            chunk = -(-len(body) // n)
            cands = [dict(cur, ops=body[:k] + body[k + chunk:] + last) for k in range(0, len(body), chunk)]
            bad, obs = _spec_fails(cands)
            if bad:
                cur, cur_obs = cands[bad[0]], obs[bad[0]]
                body, n = cur["ops"][:-1], max(n - 1, 2)
            elif chunk == 1:
                break
            else:
                n = min(len(body), n * 2)
        return {"case": cur, "obs": cur_obs}
    cands = [dict(case, reqs=[q]) for q in case["reqs"]]
    bad, obs = _spec_fails(cands)
    if not bad:
        return v
    cur, cur_obs = cands[bad[0]], obs[bad[0]]
    for _ in range(12):
        cands = [dict(cur, adds=cur["adds"][:j] + cur["adds"][j + 1:]) for j in range(len(cur["adds"]))]
        bad, obs = _spec_fails(cands)
        if not bad:
            break
        cur, cur_obs = cands[bad[0]], obs[bad[0]]
    return {"case": cur, "obs": cur_obs}
