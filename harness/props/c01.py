"""C01 circuit breaker.

kind "b": lib/breaker in-package driver: interleaved Begin/End (Do*), Allow/Accept/Reject, clock advances over
          1-3 named breakers (registry), scripted coin (mathx.VerifNewProba) and virtual clock
kind "p": one value of a finite error/status set fed to the real benign-outcome predicate of an integration
          (rpc/internal/codes, lib/store/sqlx, lib/store/redis, api/handler)
"""
from vlib import cZ, cnat, cbool, clist, cpair, run_driver

ID = "C01"
GO_PKG = "./lib/breaker"
GEN_SPEC = {"imports": ["From God Require Import C01.GenEnv."], "items": [
    {"kind": "const", "file": "lib/breaker/googlebreaker.go", "name": "window"},
    {"kind": "const", "file": "lib/breaker/googlebreaker.go", "name": "buckets"},
    {"kind": "const", "file": "lib/breaker/googlebreaker.go", "name": "k"},
    {"kind": "const", "file": "lib/breaker/googlebreaker.go", "name": "protection"},
    {"kind": "cases", "file": "rpc/internal/codes/accept.go", "func": "Acceptable", "as": "grpc_cases"},
    {"kind": "calls", "file": "lib/breaker/googlebreaker.go", "func": "googleBreaker.doReq", "as": "doreq_calls"},
    {"kind": "calls", "file": "lib/breaker/googlebreaker.go", "func": "googleBreaker.accept", "as": "accept_calls"},
    {"kind": "calls", "file": "lib/breaker/googlebreaker.go", "func": "googleBreaker.allow", "as": "allow_calls"},
    {"kind": "calls", "file": "lib/breaker/googlebreaker.go", "func": "googlePromise.Accept", "as": "paccept_calls"},
    {"kind": "calls", "file": "lib/breaker/googlebreaker.go", "func": "googlePromise.Reject", "as": "preject_calls"},
    {"kind": "calls", "file": "api/handler/breakerhandler.go", "func": "BreakerHandler", "as": "http_calls"},
    {"kind": "calls", "file": "rpc/internal/serverinterceptors/breakerinterceptor.go", "func": "UnaryBreakerInterceptor",
     "as": "srv_int_calls"},
    {"kind": "calls", "file": "rpc/internal/clientinterceptors/breakerinterceptor.go", "func": "BreakerInterceptor",
     "as": "cli_int_calls"},
    {"kind": "calls", "file": "api/internal/response/withcoderesponsewriter.go", "func": "WithCodeResponseWriter.WriteHeader",
     "as": "cw_writeheader_calls"},
    {"kind": "calls", "file": "api/internal/response/withcoderesponsewriter.go", "func": "WithCodeResponseWriter.Write",
     "as": "cw_write_calls"},
    {"kind": "calls", "file": "api/internal/response/withcoderesponsewriter.go", "func": "WithCodeResponseWriter.Flush",
     "as": "cw_flush_calls"},
    {"kind": "calls", "file": "lib/breaker/breakers.go", "func": "Get", "as": "get_calls"},
    {"kind": "func", "file": "lib/store/redis/redis.go", "name": "acceptable", "as": "redis_acceptable"},
    {"kind": "func", "file": "lib/store/sqlx/conn.go", "name": "commonConn.acceptable", "as": "sqlx_acceptable",
     "calls": {"db.accept": "f_accept_fn"}},
    {"kind": "func", "file": "lib/breaker/breaker.go", "name": "defaultAcceptable", "as": "default_acceptable"},
]}
COQ_FILES = ["theories/C01/Props.v", "theories/C01/Link.v", "theories/C01/Proofs.v", "theories/C01/Registry.v"]
QUICK_N = 360
THOROUGH_N = 8000
SHARD = 100
RULE = ("breaker histories of 20-140 events over 1-3 registry names through the public Breaker: Begin(kind in Do/DoWithAcceptable/"
        "DoWithFallback/DoWithFallbackAcceptable, for the ...Acceptable variants a caller predicate in {nil-or-acceptable-error, "
        "REJECTS nil, accepts every error, accepts nothing}, coin) / End(outcome ok 50%, acceptable err 20%, unacceptable err 20%, panic(string) / panic(nil) 10%, with "
        "failure phases) interleaved across calls, Allow/Accept/Reject, advances in {0,<250ms,k*250ms-1..+1,2.5s,9.75s,"
        "10s-1,10s,10s+1,>10s}; coins uniform, 0, 2^53-1 and the three 53-bit values around the drop ratio computed by the "
        "generator's own simulation; plus the finite sets: gRPC codes 0..16, sqlx {nil,ErrNoRows,ErrTxDone,Canceled,other} "
        "with/without a user accept predicate, redis {nil,Canceled,redis.Nil,other}, HTTP statuses (quick: ~40 incl. "
        "100,200,404,499,500,501,503,599; thorough: all 100..599), HTTP response shapes (Write without WriteHeader, nothing "
        "written, WriteHeader+Write+Flush+Write, Write+Flush+Write, Flush only, panic under RecoverHandler) sustained 200 "
        "requests each through one BreakerHandler with WithCodeResponseWriter.Code probed, server UnaryBreakerInterceptor "
        "(inside UnaryCrashInterceptor) and client BreakerInterceptor with every gRPC code 0..16 returned and panic(string|"
        "error), 200 calls each; sqlx call sites (all 7: ExecCtx PrepareCtx QueryRow[s][Partial]Ctx TransactCtx x "
        "{ErrNoRows, ErrTxDone, Canceled, other; MySQL 1062/1000 under NewMySQL's option}) and redis call sites (all 7: HGet LPop "
        "ZScore RPop Get Incr ZRank x {ok, cancelled ctx, redis.Nil, WRONGTYPE}) against miniredis, 200 calls each; server "
        "StreamBreakerInterceptor like the unary one; per run 6 fixed (per side: expiring caller deadline x120 after <= 5 cancelled calls; cancelled-only) + 12 random mixed streams (thorough 150) of 40-160 calls through the client / server "
        "unary / server stream interceptor with live, expired-deadline and cancelled caller contexts and panics; "
        "8 identity streams (two full method names sharing a base name: Ledger/Get vs Profile/Get, User/Watch vs health Watch; three HTTP routes GET/POST /a/get, GET /b/get: one name keeps failing, the others only succeed) and 4 engine streams (api/engine.go bindRoute chain, Config.Timeout 0 and > 0, a handler panicking on every request); sustained interceptor streams for every gRPC code 0..16 and 17, 20, 99; 3 concurrent-draw cases (64 / 8-32 goroutines inside accept at once on an open breaker with the first draw held inside Proba.TrueOnProba, every draw coin 0; one closed breaker); engine streams also carry clients disconnecting mid-flight (request context cancelled while the route runs: 499 under a timeout handler); registry stream: 6 cases (thorough 40) x 200 fresh names, G = 2..8 goroutines making "
        "their first use of the name together through Get / Do / DoWithAcceptable with the all-miss interleaving forced "
        "(driver holds the write lock until all are parked in RLock), then 50 failures through the first handle and probes "
        "through the last handle and through Do(name); non-trivial = a history with at least one rejection and "
        "one completed call, or any predicate case; distinct = distinct canonical case JSON")
TRUSTED = ["IEEE-754 binary64 division of the Go build = Coq PrimFloat (drop ratio); rand.Float64 = Int63/2^63 with the "
           "scripted source returning m<<10, so the coin is exactly m/2^53",
           "RollingWindow operations are linearised by rw.lock (C09 Link); mathx.Proba by its own lock",
           "uniformity of math/rand for the 'probability approaching 1' reading of c01_failing_is_cut_off",
           "HTTP: BreakerHandler observed black-box (30 marks then 60 probes; a failure-marking status is cut off with "
           "probability > 1 - 1e-30)"]
ASSUMPTIONS = ["coin_lt_sound: for a double u, u < fl(r) implies u < r (round-to-nearest); named hypothesis of the theorems, "
               "checked on every observed rejection by spec_ok (exact integer comparison)",
               "calls are atomic in time (clock advances only between events)",
               "sides 5 / 6 of the mixed streams run against real-time budgets (client timeout 25-40 ms, server timeout 30 ms): "
               "whether an instant backend call still overran its budget is read off the observation (let in, DeadlineExceeded "
               "came back although another code was scripted => the call is an overrun, class 6, for model and statement); "
               "the evidence counts such streams under m:instant-backend-overran-the-real-time-budget"]

I = 250_000_000
P53 = 1 << 53
SEC = 1_000_000_000


class Sim:
    """generator-side copy of the admission rule, only used to aim coins at the decision boundary"""

    def __init__(self):
        self.t0 = {}
        self.log = {}

    def counts(self, name, now):
        if name not in self.t0:
            self.t0[name] = now
            self.log[name] = []
        t0 = self.t0[name]
        j = (now - t0) // I
        a = t = 0
        for (s, v) in self.log[name]:
            js = (s - t0) // I
            if j - 40 < js <= j:
                a += v
                t += 1
        return a, t

    def ratio(self, name, now):
        a, t = self.counts(name, now)
        return max(0.0, (float(t - 5) - 1.5 * float(a)) / float(t + 1))

    def mark(self, name, now, v):
        self.counts(name, now)
        self.log[name].append((now, v))


def coin(rng, r):
    x = rng.random()
    if r > 0 and x < 0.45:
        mb = int(r * P53)
        return min(max(mb + rng.choice([-1, 0, 1]), 0), P53 - 1)
    if x < 0.55:
        return 0
    if x < 0.62:
        return P53 - 1
    return rng.randrange(P53)


def pred_ok(kind, o):
    """generator-side copy of Model.acceptable (only used to aim coins)"""
    base, p = kind % 4, (kind // 4) % 4
    if o in (3, 4):
        return False
    if o == 5:
        o = 2          # ErrServiceUnavailable of an inner breaker: an ordinary error for this breaker's predicate
    if base in (0, 2):
        return o == 0
    return {0: o in (0, 1), 1: o == 1, 2: True, 3: False}[p]


def gen_history(rng):
    sim = Sim()
    now = 3600 * SEC
    names = list(range(rng.choice([1, 1, 2, 3])))
    evs = []
    running = {}      # id -> (name, kind) believed admitted
    promises = {}     # id -> name
    nid = 0
    bad = {n: rng.random() < 0.65 for n in names}
    for _ in range(rng.randint(20, 140)):
        x = rng.random()
        n = rng.choice(names)
        if rng.random() < 0.06:
            bad[n] = not bad[n]
        if x < 0.44:
            kind = rng.randrange(4)
            if kind in (1, 3) and rng.random() < 0.6:
                kind += 4 * rng.randint(1, 3)      # caller predicate: 1 rejects nil, 2 accepts every error, 3 accepts nothing
            if rng.random() < 0.35:
                kind += 16                          # through the package-level Do*(name, ...) of the registry
            r = sim.ratio(n, now)
            m = coin(rng, r)
            evs.append([0, n, nid, kind, m])
            if not (r > 0 and m / P53 < r):
                running[nid] = (n, kind)
            nid += 1
        elif x < 0.8 and running:
            i = rng.choice(sorted(running))
            n, kind = running.pop(i)
            if bad[n]:
                o = rng.choice([2, 2, 2, 5, 5, 3, 4, 1, 0])
            else:
                o = rng.choice([0, 0, 0, 0, 0, 0, 1, 1, 2, 2, 5, 5, 3, 4])
            evs.append([1, i, o])
            ok = pred_ok(kind, o)
            sim.mark(n, now, 1 if ok else 0)
        elif x < 0.85:
            r = sim.ratio(n, now)
            m = coin(rng, r)
            evs.append([2, n, nid, m])
            if not (r > 0 and m / P53 < r):
                promises[nid] = n
            nid += 1
        elif x < 0.9 and promises:
            i = rng.choice(sorted(promises))
            n = promises.pop(i)
            if rng.random() < (0.2 if bad[n] else 0.8):
                evs.append([3, i])
                sim.mark(n, now, 1)
            else:
                evs.append([4, i])
                sim.mark(n, now, 0)
        else:
            k = rng.randint(1, 41)
            dt = rng.choice([0, 1, I - 1, I, I + 1, rng.randrange(I), rng.randrange(3 * I), rng.randrange(I), 2 * I, 3 * I + 1,
                             k * I - 1, k * I, k * I + 1, 10 * I, 39 * I, 10 * SEC - 1, 10 * SEC, 10 * SEC + 1, 25 * SEC + 3])
            evs.append([5, dt])
            now += dt
    return {"kind": "b", "events": evs}


HTTP_FIXED = [100, 200, 204, 301, 404, 418, 499, 500, 501, 502, 503, 504, 599]


GRPC_CODES = list(range(17)) + [17, 20, 99]      # every named code and a few unnamed numeric ones


def pred_cases(rng, tier):
    out = [{"kind": "p", "which": 0, "arg": c} for c in GRPC_CODES]
    out += [{"kind": "p", "which": 1, "arg": a} for a in (0, 1, 2, 3, 5, 10, 11, 12, 13, 15)]
    out += [{"kind": "p", "which": 2, "arg": a} for a in (0, 3, 4, 5)]
    if tier == "thorough":
        https = list(range(100, 600))
    else:
        https = sorted(set(HTTP_FIXED + [rng.randrange(100, 600) for _ in range(30)]))
    out += [{"kind": "p", "which": 3, "arg": s, "shape": 0} for s in https]
    # every response shape through one BreakerHandler, 200 requests each
    out += [{"kind": "h", "shape": k, "arg": 0} for k in (1, 2, 4, 5, 6)]
    out += [{"kind": "h", "shape": k, "arg": s} for k in (0, 3)
            for s in sorted(set([200, 404, 499, 500, 503] + [rng.randrange(200, 600) for _ in range(4)]))]
    # sqlx call sites (7 methods x error classes through the public breaker of a commonConn) and redis call sites
    for site in range(7):
        out += [{"kind": "p", "which": 7, "arg": site * 1000 + cl, "site": site, "cl": cl} for cl in (1, 2, 3, 5)]
    for site in (7, 8):      # TransactCtx / Transact: 300 transactions whose BODY returns the class (rollback succeeds), then Exec
        out += [{"kind": "p", "which": 7, "arg": site * 1000 + cl, "site": site, "cl": cl} for cl in (0, 1, 2, 3, 5)]
    s0 = rng.randrange(7)
    out += [{"kind": "p", "which": 7, "arg": s0 * 1000 + 100 + cl, "site": s0, "cl": cl, "mysql": True} for cl in (8, 9, 3)]
    for site in range(7):
        out += [{"kind": "p", "which": 8, "arg": site * 100 + cl, "site": site, "cl": cl} for cl in (0, 3, 4, 5)]
    # HTTP client: api/httpc Service (NewService / NewServiceWithClient) against an httptest server, 200 requests per status
    out += [{"kind": "p", "which": 10, "arg": st, "ctor": i % 2}
            for i, st in enumerate([200, 204, 400, 401, 404, 429, 499, 500, 502, 503, 599, 1000])]
    # RPC breaker interceptors: every gRPC code returned, and panics (string / error)
    for which in (5, 6, 9):
        out += [{"kind": "p", "which": which, "arg": c} for c in GRPC_CODES]    # one sustained stream per code, every run
        out += [{"kind": "p", "which": which, "arg": 100 * p + c} for p in (1, 2) for c in (0, 5)]
    return out


def reg_cases(rng, tier):
    """registry stream: FRESH names, G = 2..8 goroutines make their first use of a name together (Get / Do /
    DoWithAcceptable by a cyclic pattern), the driver forcing all of them to miss under RLock"""
    k = {"quick": 6, "search": 6}.get(tier, 40)
    out = []
    for i in range(k):
        g = [2, 3, 4, 8, 5, 6, 7][i % 7] if i < 7 else rng.randint(2, 8)
        pat = [rng.choice([0, 0, 1, 2]) for _ in range(rng.randint(3, 7))]
        if 0 not in pat[:2]:
            pat[0] = 0
        out.append({"kind": "r", "n": 200 if tier != "search" else 60, "g": g, "pattern": pat})
    return out


def gen_mixed(rng, side=None):
    """mixed stream through one RPC breaker interceptor on a frozen clock: phases of call classes
    (0 live context + status code, 1 expired caller deadline, 2 cancelled caller, 4/5 panic)"""
    side = rng.randrange(3) if side is None else side
    calls = []
    benign_codes = [0, 1, 2, 3, 5, 6, 7, 8, 9, 10, 11, 16]
    bad_codes = [4, 13, 14, 15, 12]

    def one(style):
        if style == "canceled":
            return [2, 0]
        if style == "deadline":
            return [1, 0]
        if style == "benign":
            return [0, rng.choice(benign_codes)]
        if style == "bad":
            return rng.choice([[0, rng.choice(bad_codes)], [1, 0], [4, 0], [5, 0]])
        return rng.choice([[0, rng.randrange(17)], [1, 0], [2, 0]])
    shape = rng.random()
    if shape < 0.3:       # Canceled / benign only, long: never cut off
        for _ in range(rng.randint(60, 150)):
            calls.append(one(rng.choice(["canceled", "canceled", "benign"])))
    elif shape < 0.65:    # few benign, then the caller's deadline keeps expiring: must be cut off
        for _ in range(rng.randint(0, 6)):
            calls.append(one(rng.choice(["canceled", "benign"])))
        for _ in range(rng.randint(90, 160)):
            calls.append(one("deadline"))
    elif shape < 0.85:    # few benign, then failures of every kind
        for _ in range(rng.randint(0, 6)):
            calls.append(one("benign"))
        for _ in range(rng.randint(90, 160)):
            calls.append(one("bad"))
    else:
        for _ in range(rng.randint(40, 160)):
            calls.append(one("any"))
    return {"kind": "m", "side": side, "calls": [c + [0] for c in calls]}


def gen_identity(rng, side, pair=0):
    """two methods sharing their base name (names 0/1: /pkg.Ledger/Get vs /pkg.Profile/Get; 2/3: a user Watch next to a
    health-style Watch) resp. three HTTP routes (GET /a/get, POST /a/get, GET /b/get): one keeps failing, the others
    only succeed, interleaved and in phases -- failures under one name must never reject another"""
    http = side >= 3
    names = rng.choice([[[0, 1], [1, 0]], [[2, 3], [3, 2]]][pair]) if not http else [[0, 1, 2], [1, 0, 2]][side - 3]
    badn, good = names[0], names[1:]
    bad = (lambda: rng.choice([[4, 0], [5, 0], [0, 500], [0, 503]])) if http else \
          (lambda: rng.choice([[0, rng.choice([4, 13, 14, 15, 12])], [1, 0], [4, 0]]))
    ok = (lambda: rng.choice([[0, 200], [1, 0], [2, 0], [0, 404]])) if http else \
         (lambda: rng.choice([[0, 0], [2, 0], [0, 16], [0, 5]]))
    calls = []
    for _ in range(rng.randint(60, 90)):
        calls.append(bad() + [badn])
        if rng.random() < 0.3:
            calls.append(ok() + [rng.choice(good)])
    for _ in range(rng.randint(60, 90)):
        calls.append(ok() + [rng.choice(good)])
        if rng.random() < 0.2:
            calls.append(bad() + [badn])
    return {"kind": "m", "side": side, "calls": calls}


def gen_engine(rng, side):
    """requests through the chain the engine assembles for a route (Config.Timeout 0 for side 3, > 0 for side 4):
    a handler that panics on every request after a few good answers; or only statuses below 500 / implicit 200s"""
    calls = []
    shape = rng.random()
    if shape < 0.6:
        for _ in range(rng.randint(0, 5)):
            calls.append(rng.choice([[0, 200], [1, 0], [2, 0]]) + [0])
        for _ in range(rng.randint(90, 140)):
            calls.append(rng.choice([[4, 0], [5, 0], [7, 0], [8, 0], [9, 0]]) + [0])
    elif shape < 0.8:
        for _ in range(rng.randint(80, 140)):
            calls.append(rng.choice([[0, 200], [0, 404], [0, 499], [1, 0], [2, 0], [0, 301], [10, 0], [10, 0]]) + [0])
    else:
        for _ in range(rng.randint(60, 140)):
            calls.append(rng.choice([[0, 200], [0, 500], [4, 0], [1, 0], [0, 502], [2, 0], [10, 0]]) + [0])
    return {"kind": "m", "side": side, "calls": calls, "timeout": 0 if side == 3 else rng.choice([1000, 3000])}


def mixed_cases(rng, tier):
    k = {"quick": 12, "search": 12}.get(tier, 150)
    fixed = []
    for side in range(3):
        # the caller's deadline keeps expiring after a few cancelled calls: must be cut off; cancelled only: never
        fixed.append({"kind": "m", "side": side, "calls": [[2, 0, 0]] * rng.randint(0, 5) + [[1, 0, 0]] * 120})
        fixed.append({"kind": "m", "side": side, "calls": [[2, 0, 0]] * 120 + [[0, 0, 0]] * 10 + [[2, 0, 0]] * 20})
    for side in range(5):
        # breaker identity: full method names / routes (every run, both name pairs for RPC)
        fixed.append(gen_identity(rng, side, 0))
        if side < 3:
            fixed.append(gen_identity(rng, side, 1))
    for side in (3, 4):
        # the engine's own chain: a handler that panics on every request (every run, both timeout settings)
        fixed.append({"kind": "m", "side": side, "timeout": 0 if side == 3 else 3000,
                      "calls": [[0, 200, 0]] * rng.randint(0, 4) + [[4 + (i % 2), 0, 0] for i in range(120)]})
        # clients disconnecting mid-flight, many in a row, on a healthy route: never cut off
        fixed.append({"kind": "m", "side": side, "timeout": 0 if side == 3 else 3000,
                      "calls": [[0, 200, 0]] * rng.randint(0, 3) + [[10, 0, 0]] * rng.randint(30, 60) + [[0, 200, 0]] * 10})
        # ... and one aborting every request with the sentinel http.ErrAbortHandler (what ReverseProxy raises), panic(nil), runtime errors
        fixed.append({"kind": "m", "side": side, "timeout": 0 if side == 3 else 3000,
                      "calls": [[0, 200, 0]] * rng.randint(0, 4) + [[8, 0, 0]] * 110})
        fixed.append({"kind": "m", "side": side, "timeout": 0 if side == 3 else 1000,
                      "calls": [[rng.choice([7, 8, 9]), 0, 0] for _ in range(110)]})
        fixed.append(gen_engine(rng, side))
    # the composed client chain of rpc/internal/client.go over a real transport: a backend overrunning the client timeout
    # (the client timeout is REAL time: large enough that an instant backend normally answers within it; a call that
    # overruns it anyway is read off the observation, see overran())
    fixed.append({"kind": "m", "side": 5, "timeout": 25,
                  "calls": [[0, 0, 0]] * rng.randint(0, 3) + [[6, 0, 0]] * 75 + [[0, 0, 0]] * 5})
    fixed.append({"kind": "m", "side": 5, "timeout": rng.choice([25, 40]),
                  "calls": [rng.choice([[0, 0, 0], [0, 5, 0], [0, 16, 0], [6, 0, 0], [0, 14, 0]]) for _ in range(rng.randint(40, 80))]})
    # a STARTED rpc/internal Server (Start's chain, timeout interceptor added through AddUnaryInterceptors): a hung handler
    fixed.append({"kind": "m", "side": 6, "calls": [[0, 0, 0]] * rng.randint(0, 3) + [[6, 0, 0]] * 75 + [[0, 0, 0]] * 5})
    fixed.append({"kind": "m", "side": 6,
                  "calls": [rng.choice([[0, 0, 0], [0, 5, 0], [0, 16, 0], [6, 0, 0], [0, 13, 0]]) for _ in range(rng.randint(40, 80))]})
    return fixed + [gen_mixed(rng, i % 3) for i in range(k)]


def conc_cases(rng, tier):
    """concurrent draws: g goroutines inside accept() of an open breaker at once (first draw held inside Proba.TrueOnProba),
    every draw says drop; plus one closed breaker (fails <= 5: no draw, everybody let in)"""
    out = [{"kind": "c", "g": 64, "fails": 50}, {"kind": "c", "g": rng.choice([8, 16, 32]), "fails": rng.randint(7, 40)},
           {"kind": "c", "g": rng.choice([4, 8]), "fails": rng.randint(0, 5)}]
    if tier == "thorough":
        out += [{"kind": "c", "g": rng.choice([2, 8, 64, 128]), "fails": rng.randint(0, 80)} for _ in range(20)]
    return out


def generate(rng, tier, n):
    cases = (pred_cases(rng, tier) if tier in ("quick", "thorough", "search") else []) + reg_cases(rng, tier) + mixed_cases(rng, tier) + conc_cases(rng, tier)
    while len(cases) < n:
        cases.append(gen_history(rng))
    return cases


PKG = {0: "./rpc/internal/codes", 1: "./lib/store/sqlx", 2: "./lib/store/redis", 3: "./api/handler",
       5: "./rpc/internal/serverinterceptors", 6: "./rpc/internal/clientinterceptors",
       7: "./lib/store/sqlx", 8: "./lib/store/redis", 9: "./rpc/internal/serverinterceptors", 10: "./api/httpc"}


def wire(c):
    """what the driver reads"""
    if c["kind"] == "p" and c["which"] in (7, 8):
        return {"site": c["site"], "arg": c["cl"], "mysql": bool(c.get("mysql"))}
    if c["kind"] == "p" and c["which"] == 9:
        return {"arg": c["arg"], "stream": True}
    if c["kind"] == "m":
        return {"calls": c["calls"], "stream": c["side"] == 2, "timeout": c.get("timeout", 0)}
    return c


def drive(cases, tier):
    obs = [None] * len(cases)
    logs = []
    groups = [("b", None, "./lib/breaker"), ("h", None, "./api/handler")] + [("p", w, PKG[w]) for w in sorted(PKG)]
    groups.append(("r", None, "./lib/breaker"))
    groups.append(("c", None, "./lib/breaker"))
    groups += [("m", 0, "./rpc/internal/clientinterceptors"), ("m", 1, "./rpc/internal/serverinterceptors"), ("m", 3, "./api"),
               ("m", 5, "./rpc/internal"), ("m", 6, "./rpc/internal")]
    mgroup = {0: 0, 1: 1, 2: 1, 3: 3, 4: 3, 5: 5, 6: 6}
    for kind, which, pkg in groups:
        if kind == "m":
            idx = [i for i, c in enumerate(cases) if c["kind"] == "m" and mgroup[c["side"]] == which]
        else:
            idx = [i for i, c in enumerate(cases) if c["kind"] == kind and (which is None or c["which"] == which)]
        if not idx:
            continue
        # the sqlx / redis / api-handler packages also hold other properties' drivers: ours is TestVerifDriverC01 there
        run = "^TestVerifDriverC01$" if pkg in ("./lib/store/sqlx", "./lib/store/redis", "./api/handler",
                                               "./rpc/internal/serverinterceptors", "./rpc/internal/clientinterceptors", "./api", "./rpc/internal", "./api/httpc") else "^TestVerifDriver$"
        if kind == "r":
            run = "^TestVerifDriverReg$"
        if kind == "c":
            run = "^TestVerifDriverConc$"
        if kind == "m" and which == 6:
            run = "^TestVerifDriverC01Srv$"
        o, lg = run_driver(pkg, [wire(cases[i]) for i in idx], name="C01%s%s_%s" % (kind, "" if which is None else which, tier),
                           timeout=600, run=run)
        logs.append(lg[-1500:])
        if o is None:
            return None, lg
        for i, x in zip(idx, o):
            obs[i] = x
    return obs, "\n".join(logs)


PRED = ["PNilOrAcc", "PRejectsNil", "PAll", "PNone"]


def ckind(k):
    base, p = k % 4, (k // 4) % 4      # bit 16 (registry-level Do*) is the same breaker for the model
    if p == 0 or base in (0, 2):
        return ["KDo", "KDoWithAcceptable", "KDoWithFallback", "KDoWithFallbackAcceptable"][base]
    return "(%s %s)" % ("KDoWithAcceptableP" if base == 1 else "KDoWithFallbackAcceptableP", PRED[p])


KIND = ["KDo", "KDoWithAcceptable", "KDoWithFallback", "KDoWithFallbackAcceptable"]
OUT = ["OK", "AcceptableErr", "UnacceptableErr", "Panics", "PanicsNil", "InnerUnavailable"]


def overran(case, obs):
    """sides 5 / 6 run against REAL-time budgets (the client's timeout interceptor / the server's UnaryTimeoutInterceptor),
    the one input of a stream the driver cannot script: whether a call whose backend answers at once (class 0) still
    overran the budget is the scheduler's choice, so it is read off the observation -- a call that was let in and came
    back DeadlineExceeded although the backend was told to answer another code IS an overrun (class 6) for the model and
    the statement alike (the caller has no deadline of its own, so only the timeout interceptor answers that code).
    Returns the indices of such calls."""
    if case["kind"] != "m" or case["side"] not in (5, 6):
        return []
    rows = obs.get("rows", [])
    return [i for i, (c, r) in enumerate(zip(case["calls"], rows)) if c[0] == 0 and c[1] != 4 and r[0] == 0 and r[1] == 4]


def encode(case, obs):
    if case["kind"] == "c":
        return "CCase %s %s %s" % (cZ(case["g"]), cZ(case["fails"]), cZ(obs.get("let_in", -1)))
    if case["kind"] == "m":
        # class 10 (client disconnects mid-flight) is model class 10 under a timeout handler (side 4) and 11 without one (side 3)
        late = set(overran(case, obs))
        calls = [cpair(cnat(6 if i in late else 11 if (c[0] == 10 and case["side"] == 3) else c[0]), cZ(c[1]), cnat(c[2]))
                 for i, c in enumerate(case["calls"])]
        if case["side"] in (5, 6):
            rows = obs.get("rows", [])
            rej, st = [r[0] == 1 for r in rows], [r[1] for r in rows]
        elif case["side"] >= 3:
            rows = obs.get("rows", [])
            rej, st = [r[1] == 0 for r in rows], [r[0] for r in rows]
        else:
            rej, st = [r == 1 for r in obs.get("rej", [])], []
        return "MCase %s %s %s %s" % (cnat(case["side"]), clist(calls), clist([cbool(r) for r in rej]), clist([cZ(x) for x in st]))
    if case["kind"] == "r":
        return "RCase %s" % clist([clist([cZ(v) for v in r]) for r in obs.get("rows", [])])
    if case["kind"] == "h":
        return "HCase %s %s %s %s" % (cnat(case["shape"]), cZ(case["arg"]), cZ(obs.get("code", -1)), cbool(bool(obs.get("ok"))))
    if case["kind"] == "p":
        return "PCase %s %s %s" % (cnat(case["which"]), cZ(case["arg"]), cbool(bool(obs.get("ok"))))
    evs = []
    calls, proms = {}, {}
    for e in obs.get("events", []):
        if e[0] == 0:
            calls[e[2]] = (e[1], e[3])
            evs.append("XBegin %s %s %s %s" % (cnat(e[1]), cnat(e[2]), ckind(e[3]), cZ(e[4])))
        elif e[0] == 1:
            n, k = calls[e[1]]
            evs.append("XEnd %s %s %s %s" % (cnat(n), cnat(e[1]), ckind(k), OUT[e[2]]))
        elif e[0] == 2:
            proms[e[2]] = e[1]
            evs.append("XAllow %s %s %s" % (cnat(e[1]), cnat(e[2]), cZ(e[3])))
        elif e[0] == 3:
            evs.append("XAccept %s %s" % (cnat(proms[e[1]]), cnat(e[1])))
        elif e[0] == 4:
            evs.append("XReject %s %s" % (cnat(proms[e[1]]), cnat(e[1])))
        else:
            evs.append("XAdv %s" % cZ(e[1]))
    rows = [cpair(cZ(r[0]), cZ(r[1]), cZ(r[2])) for r in obs.get("rows", [])]
    return "BCase %s %s" % (clist(evs), clist(rows))


def nontrivial(case, obs):
    if case["kind"] == "c":
        return obs.get("together", 0) >= 2
    if case["kind"] == "m":
        return len({c[0] for c in case["calls"]}) >= 2
    if case["kind"] == "r":
        return any(r[6] == 1 for r in obs.get("rows", []))
    if case["kind"] in ("p", "h"):
        return True
    rows = obs.get("rows", [])
    return any(r[0] in (2, 3, 5) for r in rows) and any(r[0] >= 10 for r in rows)


def bucket(case, obs):
    if case["kind"] == "c":
        return ["kind:c", "conc:g=%d" % case["g"], "conc:together=%s" % (obs.get("together", 0) >= case["g"]), "conc:let_in=%d" % obs.get("let_in", -1)]
    if case["kind"] == "m":
        rej = obs.get("rej") or [(r[0] if case["side"] in (5, 6) else 1 - r[1]) for r in obs.get("rows", [])]
        out = ["kind:m", "m:side=%d" % case["side"], "m:cutoff=%s" % any(rej), "m:names=%d" % len({c[2] for c in case["calls"]})]
        out += sorted({"m:class=%d" % c[0] for c in case["calls"]})
        if overran(case, obs):
            out.append("m:instant-backend-overran-the-real-time-budget")
        return out
    if case["kind"] == "r":
        rows = obs.get("rows", [])
        return ["kind:r", "reg:g=%d" % case["g"], "reg:names=%d" % len(rows), "reg:forced=%d" % sum(r[6] for r in rows),
                "reg:distinct>1=%d" % sum(1 for r in rows if r[2] > 1)]
    if case["kind"] == "h":
        return ["kind:h", "shape:%d" % case["shape"], "cutoff:%s" % (not obs.get("ok"))]
    if case["kind"] == "p":
        return ["kind:p%d" % case["which"], "pred:%s" % obs.get("ok")]
    out = ["kind:b", "names:%d" % len({e[1] for e in case["events"] if e[0] in (0, 2)})]
    for r in obs.get("rows", []):
        out.append("code:%d" % r[0])
    for e in case["events"]:
        if e[0] == 0 and (e[3] // 4) % 4 >= 1:
            out.append("pred:%s" % PRED[(e[3] // 4) % 4])
        if e[0] == 0 and e[3] >= 16:
            out.append("via:registry-Do")
    return out


def explain(case, obs):
    if case["kind"] == "c":
        return ("g goroutines inside googleBreaker.accept at once on a breaker whose drop ratio is positive, every draw being coin 0 "
                "(the first draw held inside Proba.TrueOnProba until the others are inside too): some caller was let in -- each "
                "caller must get its own draw (c01_every_caller_draws)")
    if case["kind"] == "m":
        return ("mixed stream (side 0 client / 1 server unary / 2 server stream breaker interceptor over full method names; 3 / 4 the "
                "HTTP engine's default chain with Config.Timeout 0 / > 0 over routes) on a frozen clock: a call was cut off although "
                "its own name's excess was not positive (failures under another method / route moved it), the client did not get 500 "
                "for a panicking handler / 503 when cut off, a call was cut off although 2(total-5) <= 3*successes with Canceled and the other benign codes counted "
                "as successes, or at least 40 calls started with a drop ratio >= 1/2 (DeadlineExceeded of an expired caller "
                "deadline, the other four codes, panics counted as failures) and none was ever cut off (c01_ctx_outcomes)")
    if case["kind"] == "r":
        return ("concurrent FIRST use of a fresh breaker name by several goroutines (all held at Get's RLock, then released) "
                "did not yield one breaker per name: handles differ, outcomes recorded by Do(name) are missing from the "
                "registered breaker, or 50 failures recorded through one handle are not seen through another handle / "
                "through Do(name) (no rejection at coin 0) (c01_registry_one_breaker_per_name)")
    if case["kind"] == "h":
        return ("200 requests answered with one response shape through one BreakerHandler: a shape whose status is below 500 "
                "(explicit, or the implicit 200 of an unwritten / Write-only / streamed response) was cut off with 503, or a "
                "status >= 500 / recovered panic never was (C01.Exec.spec_ok HCase, c01_http_mark)")
    if case["kind"] == "p":
        return ("an outcome the statement declares benign (HTTP < 500, sql.ErrNoRows/ErrTxDone, redis.Nil, context.Canceled, "
                "gRPC codes other than DeadlineExceeded/Internal/Unavailable/DataLoss/Unimplemented) is treated as a failure by "
                "the integration's predicate (c01_benign_never_open)")
    return ("the breaker contradicts C01.Exec.spec_ok: a call was rejected although 2(total-5) <= 3*accepts over the visible "
            "10 s or the coin was not below the ratio (c01_reject_only_on_excess / c01_never_cut_off_healthy), a rejected call "
            "ran req or its fallback did not get ErrServiceUnavailable, a completed call's outcome was altered, or history() "
            "differs from the visible outcome log (c01_window_refines_log, c01_one_mark_per_call_let_in)")
