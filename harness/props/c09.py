"""C09 rolling window + adaptive shedder.

Two kinds of cases, two in-package drivers:
  kind "w": lib/collection (TestVerifDriverRW): Add/Reduce/advance histories on the virtual clock
  kind "s": lib/load (TestVerifDriver): Allow(cpu)/Pass/Fail/advance traces with a scripted CPU reading
"""
from vlib import cZ, cnat, cbool, clist, copt, cpair, run_driver

ID = "C09"
GO_PKG = "./lib/collection"
GEN_SPEC = {"imports": ["From God Require Import C09.GenEnv."], "items": [
    {"kind": "const", "file": "lib/load/adaptiveshedder.go", "name": "defaultWindow"},
    {"kind": "const", "file": "lib/load/adaptiveshedder.go", "name": "defaultBuckets"},
    {"kind": "const", "file": "lib/load/adaptiveshedder.go", "name": "defaultCpuThreshold"},
    {"kind": "const", "file": "lib/load/adaptiveshedder.go", "name": "defaultMinRt"},
    {"kind": "const", "file": "lib/load/adaptiveshedder.go", "name": "flyingBeta"},
    {"kind": "const", "file": "lib/load/adaptiveshedder.go", "name": "coolOfDuration"},
    {"kind": "func", "file": "lib/collection/rollingwindow.go", "name": "RollingWindow.span", "as": "span",
     "calls": {"timex.Since": "timex_since"}},
    {"kind": "calls", "file": "lib/collection/rollingwindow.go", "func": "RollingWindow.Add", "as": "add_calls"},
    {"kind": "calls", "file": "lib/collection/rollingwindow.go", "func": "RollingWindow.Reduce", "as": "reduce_calls"},
    {"kind": "calls", "file": "lib/collection/rollingwindow.go", "func": "RollingWindow.updateOffset", "as": "update_calls"},
    {"kind": "calls", "file": "lib/load/adaptiveshedder.go", "func": "adaptiveShedder.Allow", "as": "allow_calls"},
    {"kind": "calls", "file": "lib/load/adaptiveshedder.go", "func": "promise.Pass", "as": "pass_calls"},
    {"kind": "calls", "file": "lib/load/adaptiveshedder.go", "func": "promise.Fail", "as": "fail_calls"},
    {"kind": "calls", "file": "lib/load/adaptiveshedder.go", "func": "adaptiveShedder.systemOverloaded", "as": "overloaded_calls"},
    {"kind": "calls", "file": "lib/load/adaptiveshedder.go", "func": "adaptiveShedder.stillHot", "as": "stillhot_calls"},
    {"kind": "const", "file": "lib/stat/usage.go", "name": "beta"},
    {"kind": "const", "file": "lib/stat/usage.go", "name": "cpuRefreshInterval"},
    {"kind": "calls", "file": "lib/stat/usage.go", "func": "init", "as": "usage_init_calls"},
    {"kind": "calls", "file": "api/handler/sheddinghandler.go", "func": "SheddingHandler", "as": "shedhandler_calls"},
    {"kind": "calls", "file": "rpc/internal/serverinterceptors/sheddinginterceptor.go", "func": "UnarySheddingInterceptor",
     "as": "shedint_calls"},
]}
COQ_FILES = ["theories/C09/Props.v", "theories/C09/Link.v", "theories/C09/WProofs.v", "theories/C09/SProofs.v", "theories/C09/Integ.v"]
QUICK_N = 400
THOROUGH_N = 6000
SHARD = 100
RULE = ("60% window histories: size 1-50 (mostly 1-6), interval in {1,7,100,250ms,1s}, with/without IgnoreCurrentBucket, "
        "6-40 ops Add(v in 0..1000)/Reduce/advance dt in {0,1,I-1,I,I+1,kI-1,kI,kI+1,size*I-1,size*I,size*I+1,>size*I}; "
        "40% shedder traces: window/buckets in {5s/50,1s/10,1s/4,300ms/3,2s/1}, threshold 900 (or 0/500), 30-120 ops "
        "Allow(cpu)/Pass/Fail/advance steering concurrency levels 3-40 and overload phases, advances around the bucket "
        "and the 1 s cool-off boundaries; 3% malformed (size<1, interval 0, buckets 0, window<buckets, double completion); "
        "12% integration call lists (5-40 requests through UnarySheddingInterceptor inside UnaryCrashInterceptor, or through "
        "SheddingHandler with RecoverHandler inside / without it, over a recording shedder: 15% scripted drops; outcomes ok, "
        "status.Error(0..16), context.DeadlineExceeded, wrapped deadline, panic(string|error|DeadlineExceeded), request context already expired / cancelled on arrival (handler gives up with ctx.Err() or answers all the same); shapes "
        "WriteHeader(c), bare Write, nothing, WriteHeader+Write+Flush+Write, panic, Write-then-panic); "
        "6 (thorough 60) small windows with gated Reduces overlapped by (advance; Add) from another goroutine (35% of the random window histories have them too), 3 (thorough 30) current-bucket latency traces, 2 HTTP shedding lists with Upgrade: websocket / h2c request headers; 2 CPU-smoothing probes (lib/stat: smoothed value set to 0 / 600 / 1000, all cores kept busy for one refresh interval, value read after one refresh of the package's own loop); 4 (thorough 40) configured-geometry traces (window/buckets in {500ms/5, 1s/10, 300ms/3, 600ms/6}: fast requests, a gap longer "
        "than the window, slower requests over a standing in-flight load, overload readings with in-flight between the stale and the "
        "configured capacity), 2 dead-context RPC integration lists; 4 (thorough 40) shedding-statistics streams over 2-6 scripted reporting ticks (SheddingStat.loop on a driver channel, the "
        "logged line captured through a logx writer); non-trivial = window: a Reduce after an Add and an advance >= interval; shedder: at least one Pass and one drop "
        "or overload reading; distinct = distinct canonical case JSON")
TRUSTED = ["float64 arithmetic of the Go build (amd64, no FMA contraction) = IEEE-754 binary64 = Coq PrimFloat; "
           "bucket sums are integers < 2^53 (exact in float64) and are modelled in Z",
           "RollingWindow methods hold rw.lock for their whole body (Link: add_calls/reduce_calls skeleton), so concurrent "
           "adders are linearised; histories are sequential in the model",
           "virtual clock hook lib/timex (tag verif); systemOverloadChecker replaced by the scripted reading "
           "(its own `>=` against stat.CpuUsage is outside the driver's reach)"]
ASSUMPTIONS = ["each API call reads the clock once (the code reads it twice per Add; the driver advances the clock only "
               "between calls; c09_two_reads_misalign documents what a boundary crossed between the two reads does)",
               "clock and counters stay within int64; integer-valued adds",
               "capacity is the float64 evaluation int64(max(1, float64(maxPass*windows)*(minRt/1e3))) of the product, "
               "kept abstract in the theorems (capF) and replayed with PrimFloat in the correspondence"]

MS = 1000000
SEC = 1000 * MS


def gen_window(rng, small=False, conc=None):
    r = rng.random()
    if r < 0.03:
        size, interval = rng.choice([(0, 100), (-1, 100), (3, 0), (1, 0)])
    else:
        size = rng.choice([1, 1, 2, 2, 3, 3, 4, 5, 6]) if (small or rng.random() < 0.7) else rng.randint(7, 50)
        interval = rng.choice([1, 7, 100, 100, 250 * MS, SEC])
    ign = rng.random() < 0.5
    conc = (rng.random() < 0.35) if conc is None else conc      # gated Reduce overlapped by (advance; Add) from another goroutine
    if size < 1 or interval < 1:
        conc = False
    ops = []
    nops = rng.randint(6, 40)
    I = max(interval, 1)
    n = max(size, 1)
    for _ in range(nops):
        x = rng.random()
        if x < 0.4:
            ops.append([0, rng.choice([0, 1, 1, 1, 2, 3, 7, 1000])])
        elif x < 0.65:
            ops.append([1])
        elif x < 0.72 and conc:
            k = rng.randint(1, n + 1)
            ops.append([3, rng.choice([0, 1, I, k * I, k * I + 1, n * I, (n + 2) * I]), rng.choice([1, 2, 7])])
        else:
            k = rng.randint(1, n + 1)
            dt = rng.choice([0, 1, I - 1, I, I + 1, k * I - 1, k * I, k * I + 1, n * I - 1, n * I, n * I + 1,
                             (n + rng.randint(1, 5)) * I + rng.randrange(I), 1000 * n * I + rng.randrange(I)])
            ops.append([2, max(dt, 0)])
    if ops and ops[-1][0] != 1:
        ops.append([1])
    return {"kind": "w", "size": size, "interval": interval, "ignore": ign, "ops": ops}


def gen_shedder(rng):
    r = rng.random()
    if r < 0.03:
        window, buckets = rng.choice([(SEC, 0), (3, 5), (SEC, -2)])
    else:
        window, buckets = rng.choice([(5 * SEC, 50), (5 * SEC, 50), (SEC, 10), (SEC, 4), (300 * MS, 3), (2 * SEC, 1)])
    thr = rng.choice([900, 900, 900, 500, 0])
    bd = max(window // buckets, 1) if buckets > 0 else 1
    ops = []
    pending = []      # op indices of Allow ops not yet completed (a dropped Allow's completion is skipped by the driver)
    level = rng.choice([3, 8, 20, 40])
    hot = False
    nops = rng.randint(30, 120)
    for _ in range(nops):
        if rng.random() < 0.08:
            hot = not hot
        if rng.random() < 0.05:
            level = rng.choice([1, 3, 8, 20, 40])
        x = rng.random()
        if x < 0.18:
            dt = rng.choice([0, 1, MS, 3 * MS, bd - 1, bd, bd + 1, 2 * bd, 5 * bd, SEC - 1 - bd, SEC - 1, SEC, SEC + 1,
                             window, window + bd, 3 * window + 7])
            ops.append([3, max(dt, 0)])
        elif len(pending) < level and x < 0.75:
            cpu = rng.choice([thr, thr + 1, 1000, thr + 50]) if hot else rng.choice([0, max(thr - 1, 0), 100, max(thr - 400, 0)])
            ops.append([0, cpu])
            pending.append(len(ops) - 1)
        elif pending:
            k = pending.pop(rng.randrange(len(pending)))
            ops.append([1 if rng.random() < 0.75 else 2, k])
            if rng.random() < 0.01:
                ops.append([2, k])     # a promise completed twice (malformed use)
    if rng.random() < 0.5:          # drain: every admitted request reports
        rng.shuffle(pending)
        for k in pending:
            ops.append([1 if rng.random() < 0.5 else 2, k])
            if rng.random() < 0.2:
                ops.append([3, rng.choice([1, MS, bd])])
    return {"kind": "s", "window": window, "buckets": buckets, "thr": thr, "ops": ops}


HTTP_STATUS = [200, 200, 204, 301, 404, 499, 500, 502, 503, 503, 504, 599]


def gen_integration(rng):
    """requests through UnarySheddingInterceptor (inside the crash guard) or SheddingHandler (RecoverHandler inside, or a
    customised chain without it) over a recording shedder: scripted drop, then one handler outcome / response shape"""
    http = rng.random() < 0.5
    calls = []
    for _ in range(rng.randint(5, 40)):
        drop = 1 if rng.random() < 0.15 else 0
        k = rng.randrange(7) if http else rng.choice([0, 1, 2, 3, 4, 5, 6, 7, 7, 8, 8, 9])   # 7-9: context dead on arrival
        if http:
            arg = rng.choice(HTTP_STATUS) if k in (0, 3) else 0
        else:
            arg = rng.randrange(17) if k == 1 else 0
        calls.append([drop, k, arg] + ([rng.choice([0, 1, 1, 2, 3])] if http else []))
    c = {"kind": "i", "http": http, "calls": calls}
    if http:
        c["guard"] = rng.random() < 0.6
    return c


def gen_stat(rng):
    """shedding statistics over 2-6 reporting ticks: requests counted total-then-pass/drop, some still open at a tick"""
    ops = []
    for _ in range(rng.randint(2, 6)):
        for _ in range(rng.randint(0, 30)):
            ops.append(0)
            x = rng.random()
            if x < 0.6:
                ops.append(1)
            elif x < 0.85:
                ops.append(2)
        ops.append(3)
    if rng.random() < 0.3:
        ops.append(3)
    return {"kind": "t", "ops": ops}


def gen_geometry(rng):
    """NewAdaptiveShedder(WithWindow, WithBuckets) with fewer than 50 buckets: fast requests, a gap longer than the configured
    window (shorter than the default one), slower requests over a standing in-flight load, then overload readings while
    in-flight lies between the capacity a stale latency window would give (1) and the configured window's capacity"""
    window, buckets = rng.choice([(500 * MS, 5), (SEC, 10), (300 * MS, 3), (600 * MS, 6)])
    bd = window // buckets
    ops = []

    def allow(cpu):
        ops.append([0, cpu])
        return len(ops) - 1
    for _ in range(3):
        ids = [allow(100) for _ in range(rng.randint(3, 6))]
        ops.append([3, MS])
        ops.extend([1, k] for k in ids)
        ops.append([3, bd])
    ops.append([3, window + rng.choice([bd, 2 * bd, 3 * bd])])
    base = [allow(100) for _ in range(rng.randint(25, 35))]
    lat = rng.choice([2 * bd, 3 * bd])
    for _ in range(3):
        ids = [allow(100) for _ in range(rng.randint(15, 25))]
        ops.append([3, lat])
        ops.extend([1, k] for k in ids)
    ops.append([3, bd])
    for _ in range(rng.randint(4, 8)):
        allow(rng.choice([900, 950, 1000]))
    for k in base[:rng.randint(0, 10)]:
        ops.append([rng.choice([1, 2]), k])
    return {"kind": "s", "window": window, "buckets": buckets, "thr": 900, "ops": ops}


def gen_current_bucket(rng):
    """the latency window excludes the CURRENT bucket like the pass window: completed buckets with slow requests over a standing
    in-flight load, a few very fast completions inside the current bucket, then overload readings in that same bucket"""
    window, buckets = rng.choice([(5 * SEC, 50), (SEC, 10), (500 * MS, 5)])
    bd = window // buckets
    ops = []

    def allow(cpu):
        ops.append([0, cpu])
        return len(ops) - 1
    base = [allow(100) for _ in range(rng.randint(25, 35))]
    lat = rng.choice([2 * bd, 3 * bd])
    for _ in range(2):
        ids = [allow(100) for _ in range(rng.randint(15, 25))]
        ops.append([3, lat])
        ops.extend([1, k] for k in ids)
    ops.append([3, bd])                       # the slow completions now lie in completed buckets; we are at a bucket start
    ids = [allow(100) for _ in range(rng.randint(3, 6))]
    ops.append([3, MS])
    ops.extend([1, k] for k in ids)           # 1 ms latencies, in the current bucket
    for _ in range(rng.randint(4, 8)):
        allow(rng.choice([900, 950, 1000]))   # overload readings, same bucket
        if rng.random() < 0.3:
            ops.append([3, MS])
    return {"kind": "s", "window": window, "buckets": buckets, "thr": 900, "ops": ops}


def upgrade_case(rng):
    """HTTP shedding handler: requests carrying Upgrade: websocket / other Upgrade values, every response shape"""
    calls = [[1 if rng.random() < 0.1 else 0, rng.randrange(7), rng.choice([200, 101, 503, 404]), rng.choice([1, 1, 2])]
             for _ in range(rng.randint(15, 40))]
    return {"kind": "i", "http": True, "guard": rng.random() < 0.6, "calls": calls}


def dead_context_case(rng):
    """RPC shedding interceptor: a run of requests whose context is already expired / cancelled on arrival, then live ones"""
    calls = [[0, rng.choice([7, 8, 9]), 0] for _ in range(rng.randint(8, 30))] + [[0, 0, 0]] * 3
    return {"kind": "i", "http": False, "calls": calls}


def generate(rng, tier, n):
    cases = [gen_stat(rng) for _ in range(4 if tier != "thorough" else 40)] + [dead_context_case(rng), dead_context_case(rng), upgrade_case(rng), upgrade_case(rng)] + \
        [gen_current_bucket(rng) for _ in range(3 if tier != "thorough" else 30)] + \
        [gen_window(rng, small=True, conc=True) for _ in range(6 if tier != "thorough" else 60)] + \
        [{"kind": "u", "start": 0, "burn": 1}, {"kind": "u", "start": rng.choice([1000, 600, 0]), "burn": rng.randrange(2)}] + \
        [gen_geometry(rng) for _ in range(4 if tier != "thorough" else 40)]
    for _ in range(n - len(cases)):
        if rng.random() < 0.12:
            cases.append(gen_integration(rng))
        elif rng.random() < 0.6:
            cases.append(gen_window(rng, small=(tier == "search" and rng.random() < 0.7)))
        else:
            cases.append(gen_shedder(rng))
    return cases


def search(rng, problems):
    return [gen_window(rng, small=True) for _ in range(300)]


def drive(cases, tier):
    """window cases -> lib/collection driver, shedder cases -> lib/load driver; observations merged in order."""
    logs = []
    obs = [None] * len(cases)
    for kind, pkg, run in (("w", "./lib/collection", "^TestVerifDriverRW$"), ("s", "./lib/load", "^TestVerifDriver$"),
                           ("ir", "./rpc/internal/serverinterceptors", "^TestVerifDriverC09$"),
                           ("ih", "./api/handler", "^TestVerifDriverC09$"), ("t", "./lib/load", "^TestVerifDriverStat$"), ("u", "./lib/stat", "^TestVerifDriverC09$")):
        idx = [i for i, c in enumerate(cases)
               if c["kind"] == kind or (c["kind"] == "i" and kind == ("ih" if c["http"] else "ir"))]
        if not idx:
            continue
        o, lg = run_driver(pkg, [cases[i] for i in idx], name="C09%s_%s" % (kind, tier), run=run)
        logs.append(lg[-2000:])
        if o is None:
            return None, lg
        for i, x in zip(idx, o):
            obs[i] = x
    return obs, "\n".join(logs)


def _bucket(b):
    return cpair(cZ(b[0]), cZ(b[1]))


def encode(case, obs):
    if case["kind"] == "u":
        return "UCase %s %s" % (cZ(case["start"]), cZ(obs.get("after", -99)))
    if case["kind"] == "t":
        return "TCase %s %s" % (clist([cnat(o) for o in case["ops"]]), clist([clist([cZ(v) for v in r]) for r in obs.get("ticks", [])]))
    if case["kind"] == "i":
        calls = [cpair(cbool(c[0] == 1), cnat(c[1]), cZ(c[2])) for c in case["calls"]]
        rows = [clist([cZ(v) for v in r]) for r in obs.get("rows", [])]
        return "ICase %s %s %s %s" % (cbool(case["http"]), cbool(bool(case.get("guard"))), clist(calls), clist(rows))
    if case["kind"] == "w":
        ops = []
        for op in case["ops"]:
            if op[0] == 0:
                ops.append("WAdd %s" % cZ(op[1]))
            elif op[0] == 1:
                ops.append("WRed")
            elif op[0] == 3:
                ops += ["WRed", "WAdv %s" % cZ(op[1]), "WAdd %s" % cZ(op[2])]
            else:
                ops.append("WAdv %s" % cZ(op[1]))
        reds = clist([clist([_bucket(b) for b in row]) for row in obs["reduces"]])
        if "ring" in obs:
            fin = "(Some (%s, %s, %s))" % (cZ(obs["offset"]), cZ(obs["last"]), clist([_bucket(b) for b in obs["ring"]]))
        else:
            fin = "None"
        return "WCase %s %s %s %s %s %s %s %s" % (cZ(case["size"]), cZ(case["interval"]), cbool(case["ignore"]),
                                                  clist(ops), cZ(obs["panic_at"]), reds, fin, cbool(all(v == 1 for v in obs.get("conc", []))))
    ops = []
    for op in obs.get("ops", []):
        if op[0] == 0:
            ops.append("XAllow %s" % cZ(op[1]))
        elif op[0] == 1:
            ops.append("XPass %s" % cnat(op[1]))
        elif op[0] == 2:
            ops.append("XFail %s" % cnat(op[1]))
        else:
            ops.append("XAdv %s" % cZ(op[1]))
    rows = ["mkrow %s %s %s %s %s %s %s" % (cZ(r[0]), cZ(r[1]), cZ(r[2]), cZ(r[3]), cbool(r[4] == 1), cZ(r[5]), cZ(r[6]))
            for r in obs["rows"]]
    return "SCase %s %s %s %s %s %s" % (cZ(case["window"]), cZ(case["buckets"]), cZ(case["thr"]), clist(ops),
                                        cbool(bool(obs.get("panic"))), clist(["(%s)" % r for r in rows]))


def nontrivial(case, obs):
    if case["kind"] == "u":
        return obs.get("after", 0) > 0
    if case["kind"] == "t":
        return len(obs.get("ticks", [])) >= 2 and any(r[0] > 0 for r in obs.get("ticks", []))
    if case["kind"] == "i":
        return any(c[0] == 0 and c[1] >= 4 for c in case["calls"]) and any(c[0] == 1 for c in case["calls"])
    if case["kind"] == "w":
        if case["size"] < 1 or case["interval"] < 1:
            return False
        seen_add = seen_adv = False
        for op in case["ops"]:
            if op[0] == 0:
                seen_add = True
            elif op[0] == 2 and seen_add and op[1] >= case["interval"]:
                seen_adv = True
            elif op[0] == 1 and seen_adv:
                return True
        return False
    rows = obs.get("rows", [])
    has_pass = any(op[0] == 1 for op in case["ops"])
    return has_pass and (any(r[0] == 0 for r in rows) or any(op[0] == 0 and op[1] >= case["thr"] for op in case["ops"]))


def bucket(case, obs):
    out = ["kind:" + case["kind"]]
    if case["kind"] == "t":
        return out + ["stat:ticks=%d" % len(obs.get("ticks", []))]
    if case["kind"] == "u":
        return out + ["cpu:start=%d" % case["start"], "cpu:after<=100" if obs.get("after", 0) <= 100 else "cpu:after>100"]
    if case["kind"] == "i":
        out[0] = "kind:i-" + ("http" + ("+recover" if case.get("guard") else "-bare") if case["http"] else "rpc")
        for c in case["calls"]:
            out.append("i:%s%d" % ("drop" if c[0] else "out", c[1]))
        return out
    if case["kind"] == "w":
        out.append("size:%s" % ("<1" if case["size"] < 1 else case["size"] if case["size"] <= 6 else "7-50"))
        out.append("ignore:%s" % case["ignore"])
        if obs.get("panic_at", -1) >= 0:
            out.append("obs:panic")
        n, I = max(case["size"], 1), max(case["interval"], 1)
        for op in case["ops"]:
            if op[0] == 2:
                out.append("adv:" + ("0" if op[1] == 0 else "<I" if op[1] < I else "<window" if op[1] < n * I else ">=window"))
        if any(len(r) == 0 for r in obs.get("reduces", [])):
            out.append("obs:empty-reduce")
    else:
        rows = obs.get("rows", [])
        out.append("shed:%d/%d" % (case["window"], case["buckets"]))
        if obs.get("panic"):
            out.append("obs:panic")
        if any(r[0] == 0 for r in rows):
            out.append("obs:drop")
        if any(r[0] == 1 for r in rows):
            out.append("obs:admit")
        if any(r[4] == 1 for r in rows):
            out.append("obs:droppedRecently")
        if any(r[6] > 1 for r in rows):
            out.append("obs:maxFlight>1")
        if rows and rows[-1][1] == 0:
            out.append("obs:drained")
    return out


def explain(case, obs):
    if case["kind"] == "u":
        return ("CPU smoothing (lib/stat/usage.go): starting from the given smoothed value, one (at most two) refreshes with a real hot "
                "sample moved it by more than 5% of a sample per refresh -- from exactly 0 one hot sample must leave it far below the "
                "shedder's threshold (c09_cpu_one_hot_sample)")
    if case["kind"] == "t":
        return ("shedding statistics: a reporting tick did not log exactly the total / pass / drop increments of its own interval "
                "(counted twice across ticks, or lost) (C09.Exec.t_spec)")
    if case["kind"] == "i":
        return ("the shedding handler/interceptor did not report exactly once for a request it let in (in-flight != 0 after "
                "the call, or passes + fails != let in), or reported Fail/Pass against its documented classes, or a panic "
                "escaped the RPC chain (C09.Exec.i_spec / c09_integration_reports_once)")
    if case["kind"] == "w":
        return ("a Reduce handed buckets that are not the per-bucket (sum,count) of the adds of the last `size` bucket "
                "intervals (C09.Exec.w_spec_ok / c09_window_exact): an expired add was seen, a recent one lost or counted twice")
    return ("the shedder contradicts C09.Exec.s_spec_ok: it dropped while CPU was below the threshold with no overload in the "
            "last second (c09_no_drop_when_cool), or dropped although flying / floor(avgFlying) did not exceed the capacity "
            "from the visible buckets (c09_drop_implies_overload, c09_capacity_formula), or flying != admitted - completed "
            "(c09_inflight_conservation)")
