"""C19 rotating log files: write/rotate/clean-up scripts x rule configurations x pre-seeded directories.

Interface: see props/c13.py. The driver (lib/logx/verif_driver_test.go) runs the real RotateLogger through
NewLogger/Write/Close on a temp directory with a wrapper rule that delegates to the real rule and only
translates the scripted clock strings; observations are directory contents as (id, length) runs.
"""
import datetime

from vlib import cZ, cnat, cbool, clist, cpair, cstr

ID = "C19"
GO_PKG = "./lib/logx"
_F = "lib/logx/rotatelogger.go"
GEN_SPEC = {"imports": ["From God Require Import C19.GenEnv."], "items": [
    {"kind": "const", "file": _F, "name": "megaBytes"},
    {"kind": "const", "file": _F, "name": "dateFormat"},
    {"kind": "const", "file": _F, "name": "hoursPerDay"},
    {"kind": "const", "file": _F, "name": "gzipExt"},
    {"kind": "func", "file": _F, "name": "SizeLimitRotateRule.ShallRotate", "as": "size_shall_rotate"},
    {"kind": "func", "file": _F, "name": "DailyRotateRule.ShallRotate", "as": "daily_shall_rotate",
     "calls": {"len": "go_len", "getNowDate": "go_now_date"}},
    {"kind": "calls", "file": _F, "func": "RotateLogger.write", "as": "write_calls"},
    {"kind": "calls", "file": _F, "func": "RotateLogger.rotate", "as": "rotate_calls"},
    {"kind": "calls", "file": _F, "func": "RotateLogger.postRotate", "as": "post_rotate_calls"},
    {"kind": "calls", "file": _F, "func": "RotateLogger.maybeDeleteOutdatedFiles", "as": "delete_calls"},
    {"kind": "calls", "file": _F, "func": "gzipFile", "as": "gzip_calls"},
    {"kind": "calls", "file": _F, "func": "RotateLogger.init", "as": "init_calls"},
    {"kind": "chain", "file": "lib/logx/logs.go", "func": "createOutput", "call": "NewSizeLimitRotateRule", "as": "size_rule_args"},
    {"kind": "chain", "file": "lib/logx/logs.go", "func": "createOutput", "call": "DefaultRotateRule", "as": "daily_rule_args"},
    {"kind": "chain", "file": "lib/logx/logs.go", "func": "createOutput", "call": "NewLogger", "as": "new_logger_args"},
    {"kind": "const", "file": "lib/logx/vars.go", "name": "backupFileDelimiter"},
    {"kind": "const", "file": "lib/logx/vars.go", "name": "accessFilename"},
    {"kind": "calls", "file": "lib/logx/writer.go", "func": "writePlainText", "as": "write_plain_text_calls"},
    {"kind": "calls", "file": "lib/logx/writer.go", "func": "writePlainValue", "as": "write_plain_value_calls"},
    {"kind": "calls", "file": "lib/logx/writer.go", "func": "writeJson", "as": "write_json_calls"},
    {"kind": "calls", "file": _F, "func": "RotateLogger.Write", "as": "rotate_write_calls"},
]}
QUICK_N = 150
THOROUGH_N = 2000
SEARCH_N = 300
SHARD = 50
DRIVER_TIMEOUT = 900
RULE = ("scripts of 3-14 records (ids 0..; byte lengths 0..1.5*maxSize resp. 0..20) written through RotateLogger.Write "
        "with a scripted, monotone clock string per record (daily: date advancing by 0-3 days; size: RFC3339 seconds, "
        "strictly increasing), both rules, days in {-1,0,1,2,3,7}, maxSize in {0,1,8,10,16,25,40} bytes, maxBackups in "
        "{-1,0,1,2,3}, gzip on/off (compress = rule.gzip in 90%), delimiters '-','.','_','--','log', file names with "
        "0-2 dots; directories pre-seeded with 0-6 backup-like files (stamps around the script's range, .gz or plain), "
        "decoy names and sometimes a pre-existing current file; clean-up phases released at scripted points with a "
        "scripted boundary date; every third case submits the records through the logx writer front-end instead "
        "(concreteWriter.Info on the RotateLogger as newFileWriter wires it, or NewWriter(rotateLogger); JSON and plain "
        "encodings) in bursts of 1-14 records while the writer goroutine is parked, and files are compared line by line with "
        "the lines handed to RotateLogger.Write; 2 of 15 cases put the log path behind a symbolic link (link to the real "
        "file on another file system, dangling link, or symlinked log directory) on top of a randomly chosen other stream; "
        "2 of 15 cases hold every compress phase (gated global logx writer: the "
        "compressor reports through logx before gzipping) until scripted points, so that later rotations and clean-ups "
        "overlap the compression of earlier backups; every sixth case logs through the public logx functions "
        "(Info/Infof/Error/Errorf/Slow/Stat -> global writer) under the size rule (maxSize 6-300 kB), plain (75%) or JSON, "
        "records of 0-200 B, 4096/4097/5000/8192/12000/16384 B, 4-20 kB and 100 KiB, sequentially, in bursts and from "
        "2-4 goroutines at once; non-trivial = at least two rotations, or one rotation and a clean-up that removed a file; "
        "distinct = distinct canonical case JSON")
TRUSTED = ["os / filepath.Glob / sort.Strings / compress/gzip and time.Format of the Go standard library (modelled: "
           "directory as a finite map, single-* glob on glob-safe names, byte-wise string order, gzip as a layer count)",
           "wrapper rule of the driver: BackupFilename/MarkRotated/ShallRotate/OutdatedFiles call the real rule; scripted "
           "clock strings are substituted for the wall-clock string (dates in the past; the size rule's boundary keeps the "
           "wall-clock time of day and is reported as an observation)",
           "the two phases of postRotate (compress; glob+remove) are treated as atomic steps"]
ASSUMPTIONS = ["front-end stream: a record is its encoded line; the model assumes the queued slice is what the worker writes "
               "(checked, not assumed, by spec_ok: each accepted line exactly once, complete, in order)",
               "delimiter non-empty (with an empty delimiter the pattern matches the current file: Props.c19_empty_delimiter_refuted)",
               "clock strings of fixed width and no clock string chosen for two backup names (rotations at least a second apart / "
               "the date never repeats); hyp label in input_distribution",
               "a pre-existing current log file is a plain file; file names are glob-safe and the directory path is clean",
               "I/O errors of os.* are outside the model; records not yet taken by the writer goroutine at Close are not 'processed'"]

FILES = ["access.log", "access.log", "app", "svc.err.log", "a.b", ".log", "stat.log"]
DELIMS = ["-", "-", "-", ".", "_", "--", "log", "+", ",", "#", "--"]
BASE = datetime.date(2019, 12, 20)


def _split_ext(name):
    i = name.rfind(".")
    if i < 0:
        return name, ""
    return name[:i], name[i:]


def _bname(kind, fname, delim, stamp):
    if kind == "daily":
        return fname + delim + stamp
    p, e = _split_ext(fname)
    return p + delim + stamp + e


def _date(d):
    return d.strftime("%Y-%m-%d")


def _ts(dt):
    return dt.strftime("%Y-%m-%dT%H:%M:%SZ")


def _one(rng, tier, force=None):
    force = force or {}
    kind = force.get("kind") or rng.choice(["daily", "size"])
    fname = force.get("file") or rng.choice(FILES)
    delim = force.get("delim") or rng.choice(DELIMS)
    days = force["days"] if "days" in force else rng.choice([-1, 0, 0, 1, 1, 2, 3, 7])
    gz = force["gzip"] if "gzip" in force else rng.random() < 0.5
    compress = force["compress"] if "compress" in force else (gz if rng.random() < 0.9 else (not gz))
    maxsize = force["maxsize"] if "maxsize" in force else (rng.choice([0, 1, 8, 10, 10, 16, 25, 40]) if kind == "size" else 0)
    maxbackups = force["maxbackups"] if "maxbackups" in force else (rng.choice([-1, 0, 0, 1, 1, 2, 2, 3]) if kind == "size" else 0)
    nw = force.get("nw") or rng.randint(3, 14)
    start = BASE + datetime.timedelta(days=rng.randint(0, 300))
    events = []
    writes = []
    if kind == "daily":
        day = start
        now0 = _date(day)
        rot0 = now0 if rng.random() < 0.92 else _date(day - datetime.timedelta(days=1))
    else:
        t = datetime.datetime(start.year, start.month, start.day, rng.randint(0, 23), rng.randint(0, 59), rng.randint(0, 59))
        now0 = _ts(t)
        rot0 = now0
    pending_possible = 0
    for i in range(nw):
        if kind == "daily":
            if rng.random() < 0.35:
                day = day + datetime.timedelta(days=rng.choice([1, 1, 1, 2, 3]))
            stamp = _date(day)
            ln = 0 if rng.random() < 0.06 else rng.randint(1, 20)
            today = day
        else:
            t = t + datetime.timedelta(seconds=rng.choice([1, 1, 2, 3, 60, 86400 if rng.random() < 0.3 else 5]))
            stamp = _ts(t)
            hi = max(3, int(maxsize * 1.5)) if maxsize > 0 else 12
            ln = 0 if rng.random() < 0.06 else rng.randint(1, hi)
            if "lens" in force:
                ln = rng.randint(*force["lens"])
            today = t.date()
        events.append({"w": [i, ln, stamp]})
        writes.append((i, ln, stamp))
        if rng.random() < 0.3:
            off = rng.choice([0, 0, 0, 1, -1, 2, -3])
            events.append({"d": _date(today - datetime.timedelta(days=max(days, 0) + off))})
    endb = _date(today - datetime.timedelta(days=max(days, 0) + rng.choice([0, 0, 1, -1])))
    # seeds
    seeds = []
    sid = 60
    used = set()
    nseed = rng.choice([0, 0, 1, 2, 3, 4, 6])
    span = (today - start).days + 1
    for _ in range(nseed):
        r = rng.random()
        d = start + datetime.timedelta(days=rng.randint(-9, span))
        if kind == "daily":
            st = _date(d)
        else:
            st = _ts(datetime.datetime(d.year, d.month, d.day, rng.randint(0, 23), rng.randint(0, 59), rng.randint(0, 59)))
        if r < 0.7:
            name = _bname(kind, fname, delim, st)
            if rng.random() < (0.8 if gz else 0.2):
                name += ".gz"
        elif r < 0.8:
            name = rng.choice(["other.txt", fname + "x", fname + ".bak", "x" + fname, "zz"])
        elif r < 0.9:
            name = _bname(kind, fname, delim, rng.choice(["zzz", "0", "", "2020"]))
        else:
            name = _bname(kind, fname + "2", delim, st)
        if name in used or name == fname or name == "":
            continue
        used.add(name)
        recs = []
        for _ in range(rng.randint(1, 2)):
            if sid < 94:
                recs.append([sid, rng.randint(1, 9)])
                sid += 1
        seeds.append({"name": name, "recs": recs, "gz": 1 if name.endswith(".gz") and rng.random() < 0.95 else 0})
    if rng.random() < 0.3 and sid < 93 and not force.get("no_current_seed"):
        seeds.append({"name": fname, "recs": [[sid, rng.randint(1, 12)], [sid + 1, rng.randint(1, 6)]], "gz": 0})
    return {"kind": kind, "file": fname, "delim": delim, "days": days, "gzip": gz, "compress": compress,
            "maxsize": maxsize, "maxbackups": maxbackups, "seeds": seeds, "rot0": rot0, "now0": now0,
            "events": events, "endb": endb}


def _front(rng, tier):
    """second stream: the same scripts submitted through the logx writer front-end, in bursts while the
    worker is parked; seeds are line files (record length >= 5)"""
    c = _one(rng, tier)
    c["front"] = {"enc": rng.choice(["json", "plain"]), "wire": rng.choice(["file", "file", "new"])}
    if c["kind"] == "size" and c["maxsize"] > 0:
        c["maxsize"] = rng.choice([60, 100, 150, 200, 400])      # encoded lines are 40-120 bytes
    for sd in c["seeds"]:
        sd["recs"] = [[r[0], r[1] + 5] for r in sd["recs"]]
    evs, burst = [], []
    for e in c["events"]:
        if "w" in e:
            burst.append(e["w"])
            if rng.random() < 0.35:
                evs.append({"b": burst} if len(burst) > 1 else {"w": burst[0]})
                burst = []
        else:
            if burst:
                evs.append({"b": burst} if len(burst) > 1 else {"w": burst[0]})
                burst = []
            evs.append(e)
    if burst:
        evs.append({"b": burst} if len(burst) > 1 else {"w": burst[0]})
    c["events"] = evs
    return c


def _restart(rng, tier):
    """two (or three) lives: Close, then a new logger on the same, usually non-empty, current file"""
    c = _one(rng, tier)
    widx = [i for i, e in enumerate(c["events"]) if "w" in e]
    cuts = sorted(set(rng.sample(widx[1:], min(len(widx) - 1, rng.choice([1, 1, 2])))), reverse=True) if len(widx) > 1 else []
    for i in cuts:
        nxt = c["events"][i]["w"][2]
        prev = [e["w"][2] for e in c["events"][:i] if "w" in e][-1]
        # the new process starts at the clock of the previous record, or (daily) of the next one; under the
        # size rule init and a rotation in the same second would pick one backup name twice
        stamp = nxt if c["kind"] == "daily" and rng.random() < 0.5 else prev
        c["events"].insert(i, {"r": [stamp, stamp, c["endb"]]})
    return c


def _fault(rng, tier):
    """compression that fails: a directory, or a symlink to /dev/full, sits where <backup>.gz goes"""
    c = _one(rng, tier, {"gzip": True, "compress": True})
    stamps = [c["now0"]] + [e["w"][2] for e in c["events"] if "w" in e]
    stamps = sorted(set(stamps))
    if c["kind"] == "daily" and len(stamps) > 1:
        stamps = stamps[:-1]                     # every date but the last names a backup
    have = {s["name"] for s in c["seeds"]}
    for st in rng.sample(stamps, min(len(stamps), rng.randint(1, 4))):
        name = _bname(c["kind"], c["file"], c["delim"], st) + ".gz"
        if name not in have:
            c["seeds"].append({"name": name, "recs": [], "gz": 0, "kind": rng.choice(["dir", "devfull"])})
            have.add(name)
    return c


def _setup(rng, tier):
    """the configuration path: logx.Config -> newFileWriter -> createOutput; MaxSize in MB, so records are large"""
    size = rng.random() < 0.8
    su = {"rotation": "size" if size else "daily", "maxsize": rng.choice([0, 1, 1, 1, 2]) if size else rng.choice([0, 3]),
          "maxbackups": rng.choice([0, 1, 2, 3, 3]) if size else rng.choice([0, 2]),
          "keepdays": rng.choice([-1, 0, 0, 1, 2, 3, 7]), "compress": rng.random() < 0.5}
    if size and su["maxsize"] == su["maxbackups"]:
        su["maxbackups"] += 2
    mb = 1 << 20
    force = {"kind": "size" if size else "daily", "file": "access.log", "delim": "-", "days": max(su["keepdays"], 0),
             "gzip": su["compress"], "compress": su["compress"], "no_current_seed": True,
             "maxsize": max(su["maxsize"], 0) * mb if size else 0, "maxbackups": max(su["maxbackups"], 0) if size else 0,
             "nw": rng.randint(5, 9)}
    if size:
        force["lens"] = (150000, 900000 * max(su["maxsize"], 1))
    c = _one(rng, tier, force)
    c["setup"] = su
    return c


LONG = [4096, 4097, 5000, 8192, 8192, 12000, 16384]
FNS = ["info", "info", "infof", "error", "errorf", "slow", "stat"]


def _public(rng, tier):
    """long records through the public logx functions (Info/Infof/Error/Errorf/Slow/Stat -> global writer ->
    concreteWriter -> RotateLogger), size rule, mostly plain encoding, sequential, in bursts and from several
    goroutines at once; compression off (compressLogFile itself logs through the global writer)"""
    c = _one(rng, tier, {"kind": "size", "gzip": False, "compress": False,
                         "maxsize": rng.choice([6000, 20000, 20000, 65536, 150000, 300000]), "lens": (1, 1)})
    c["front"] = {"enc": "plain" if rng.random() < 0.75 else "json", "wire": "public"}
    for sd in c["seeds"]:
        sd["recs"] = [[r[0], r[1] + 5] for r in sd["recs"]]

    def length():
        r = rng.random()
        if r < 0.35:
            return rng.randint(0, 200)
        if r < 0.85:
            return rng.choice(LONG) if rng.random() < 0.7 else rng.randint(4097, 20000)
        return 102400

    evs, group = [], []

    def flush():
        nonlocal group
        if not group:
            return
        r = rng.random()
        if len(group) >= 2 and r < 0.6:
            k = rng.randint(2, min(4, len(group)))
            gor = [[] for _ in range(k)]
            for j, w in enumerate(group):
                gor[j % k].append([w[0], length(), rng.choice(FNS)])
            evs.append({"c": {"gor": gor, "stamps": [w[2] for w in group]}})
        elif len(group) >= 2 and r < 0.8:
            evs.append({"b": [[w[0], length(), w[2]] for w in group]})
        else:
            evs.extend({"w": [w[0], length(), w[2]]} for w in group)
        group = []

    for e in c["events"]:
        if "w" in e:
            group.append(e["w"])
            if rng.random() < 0.25:
                flush()
        else:
            flush()
            evs.append(e)
    flush()
    c["events"] = evs
    return c


def _holdgz(rng, tier):
    """compression with overlapping rotations: every compress phase is held (the compressor reports through logx
    before gzipping; a gated global writer parks it there) until a "g" event, so later rotations, clean-ups and
    other compress phases happen while earlier backups are still waiting to be compressed"""
    force = {"gzip": True, "compress": True}
    if rng.random() < 0.5:
        force.update({"kind": "daily"})
    c = _one(rng, tier, force)
    c["holdgz"] = True
    evs = []
    for e in c["events"]:
        evs.append(e)
        if "w" in e and rng.random() < 0.2:
            evs.append({"g": True})
    c["events"] = evs
    if rng.random() < 0.25:      # and sometimes a compression that fails among them
        stamps = sorted(set([c["now0"]] + [e["w"][2] for e in c["events"] if "w" in e]))
        have = {s["name"] for s in c["seeds"]}
        name = _bname(c["kind"], c["file"], c["delim"], rng.choice(stamps)) + ".gz"
        if name not in have:
            c["seeds"].append({"name": name, "recs": [], "gz": 0, "kind": rng.choice(["dir", "devfull"])})
    return c


def _symlink(rng, tier):
    """the log path is a symbolic link to the real file (kept on another file system when there is one), possibly
    dangling at start-up, or lies inside a symbolic link to the real directory; on top of any other stream"""
    c = rng.choice([_one, _one, _restart, _holdgz, _front])(rng, tier)
    has_cur = any(s["name"] == c["file"] for s in c["seeds"])
    c["link"] = rng.choice(["file", "file", "dir"] if has_cur else ["file", "dangling", "dir", "dir"])
    return c


def _backlog(rng, tier):
    """a backlog larger than the writer channel (bufferSize 100): 150-260 records are written while the worker is
    parked inside the rule; Write must block or otherwise deliver every record it accepted"""
    c = _one(rng, tier, {"kind": "size", "nw": rng.randint(150, 260), "lens": (1, 12)})
    c["front"] = {"enc": rng.choice(["json", "plain"]), "wire": "file"}
    if c["kind"] == "size" and c["maxsize"] > 0:
        c["maxsize"] = rng.choice([2000, 5000, 20000])
    for sd in c["seeds"]:
        sd["recs"] = [[r[0] + 840, r[1] + 6] for r in sd["recs"]]     # ids 900.. : away from the 150-260 record ids
    ws = [e["w"] for e in c["events"] if "w" in e]
    ds = [e for e in c["events"] if "d" in e][:3]
    k = rng.randint(0, 20)
    c["events"] = [{"w": w} for w in ws[:k]] + [{"b": ws[k:]}] + ds
    return c


def _samesec(rng, tier):
    """size rule, bursts within the wall-clock second in which the rule was created or last rotated: the clock
    string does not advance, rotation must still happen and no file may exceed maxSize by more than one record.
    (Backup names coincide then -- the property's proviso fails; HEAD's behaviour is pinned by the model only.)"""
    rec = rng.choice([64, 200, 1000])
    c = _one(rng, tier, {"kind": "size", "maxsize": 16 * rec, "nw": rng.randint(20, 30), "lens": (rec, rec),
                         "maxbackups": rng.choice([0, 0, 2, 3])})
    stamp = c["now0"]
    mode = rng.choice(["creation", "creation", "rotation"])
    k = 0 if mode == "creation" else rng.randint(17, 19)     # the first rotation comes with the 17th record
    for i, e in enumerate([e for e in c["events"] if "w" in e]):
        if i < k:
            stamp = e["w"][2]
        else:
            e["w"][2] = stamp
    return c


def _cleanup_gz(rng, tier):
    """gzip on, maxBackups 1 or 2, clean-up released right after every rotation: the newest maxBackups backups,
    the just rotated and compressed one included, survive"""
    rec = rng.choice([5, 9])
    c = _one(rng, tier, {"kind": "size", "gzip": True, "compress": True, "maxsize": rec * rng.choice([1, 2, 3]),
                         "maxbackups": rng.choice([1, 2]), "lens": (1, rec), "days": rng.choice([0, 0, 1, 3]),
                         "nw": rng.randint(8, 14)})
    evs = []
    for e in c["events"]:
        if "d" in e:
            continue
        evs.append(e)
        if "w" in e:
            evs.append({"d": c["endb"]})
    c["events"] = evs
    return c


# Round 8: on the unchanged tree a rotation whose os.Rename fails leaves l.fp nil (rotate closes the file before the
# rename and returns on the error without reopening): the triggering record and every later one is dropped until
# ShallRotate is true again (class failed-rotation-drops-record, reported to the coordinator with a one-hunk fix).
# Turn the stream on once rotate reopens the current file on failure: verified green on 3 seeds with that fix.
ROTATION_FAULT_STREAM = True


def _rotfail(rng, tier):
    """a rotation that fails once: a non-empty directory sits at the backup name chosen at start-up and is removed a
    few records later; the rotation is retried with every record and no accepted record may be lost"""
    c = _one(rng, tier, {"kind": rng.choice(["daily", "size"]), "no_current_seed": rng.random() < 0.5})
    name = _bname(c["kind"], c["file"], c["delim"], c["now0"])
    c["seeds"] = [sd for sd in c["seeds"] if sd["name"] != name] + [{"name": name, "recs": [], "gz": 0, "kind": "fulldir"}]
    widx = [i for i, e in enumerate(c["events"]) if "w" in e]
    at = widx[min(len(widx) - 1, rng.randint(2, 6))]
    c["events"].insert(at, {"x": name})
    return c


def _daily_delim(rng, tier):
    """daily rule with a custom delimiter and retention days, clean-up after every record"""
    c = _one(rng, tier, {"kind": "daily", "delim": rng.choice(["+", ",", "#", "--"]), "days": rng.choice([1, 2, 3]),
                         "nw": rng.randint(6, 12)})
    evs = []
    for e in c["events"]:
        if "d" in e:
            continue
        evs.append(e)
        day = datetime.date.fromisoformat(e["w"][2])
        evs.append({"d": _date(day - datetime.timedelta(days=c["days"]))})
    c["events"] = evs
    return c


def generate(rng, tier, n):
    out = []
    for i in range(n):
        if ROTATION_FAULT_STREAM and i % 30 in (4, 19):
            out.append(_rotfail(rng, tier))
        elif i % 30 in (10, 25):
            out.append(_daily_delim(rng, tier))
        elif i % 30 == 11:
            out.append(_backlog(rng, tier))
        elif i % 30 in (12, 27):
            out.append(_samesec(rng, tier))
        elif i % 30 in (6, 21):
            out.append(_cleanup_gz(rng, tier))
        elif i % 15 in (8, 13):
            out.append(_symlink(rng, tier))
        elif i % 15 in (1, 7):
            out.append(_holdgz(rng, tier))
        elif i % 6 == 5:
            out.append(_public(rng, tier))
        elif i % 3 == 2:
            out.append(_front(rng, tier))
        elif i % 15 == 0:
            out.append(_setup(rng, tier))
        elif i % 15 in (3, 6, 9):
            out.append(_restart(rng, tier))
        elif i % 15 in (4, 10):
            out.append(_fault(rng, tier))
        else:
            out.append(_one(rng, tier))
    return out


def _writes(case):
    out = []
    for e in case["events"]:
        if "w" in e:
            out.append(e["w"])
        elif "b" in e:
            out.extend(e["b"])
        elif "c" in e:
            out.extend([r[0], r[1], None] for g in e["c"]["gor"] for r in g)
    return out


def classify(case, obs):
    """known-finding classes (see KNOWN_FINDINGS.txt): RotateLogger.Write retains the caller's slice; the plain
    encoding (fmt.Fprint) and NewWriter (log.Logger) hand it pooled buffers that are reused before the worker writes"""
    if any(sd.get("kind") == "fulldir" for sd in case["seeds"]):
        # rotate closes l.fp before os.Rename and returns on its error without reopening: write drops the record
        files = list(obs.get("final", [])) + [f for l in obs.get("log", []) if l.get("d") for f in l["d"]["outs"]]
        seen = [r[0] for f in files for r in f["runs"]]
        missing = [w[0] for w in _writes(case) if w[1] > 0 and w[0] not in seen]
        if missing:
            return "failed-rotation-drops-record"
    fr = case.get("front")
    if fr and (fr["enc"] == "plain" or fr["wire"] == "new") and all(a[2] == 1 for a in obs.get("accepted", [])):
        files = list(obs.get("final", [])) + [f for l in obs.get("log", []) if l.get("d") for f in l["d"]["outs"]]
        seen = [r[0] for f in files for r in f["runs"]]
        ids = [w[0] for w in _writes(case)]
        if any(i < 0 for i in seen) or any(seen.count(i) != 1 for i in ids):
            return "front-pooled-buffer-retained"
    return None


def search(rng, problems):
    """directed: three records with a rotation after the second (records after a rotation must survive),
    exact-limit sizes, one backup too many, boundary-day backups"""
    out = []
    for gz in (False, True):
        out.append({"kind": "daily", "file": "access.log", "delim": "-", "days": 0, "gzip": gz, "compress": gz,
                    "maxsize": 0, "maxbackups": 0, "seeds": [], "rot0": "2020-01-05", "now0": "2020-01-05",
                    "events": [{"w": [0, 5, "2020-01-05"]}, {"w": [1, 6, "2020-01-05"]}, {"w": [2, 7, "2020-01-06"]},
                               {"w": [3, 3, "2020-01-07"]}], "endb": "2020-01-07"})
        out.append({"kind": "size", "file": "access.log", "delim": "-", "days": 0, "gzip": gz, "compress": gz,
                    "maxsize": 10, "maxbackups": 2, "seeds": [], "rot0": "2020-01-05T10:00:00Z", "now0": "2020-01-05T10:00:00Z",
                    "events": [{"w": [0, 5, "2020-01-05T10:00:01Z"]}, {"w": [1, 5, "2020-01-05T10:00:02Z"]},
                               {"w": [2, 1, "2020-01-05T10:00:03Z"]}, {"w": [3, 10, "2020-01-05T10:00:04Z"]},
                               {"w": [4, 4, "2020-01-05T10:00:05Z"]}, {"w": [5, 9, "2020-01-05T10:00:06Z"]},
                               {"d": "2020-01-05"}, {"w": [6, 2, "2020-01-05T10:00:07Z"]}], "endb": "2020-01-05"})
        out.append({"kind": "daily", "file": "access.log", "delim": "-", "days": 2, "gzip": gz, "compress": gz,
                    "maxsize": 0, "maxbackups": 0,
                    "seeds": [{"name": "access.log-2020-01-0%d%s" % (k, ".gz" if gz else ""), "recs": [[60 + k, 2]], "gz": 1 if gz else 0} for k in range(1, 6)],
                    "rot0": "2020-01-06", "now0": "2020-01-06",
                    "events": [{"w": [0, 5, "2020-01-06"]}, {"w": [1, 6, "2020-01-07"]}, {"d": "2020-01-05"}, {"w": [2, 7, "2020-01-08"]}],
                    "endb": "2020-01-06"})
    out.append({"kind": "daily", "file": "access.log", "delim": "-", "days": 0, "gzip": False, "compress": False,
                "maxsize": 0, "maxbackups": 0,
                "seeds": [{"name": "access.log-2020-01-05", "recs": [], "gz": 0, "kind": "fulldir"}],
                "rot0": "2020-01-05", "now0": "2020-01-05",
                "events": [{"w": [0, 5, "2020-01-05"]}, {"w": [1, 6, "2020-01-06"]}, {"x": "access.log-2020-01-05"},
                           {"w": [2, 7, "2020-01-06"]}, {"w": [3, 3, "2020-01-06"]}, {"w": [4, 4, "2020-01-07"]}],
                "endb": "2020-01-01"})
    out.extend(_rotfail(rng, "search") for _ in range(6))
    for enc in ("json", "plain"):
        for wire in ("file", "new"):
            out.append({"kind": "daily", "file": "access.log", "delim": "-", "days": 0, "gzip": False, "compress": False,
                        "maxsize": 0, "maxbackups": 0, "seeds": [], "rot0": "2020-01-05", "now0": "2020-01-05",
                        "front": {"enc": enc, "wire": wire},
                        "events": [{"b": [[0, 5, "2020-01-05"], [1, 9, "2020-01-05"], [2, 3, "2020-01-06"]]},
                                   {"w": [3, 4, "2020-01-06"]}], "endb": "2020-01-06"})
    return out


def _nm(s):
    return "(sn %s)" % cstr(s)


def _file(name, recs, gz, kind=""):
    depth = gz if gz >= 0 else 99
    if kind:
        depth = {"dir": 77, "fulldir": 79}.get(kind, 78)
    return cpair(_nm(name), cpair(clist(["mkrec %s %s" % (cnat(r[0]) if r[0] >= 0 else "999%nat", cZ(r[1])) for r in recs]), cnat(depth)))


def _cfg(case):
    return "(mkcfg %s %s %s %s %s %s %s %s)" % (
        "Daily" if case["kind"] == "daily" else "SizeLimit", _nm(case["file"]), _nm(case["delim"]), cZ(case["days"]),
        cbool(case["gzip"]), cbool(case["compress"]), cZ(case["maxsize"]), cZ(case["maxbackups"]))


def encode(case, obs):
    seeds = clist([_file(s["name"], s["recs"], s["gz"], s.get("kind", "")) for s in case["seeds"]])
    setup = "None"
    cfg = _cfg(case)
    if case.get("setup"):
        su = case["setup"]
        setup = "(Some (mksetup %s %s %s %s %s))" % (cbool(su["rotation"] == "size"), cZ(su["maxsize"]), cZ(su["maxbackups"]),
                                                    cZ(su["keepdays"]), cbool(su["compress"]))
        r = obs.get("rule")
        if r:   # the rule observed on the logger that createOutput built
            cfg = _cfg({"kind": r["kind"], "file": r["file"], "delim": r["delim"], "days": r["days"], "gzip": r["gzip"],
                        "compress": r["compress"], "maxsize": r["maxsize"], "maxbackups": r["maxbackups"]})
    if "log" not in obs or "final" not in obs:
        # driver failure: an empty observation falsifies both checkers
        return "mkcase %s %s %s %s [] [] %s true false" % (cfg, seeds, _nm(case["rot0"]), _nm(case["now0"]), setup)
    writes = [list(w) for w in _writes(case)]
    front_ok = True
    if case.get("front"):
        # the byte length of a record is the length of its encoded line, observed where the front-end hands it over
        # what the model processes are the slices handed to RotateLogger.Write, in order of arrival, each with the
        # clock string it saw; exactly one well-formed slice per submitted record when the front-end is right
        acc = obs.get("accepted", [])
        front_ok = sorted(a[0] for a in acc) == sorted(w[0] for w in writes) and all(a[2] == 1 for a in acc)
        stamps = [l.get("s", "") for l in obs["log"] if l.get("w") is not None]
        writes = [[a[0] if a[0] >= 0 else 999, a[1], stamps[k] if k < len(stamps) else ""] for k, a in enumerate(acc)]
    evs = []
    restarts = [e["r"] for e in case["events"] if "r" in e]
    for e in obs["log"]:
        if e.get("x"):
            evs.append("XRemove %s" % _nm(e["x"]))
        elif e.get("g"):
            evs.append("XGzip")
        elif e.get("r"):
            r = restarts.pop(0)
            evs.append("XRestart %s %s" % (_nm(r[0]), _nm(r[1])))
        elif e.get("d") is not None:
            d = e["d"]
            evs.append("XDelete %s %s %s %s %s" % (
                _nm(d["b0"]), _nm(d["b1"]), clist([_nm(n) for n in d["before"]]),
                clist([_file(f["name"], f["runs"], f["gz"]) for f in d["outs"]]),
                clist([_nm(n) for n in (d["after"] or [])])))
        else:
            # more passes than records (the worker saw a record in pieces): an unknown record
            w = writes[e["w"]] if e["w"] < len(writes) else [998, 0, e.get("s") or case["now0"]]
            evs.append("%s (mkrec %s %s) %s" % ("XWriteHold" if case.get("holdgz") else "XWrite", cnat(w[0]), cZ(w[1]), _nm(w[2])))
    # records that were accepted (Write returned len, nil) but never reached the worker still count as accepted
    done = sum(1 for e in obs["log"] if e.get("w") is not None)
    for w in writes[done:] if (case.get("front") or obs.get("aborted")) else []:
        evs.append("XWrite (mkrec %s %s) %s" % (cnat(w[0]), cZ(w[1]), _nm(w[2] or case["now0"])))
    final = clist([_file(f["name"], f["runs"], f["gz"]) for f in obs["final"]])
    return "mkcase %s %s %s %s %s %s %s %s %s" % (cfg, seeds, _nm(case["rot0"]), _nm(case["now0"]), clist(evs), final, setup,
                                                  cbool(_distinct(case, obs)), cbool(front_ok))


def _removed(obs):
    return sum(len(e["d"]["outs"]) for e in obs.get("log", []) if e.get("d") is not None)


def nontrivial(case, obs):
    rot = obs.get("rotations", 0)
    return rot >= 2 or (rot >= 1 and _removed(obs) >= 1)


def _distinct(case, obs):
    """the proviso: no clock string chosen for two backup names (measured on the observed rotations)"""
    chosen = [case["now0"]]
    ws = _writes(case)
    rs = [e["r"] for e in case["events"] if "r" in e]
    for l in obs.get("log", []):
        if l.get("r") and rs:
            chosen = chosen[:-1] + [rs.pop(0)[1]]
        elif l.get("w") is not None and l.get("rot"):
            chosen.append(l.get("s") or (ws[l["w"]][2] if l["w"] < len(ws) else ""))
        if len(set(chosen)) != len(chosen):
            return False
    return True


def bucket(case, obs):
    out = ["kind:" + case["kind"], "gzip:%s" % case["gzip"], "rotations=%d" % min(obs.get("rotations", 0), 6)]
    if case["gzip"] != case["compress"]:
        out.append("gzip!=compress")
    rm = _removed(obs)
    out.append("removed=%d" % min(rm, 5))
    if any(s["name"] == case["file"] for s in case["seeds"]):
        out.append("preexisting-current")
    if any(w[1] == 0 for w in _writes(case)):
        out.append("zero-length-record")
    if case.get("front"):
        out.append("front:%s/%s" % (case["front"]["enc"], case["front"]["wire"]))
        out.append("front-burst=%d" % min(6, max([len(e["b"]) for e in case["events"] if "b" in e] + [1])))
        if any("c" in e for e in case["events"]):
            out.append("front-concurrent-writers=%d" % max(len(e["c"]["gor"]) for e in case["events"] if "c" in e))
        big = max([w[1] for w in _writes(case)] + [0])
        out.append("front-longest:" + ("<4KiB" if big < 4096 else "4-16KiB" if big <= 16384 else ">16KiB"))
    else:
        out.append("direct-write")
    if case.get("setup"):
        out.append("config-path:%s" % case["setup"]["rotation"])
    if case.get("link"):
        out.append("link:" + case["link"])
    if any(sd.get("kind") == "fulldir" for sd in case["seeds"]):
        out.append("rotation-fault")
    if case["kind"] == "daily" and case["delim"] in ("+", ",", "#") and case["days"] > 0:
        out.append("daily-custom-delim-retention")
    if case.get("holdgz"):
        # largest number of rotated backups waiting for their compress phase at the same time
        waiting = most = 0
        for l in obs.get("log", []):
            if l.get("rot"):
                waiting += 1
            elif l.get("g"):
                waiting -= 1
            most = max(most, waiting)
        out.append("held-compressions=%d" % min(most, 5))
    nr = sum(1 for e in case["events"] if "r" in e)
    if nr:
        out.append("lives=%d" % (nr + 1))
        first = [l for l in obs.get("log", [])]
        k = next((i for i, l in enumerate(first) if l.get("r")), len(first))
        out.append("first-life-rotated" if any(l.get("rot") for l in first[:k]) else "first-life-no-rotation")
    if any(s.get("kind") for s in case["seeds"]):
        failed = [f["name"] for f in obs.get("final", []) if f["gz"] in (77, 78)]
        plain = {f["name"] for f in obs.get("final", [])}
        out.append("gzip-fault:" + ("hit" if any(n[:-3] in plain for n in failed) else "not-hit"))
    dup = not _distinct(case, obs)
    out.append("hyp:DUPLICATE-BACKUP-NAME" if dup else "hyp:distinct-backup-names")
    if obs.get("errs"):
        out.append("driver-timeout")
    return out


def explain(case, obs):
    return ("observed directory contents contradict C19.Exec.spec_ok: a processed record is missing, duplicated, truncated, garbled "
            "(front-end stream: a line in a file that is none of the lines handed to RotateLogger.Write shows as id -1) or "
            "out of order across current file + backups + files removed by clean-up (c19_no_loss_no_dup_in_order), or a file "
            "written under the size rule exceeds maxSize by more than its single record (c19_size_overshoot), or clean-up named "
            "a file that is not an outdated backup / removed one of the newest backups / the current file (c19_outdated_sound, "
            "c19_newest_kept)")
