"""C10 timing wheel: call histories (SetTimer/MoveTimer/RemoveTimer/Drain/Stop + ticks) on a fake ticker.

Interface: see props/c13.py.  One case = one wheel: {"kind":"wheel","interval":ns,"slots":N,"calls":[...]};
observation = per call {err, fired (callback order), drained (sorted)}.
"""
from vlib import cZ, cnat, cbool, clist, run_driver

ID = "C10"
GO_PKG = "./lib/collection"
_F = "lib/collection/timingwheel.go"
GEN_SPEC = {"items": [
    {"kind": "func", "file": _F, "name": "getPositionAndCircle"},
    {"kind": "calls", "file": _F, "func": "TimingWheel.run", "as": "run_calls"},
    {"kind": "calls", "file": _F, "func": "TimingWheel.setTask", "as": "setTask_calls"},
    {"kind": "calls", "file": _F, "func": "TimingWheel.moveTask", "as": "moveTask_calls"},
    {"kind": "calls", "file": _F, "func": "TimingWheel.removeTask", "as": "removeTask_calls"},
    {"kind": "calls", "file": _F, "func": "TimingWheel.scanAndRunTasks", "as": "scan_calls"},
    {"kind": "calls", "file": _F, "func": "TimingWheel.drainAll", "as": "drain_calls"},
    {"kind": "calls", "file": _F, "func": "TimingWheel.runTasks", "as": "runTasks_calls"},
    {"kind": "calls", "file": _F, "func": "TimingWheel.SetTimer", "as": "SetTimer_calls"},
    {"kind": "calls", "file": _F, "func": "TimingWheel.MoveTimer", "as": "MoveTimer_calls"},
    {"kind": "calls", "file": _F, "func": "TimingWheel.RemoveTimer", "as": "RemoveTimer_calls"},
    {"kind": "calls", "file": _F, "func": "TimingWheel.Drain", "as": "Drain_calls"},
    {"kind": "const", "file": _F, "name": "drainWorkers"},
    {"kind": "calls", "file": "lib/threading/taskrunner.go", "func": "TaskRunner.Schedule", "as": "schedule_calls"},
    {"kind": "calls", "file": "lib/threading/routines.go", "func": "RunSafe", "as": "runsafe_calls"},
    {"kind": "calls", "file": "lib/threading/routines.go", "func": "GoSafe", "as": "gosafe_calls"},
    {"kind": "calls", "file": "lib/rescue/recover.go", "func": "Recover", "as": "recover_calls"},
    {"kind": "const", "file": "lib/collection/safemap.go", "name": "maxDeletion"},
    {"kind": "const", "file": "lib/collection/safemap.go", "name": "copyThreshold"},
]}
QUICK_N = 400
THOROUGH_N = 6000
SEARCH_N = 400
SHARD = 50
DRIVER_TIMEOUT = 1200
RULE = ("one wheel per case: slot count N in {1..7,10,16,60,300}, interval in {1ns,7ns,1us,1ms,1s}, 4-6 keys; "
        "random histories of 15-120 calls (Set/Move/Remove/Tick bursts, delays k*I+r with k drawn from "
        "{1,N-1,N,N+1,2N,2N+1} or uniform up to 3N+2) followed by ticks past the last due time, plus a directed "
        "stream `ticks^phase; Set k d1; ticks^j; Move|Set k d2; ticks^(3N+2)` over all phases of small wheels, a "
        "shutdown stream (Drain then ticks, Stop then further calls, double Stop) and a malformed stream (nil key, "
        "delay <= 0, delay < interval, calls after Drain, interval/slots <= 0) and a gated stream (slow callbacks: the "
        "execute callback of one task of a 3-5 task batch is held on a driver gate while later ticks fire further batches "
        "and further calls arrive; the drain function is held with 5-16 pending tasks, i.e. below and above drainWorkers, "
        "while ticks arrive) and a panic stream (the drain function panics on >= 8 of 12-50 pending tasks; execute callbacks "
        "panic on >= 9 firings of one tick and on further firings across ticks, followed by later timers), a drain/stop "
        "stream (Stop while a held Drain of 9-40 tasks over all slots is still handing over) and a key re-use stream "
        "(SetTimer/MoveTimer/RemoveTimer of key k while k's own execute callback is still running: from another goroutine "
        "with the callback held on a gate, and from inside the callback, optionally followed by a call from outside; "
        "delays below/at/above one revolution), a set-then-remove stream (SetTimer(k) immediately followed by RemoveTimer(k) from "
        "the same goroutine for 20-60 keys, with GOMAXPROCS(1) and without) and a two-wheel stream (two independent wheels in "
        "one process, A stuck in a held Drain of >= 9 tasks while B sets, ticks, drains and stops; each wheel is checked "
        "against its own model run); non-trivial = at least one callback "
        "observed and at least one Move or re-Set of a pending key; distinct = distinct canonical case JSON")
TRUSTED = ["the wheel model uses a plain association list for the timers index; that SafeMap refines a plain map is proved "
           "(c10_safemap_refines_map) and corresponded on its own histories (kind safemap)",
           "container/list (slots modelled as lists of heap ids), goroutine scheduling of the callback goroutines "
           "(the driver waits until they have exited or sit on one of its gates before the next call; every wait is bounded "
           "(4 s per case): a case that exceeds it is reported as hung, fails both checkers and is counted as obs:HUNG)",
           "fake ticker timex.NewFakeTicker: one Tick() = one receive on ticker.Chan() by the run loop"]
ASSUMPTIONS = ["operations are serialised through the run loop (the driver issues one call at a time and waits for "
               "the loop to finish it); callbacks may still be running (held on a driver gate) when later calls arrive: a "
               "callback is attributed to the call during which its batch goroutine ran its first callback (goroutine id), "
               "a drained pair to the latest Drain call, whenever it completes",
               "MoveTimer/SetTimer delays below one interval and calls other than ticks/Stop after Drain are outside "
               "the property text: checked against the model only (model_ok), spec_ok stops at the first such call"]

KEYS = ["k0", "k1", "k2", "k3", "k4", "k5"]
MANY = ["k%d" % i for i in range(16)]
LOTS = ["k%d" % i for i in range(64)]
GATES = ("hold", "release", "holddrain", "releasedrain")


def _delay(rng, n, iv, sub):
    r = rng.random()
    if sub and r < 0.12:
        return rng.randrange(1, iv) if iv > 1 else iv
    reps = [1, max(1, n - 1), n, n + 1, 2 * n, 2 * n + 1]
    k = rng.choice(reps) if r < 0.6 else rng.randint(1, 3 * n + 2)
    return k * iv + (rng.randrange(iv) if iv > 1 and rng.random() < 0.5 else 0)


def _rand_case(rng, big):
    n = rng.choice([1, 2, 3, 4, 5, 6, 7, 10, 16]) if not big else rng.choice([60, 300])
    iv = rng.choice([1, 7, 1000, 10 ** 6, 10 ** 9])
    nk = rng.choice([2, 4, 6])
    zero = rng.random() < 0.25      # mix in the keys that hold a zero value
    sub = rng.random() < 0.15
    bad = rng.random() < 0.25
    calls = []
    nops = rng.randint(15, 120)
    horizon = 0
    for _ in range(nops):
        r = rng.random()
        key = rng.choice(KEYS[:nk])
        if zero and rng.random() < 0.4:
            key = rng.choice(ZERO)
        if bad and rng.random() < 0.06:
            kind = rng.choice(["set", "move", "remove"])
            c = {"op": kind, "key": None if rng.random() < 0.5 else key, "val": rng.randrange(100),
                 "delay": rng.choice([0, -1, -iv]) if kind != "remove" and rng.random() < 0.7 else iv}
            if kind == "remove":
                c["key"] = None
            calls.append(c)
            continue
        if r < 0.45:
            burst = rng.choice([1, 1, 1, 2, 3, n, n + 1]) if n <= 16 else rng.choice([1, 2, 7, 50, n])
            calls.extend({"op": "tick"} for _ in range(burst))
            horizon = max(0, horizon - burst)
        elif r < 0.68:
            d = _delay(rng, n, iv, sub)
            calls.append({"op": "set", "key": key, "val": rng.randrange(100), "delay": d})
            horizon = max(horizon, d // iv + 1)
        elif r < 0.88:
            d = _delay(rng, n, iv, sub)
            calls.append({"op": "move", "key": key, "delay": d})
            horizon = max(horizon, d // iv + 1)
        else:
            calls.append({"op": "remove", "key": key})
    tail = rng.random()
    if tail < 0.45:
        calls.extend({"op": "tick"} for _ in range(min(horizon + 1, 3 * n + 3)))
    elif tail < 0.7:
        calls.append({"op": "drain"})
        if rng.random() < 0.2:  # out of scope of the property, model only
            for _ in range(rng.randint(1, 6)):
                key = rng.choice(KEYS[:nk])
                calls.append(rng.choice([{"op": "set", "key": key, "val": rng.randrange(100), "delay": _delay(rng, n, iv, False)},
                                         {"op": "move", "key": key, "delay": _delay(rng, n, iv, sub)},
                                         {"op": "remove", "key": key}, {"op": "tick"}, {"op": "drain"}]))
        calls.extend({"op": "tick"} for _ in range(rng.randint(1, n + 2)))
        calls.append({"op": "stop"})
    else:
        calls.extend({"op": "tick"} for _ in range(rng.randint(0, n)))
        calls.append({"op": "stop"})
        for _ in range(rng.randint(1, 6)):
            key = rng.choice(KEYS[:nk])
            calls.append(rng.choice([{"op": "set", "key": key, "val": 1, "delay": iv},
                                     {"op": "set", "key": None, "val": 1, "delay": iv},
                                     {"op": "move", "key": key, "delay": 2 * iv}, {"op": "move", "key": key, "delay": 0},
                                     {"op": "remove", "key": key}, {"op": "drain"}, {"op": "tick"}]))
        if rng.random() < 0.25:
            calls.append({"op": "stop"})
    return {"kind": "wheel", "interval": iv, "slots": n, "calls": calls}


def _directed(rng):
    """ticks^phase; Set k d1; ticks^j; (Move|Set) k d2; ticks^(3N+2) -- the D7 classes."""
    n = rng.choice([1, 2, 3, 4, 5, 7, 10])
    iv = rng.choice([1, 1000])
    phase = rng.randrange(n)
    s1 = rng.randint(1, 2 * n + 1)
    j = rng.randrange(0, s1)
    s2 = rng.randint(1, 2 * n + 1)
    calls = [{"op": "tick"} for _ in range(phase)]
    calls.append({"op": "set", "key": "k0", "val": 1, "delay": s1 * iv})
    if rng.random() < 0.5:
        calls.append({"op": "set", "key": "k1", "val": 2, "delay": rng.randint(1, 2 * n + 1) * iv})
    calls.extend({"op": "tick"} for _ in range(j))
    if rng.random() < 0.7:
        calls.append({"op": "move", "key": "k0", "delay": s2 * iv})
    else:
        calls.append({"op": "set", "key": "k0", "val": 3, "delay": s2 * iv})
    if rng.random() < 0.3:
        calls.append({"op": "remove", "key": "k1"})
    calls.extend({"op": "tick"} for _ in range(3 * n + 2))
    return {"kind": "wheel", "interval": iv, "slots": n, "calls": calls}


def _gated_exec(rng):
    """a batch of 3-5 tasks due at the same tick with the execute callback of one of them held on a driver gate
    while later ticks fire further batches and further calls arrive; released later (or at the end of the case)"""
    n = rng.choice([1, 2, 3, 4, 5, 6, 10])
    iv = rng.choice([1, 1000])
    s = rng.randint(1, 2 * n + 1)
    keys = list(MANY)
    rng.shuffle(keys)
    nb = rng.randint(3, 5)
    batch, rest = keys[:nb], keys[nb:]
    calls = [{"op": "tick"} for _ in range(rng.randrange(n))]
    for i, k in enumerate(batch):
        calls.append({"op": "set", "key": k, "val": 10 + i, "delay": s * iv})
    followers = rest[:rng.randint(2, 5)]
    for i, k in enumerate(followers):
        calls.append({"op": "set", "key": k, "val": 30 + i, "delay": (s + rng.randint(1, 3)) * iv})
    held = [batch[0] if rng.random() < 0.6 else rng.choice(batch[:-1])]
    if rng.random() < 0.3:
        held.append(rng.choice(followers))
    for k in held:
        calls.append({"op": "hold", "key": k})
    calls.extend({"op": "tick"} for _ in range(s))
    for _ in range(rng.randint(1, 5)):
        r = rng.random()
        if r < 0.6:
            calls.append({"op": "tick"})
        elif r < 0.75:
            calls.append({"op": "set", "key": rng.choice(rest[5:]), "val": 50, "delay": rng.randint(1, n + 1) * iv})
        elif r < 0.9:
            calls.append({"op": "move", "key": rng.choice(followers), "delay": rng.randint(1, n + 2) * iv})
        else:
            calls.append({"op": "remove", "key": rng.choice(followers)})
    if rng.random() < 0.8:
        for k in held:
            calls.append({"op": "release", "key": k})
    calls.extend({"op": "tick"} for _ in range(2 * n + 4))
    return {"kind": "wheel", "interval": iv, "slots": n, "calls": calls}


def _panic_drain(rng):
    """Drain with 12-50 pending tasks (more than drainWorkers) and a drain function that panics on at least 8 of them:
    every pending task is still handed over once and the wheel keeps consuming ticks"""
    n = rng.choice([1, 3, 5, 10])
    iv = rng.choice([1, 1000])
    nk = rng.choice([12, 20, 20, 50])
    keys = LOTS[:nk]
    calls = [{"op": "tick"} for _ in range(rng.randrange(n))]
    for i, k in enumerate(keys):
        calls.append({"op": "set", "key": k, "val": i, "delay": rng.randint(1, 3 * n) * iv})
    calls.extend({"op": "tick"} for _ in range(rng.randint(0, 2)))
    pd = ["*"] if rng.random() < 0.4 else rng.sample(keys, rng.randint(8, nk))
    calls.append({"op": "drain"})
    calls.extend({"op": "tick"} for _ in range(rng.randint(1, n + 3)))
    if rng.random() < 0.5:
        calls.append({"op": "stop"})
        calls.append({"op": "set", "key": "k0", "val": 1, "delay": iv})
    return {"kind": "wheel", "interval": iv, "slots": n, "panic_drain": pd, "calls": calls}


def _panic_exec(rng):
    """execute callbacks that panic on more than 8 firings, within one tick and across ticks; the timers due later
    still fire at their ticks"""
    n = rng.choice([1, 2, 3, 5, 10])
    iv = rng.choice([1, 1000])
    s = rng.randint(1, n + 2)
    keys = list(LOTS[:rng.choice([20, 30, 40])])
    rng.shuffle(keys)
    calls = [{"op": "tick"} for _ in range(rng.randrange(n))]
    pe = []
    if rng.random() < 0.6:      # one big batch, >= 9 of its callbacks panic
        nb = rng.randint(10, 16)
        batch, keys = keys[:nb], keys[nb:]
        for i, k in enumerate(batch):
            calls.append({"op": "set", "key": k, "val": i, "delay": s * iv})
        pe += rng.sample(batch, rng.randint(9, nb))
    horizon = s
    for i, k in enumerate(keys):    # the rest: spread over the following ticks, a few panicking at every tick
        d = s + 1 + i % (n + 4)
        horizon = max(horizon, d)
        calls.append({"op": "set", "key": k, "val": 50 + i, "delay": d * iv})
        if rng.random() < 0.6:
            pe.append(k)
    if rng.random() < 0.3:
        pe = ["*"]
    late = "k63"
    calls.append({"op": "set", "key": late, "val": 99, "delay": (horizon + 2) * iv})
    calls.extend({"op": "tick"} for _ in range(horizon + 3))
    return {"kind": "wheel", "interval": iv, "slots": n, "panic_exec": pe, "calls": calls}


def _drain_stop(rng):
    """Stop while a Drain with more than drainWorkers pending tasks (spread over several slots) is still handing
    over to a held drain function: everything pending at the Drain call is handed over once"""
    n = rng.choice([2, 3, 4, 5, 10])
    iv = rng.choice([1, 1000])
    nk = rng.choice([9, 12, 16, 24, 40])
    calls = [{"op": "tick"} for _ in range(rng.randrange(n))]
    for i, k in enumerate(LOTS[:nk]):
        calls.append({"op": "set", "key": k, "val": i, "delay": (1 + i % (2 * n + 1)) * iv})     # every slot, some with circles
    calls.extend({"op": "tick"} for _ in range(rng.randint(0, 2)))
    if rng.random() < 0.3:
        calls.append({"op": "remove", "key": rng.choice(LOTS[:nk])})
    calls += [{"op": "holddrain"}, {"op": "drain"}]
    if rng.random() < 0.4:
        calls.append({"op": "tick"})
    calls.append({"op": "stop"})
    if rng.random() < 0.5:
        calls.append({"op": "set", "key": "k0", "val": 1, "delay": iv})      # ErrClosed while the drain is still going on
    if rng.random() < 0.8:
        calls.append({"op": "releasedrain"})
    calls.append({"op": "remove", "key": "k1"})
    return {"kind": "wheel", "interval": iv, "slots": n, "calls": calls}


def _reuse(rng):
    """the key is used again while its own execute callback is still running: SetTimer / MoveTimer / RemoveTimer for
    the same key from another goroutine (callback held on a gate) or from inside the callback itself (then possibly a
    second call from outside); delays below, at and above one revolution"""
    n = rng.choice([1, 2, 3, 5, 10])
    iv = rng.choice([1, 1000])
    s1 = rng.randint(1, n + 1)
    s2 = rng.choice([1, max(1, n - 1), n, n + 1, 2 * n + 1, rng.randint(1, 3 * n)])
    calls = [{"op": "tick"} for _ in range(rng.randrange(n))]
    calls.append({"op": "set", "key": "k0", "val": 1, "delay": s1 * iv})
    for i in range(rng.randint(0, 3)):
        calls.append({"op": "set", "key": "k%d" % (i + 1), "val": 20 + i, "delay": rng.randint(1, 2 * n + 1) * iv})
    case = {"kind": "wheel", "interval": iv, "slots": n}
    inside = rng.random() < 0.5
    held = rng.random() < 0.8 or not inside
    if inside:
        case["rearm"] = {"k0": {"op": rng.choice(["set", "set", "set", "remove", "move"]), "key": "k0", "val": 2, "delay": s2 * iv}}
    if held:
        calls.append({"op": "hold", "key": "k0"})
    calls.extend({"op": "tick"} for _ in range(s1))                      # k0 fires; its callback is (maybe) still running
    outside = []
    r = rng.random()
    if not inside or r < 0.6:
        kind = rng.choice(["set", "set", "remove", "move", "set+remove", "set+move"])
        s3 = rng.choice([1, n, n + 1, 2 * n + 1, rng.randint(1, 3 * n)])
        if kind.startswith("set"):
            outside.append({"op": "set", "key": "k0", "val": 3, "delay": (s2 if not inside else s3) * iv})
        if kind.endswith("remove"):
            outside.append({"op": "remove", "key": "k0"})
        if kind.endswith("move"):
            outside.append({"op": "move", "key": "k0", "delay": s3 * iv})
    for o in outside:
        calls.append(o)
        if rng.random() < 0.3:
            calls.append({"op": "tick"})
    if held and rng.random() < 0.8:
        calls.extend({"op": "tick"} for _ in range(rng.randint(0, 2)))
        calls.append({"op": "release", "key": "k0"})
    r = rng.random()                                                     # the callback is over: the new timer must still answer
    if r < 0.25:
        calls.append({"op": "remove", "key": "k0"})
    elif r < 0.5:
        calls.append({"op": "move", "key": "k0", "delay": rng.choice([1, n, n + 1, 2 * n + 1]) * iv})
    elif r < 0.6:
        calls.append({"op": "set", "key": "k0", "val": 4, "delay": rng.choice([1, n, n + 1, 2 * n + 1]) * iv})
    calls.extend({"op": "tick"} for _ in range(3 * n + 4))
    case["calls"] = calls
    return case


def _setrm(rng):
    """SetTimer(k) and, straight away from the same goroutine, RemoveTimer(k), for many keys, with GOMAXPROCS(1) and
    without: none of them ever fires; a few plain timers in between do"""
    n = rng.choice([1, 2, 3, 5, 10])
    iv = rng.choice([1, 1000])
    calls = [{"op": "tick"} for _ in range(rng.randrange(n))]
    nk = rng.choice([20, 40, 60])
    for i, k in enumerate(LOTS[:nk]):
        if i % 7 == 3:
            calls.append({"op": "set", "key": k, "val": i, "delay": rng.randint(1, 2 * n + 1) * iv})
        else:
            calls.append({"op": "setrm", "key": k, "val": i, "delay": rng.choice([1, 1, n, n + 1, 2 * n + 1]) * iv})
        if rng.random() < 0.1:
            calls.append({"op": "tick"})
    calls.extend({"op": "tick"} for _ in range(2 * n + 3))
    case = {"kind": "wheel", "interval": iv, "slots": n, "calls": calls}
    if rng.random() < 0.5:
        case["gomaxprocs"] = 1
    return case


def _two_wheels(rng):
    """two wheels side by side: A drains into >= 8 held drain function calls (its loop is stuck in the runner) while B
    sets, ticks, drains all of its own pending tasks and keeps ticking"""
    n = rng.choice([2, 3, 5])
    iv = rng.choice([1, 1000])
    calls = []
    na = rng.choice([9, 12, 16])
    for i in range(na):
        calls.append({"op": "set", "key": LOTS[i], "val": i, "delay": (1 + i % (2 * n)) * iv})
    nb = rng.choice([3, 9, 12])
    for i in range(nb):
        calls.append({"op": "set", "w": 1, "key": LOTS[i], "val": 100 + i, "delay": (1 + i % (2 * n + 1)) * iv})
    calls += [{"op": "tick"}, {"op": "tick", "w": 1}]
    if rng.random() < 0.7:
        calls += [{"op": "holddrain"}, {"op": "drain"}]
    for _ in range(rng.randint(1, 3)):
        calls.append({"op": "tick", "w": 1})
    calls.append({"op": "set", "w": 1, "key": "k40", "val": 7, "delay": 2 * iv})
    if rng.random() < 0.7:
        calls.append({"op": "drain", "w": 1})
    calls += [{"op": "tick", "w": 1}] * rng.randint(1, n + 2)
    if rng.random() < 0.5:
        calls += [{"op": "stop", "w": 1}, {"op": "set", "w": 1, "key": "k41", "val": 1, "delay": iv}]
    calls.append({"op": "releasedrain"})
    calls += [{"op": "tick"}] * rng.randint(1, 3)
    return {"kind": "wheel", "interval": iv, "slots": n, "wheels": 2, "calls": calls}


ZERO = ["k70", "k71", "k72", "k73", "k74"]     # driver aliases: int 0, "", false, a zero struct, 0.0


def _zero_keys_fixed():
    """keys holding the zero value of their type are keys like any other: set, move, remove, re-set, drain"""
    iv, n = 1000, 3
    calls = []
    for i, k in enumerate(ZERO):
        calls.append({"op": "set", "key": k, "val": 10 + i, "delay": (2 + i) * iv})
    calls += [{"op": "move", "key": "k70", "delay": 5 * iv}, {"op": "remove", "key": "k71"}, {"op": "set", "key": "k72", "val": 33, "delay": 7 * iv}]
    calls += [{"op": "tick"}] * 8
    for i, k in enumerate(ZERO):
        calls.append({"op": "set", "key": k, "val": 20 + i, "delay": (1 + i) * iv})
    calls += [{"op": "tick"}, {"op": "tick"}, {"op": "drain"}, {"op": "tick"}]
    return [{"kind": "wheel", "interval": iv, "slots": n, "calls": calls}]


def _many_revolutions_fixed():
    """more than 65535 revolutions on a 2-slot wheel: set and move with d = 131080*I and neighbours fire at tick
    floor(d/I), not earlier; the ticks are issued as one burst and every callback comes with its tick offset"""
    out = []
    for iv in (1, 1000):
        calls = [{"op": "tick"}] * (1 if iv == 1 else 0)
        calls += [{"op": "set", "key": "k0", "val": 1, "delay": 131080 * iv}, {"op": "set", "key": "k1", "val": 2, "delay": 3 * iv},
                  {"op": "set", "key": "k2", "val": 3, "delay": 5 * iv}, {"op": "move", "key": "k2", "delay": 131075 * iv},
                  {"op": "set", "key": "k3", "val": 4, "delay": 65536 * 2 * iv}, {"op": "set", "key": "k4", "val": 5, "delay": (65536 * 2 + 1) * iv},
                  {"op": "set", "key": "k70", "val": 6, "delay": 131081 * iv},
                  {"op": "ticks", "n": 4}, {"op": "move", "key": "k1", "delay": 131072 * iv},
                  {"op": "ticks", "n": 131090}, {"op": "tick"}]
        out.append({"kind": "wheel", "interval": iv, "slots": 2, "calls": calls})
    return out


def _gated_drain(rng):
    """Drain with more pending tasks than drainWorkers while the drain function is held; ticks arrive meanwhile"""
    n = rng.choice([1, 2, 3, 4, 5, 10])
    iv = rng.choice([1, 1000])
    nk = rng.choice([5, 9, 10, 12, 14, 16])
    calls = [{"op": "tick"} for _ in range(rng.randrange(n))]
    for i, k in enumerate(MANY[:nk]):
        calls.append({"op": "set", "key": k, "val": i, "delay": rng.randint(1, 3 * n) * iv})
    calls.extend({"op": "tick"} for _ in range(rng.randint(0, 2)))
    if rng.random() < 0.3:
        calls.append({"op": "remove", "key": rng.choice(MANY[:nk])})
    calls.append({"op": "holddrain"})
    calls.append({"op": "drain"})
    calls.extend({"op": "tick"} for _ in range(rng.randint(1, n + 3)))
    calls.append({"op": "releasedrain"})
    calls.extend({"op": "tick"} for _ in range(rng.randint(1, 3 * n + 1)))
    if rng.random() < 0.5:
        calls.append({"op": "stop"})
    return {"kind": "wheel", "interval": iv, "slots": n, "calls": calls}


def _sm_gets(keys):
    return [{"op": "get", "k": k} for k in keys]


def _safemap_cases(rng, tier):
    """SafeMap histories that reach both compaction branches with a NON-empty other generation (the
    thresholds are 10000 deletions / 1000 live entries, hence the compact `churn` op), plus small random ones."""
    out = []
    live = 1000 + rng.randrange(5, 120)
    fresh = [200000 + rng.randrange(1000) * 7 + i for i in range(rng.randint(2, 6))]
    # (1) old generation over the deletion limit while still >= 1000 live -> Puts go to the new generation ->
    #     deleting old entries down to 999 merges old INTO new
    ops = [{"op": "put", "k": k, "v": k + 1} for k in range(live)]
    ops += [{"op": "churn", "k": 100000, "n": 10001}, {"op": "dump"}]
    ops += [{"op": "put", "k": k, "v": k * 3} for k in fresh] + [{"op": "dump"}] + _sm_gets(fresh)
    if rng.random() < 0.5:
        ops += [{"op": "put", "k": 5, "v": 55}, {"op": "get", "k": 5}]      # re-Put of an old key while in new mode
    ops += [{"op": "del", "k": k} for k in range(10, 10 + live - 999 + 3)]
    ops += [{"op": "dump"}] + _sm_gets(fresh + [0, 5, 9, 10, 11, live - 1, 100000, 110000])
    ops += [{"op": "del", "k": fresh[0]}, {"op": "get", "k": fresh[0]}, {"op": "put", "k": fresh[0], "v": 1}, {"op": "get", "k": fresh[0]}, {"op": "dump"}]
    out.append({"kind": "safemap", "ops": ops})
    # (2) new generation reaches the deletion limit with < 1000 live -> merged back INTO old
    ops = [{"op": "put", "k": k, "v": k + 1} for k in range(live)]
    ops += [{"op": "churn", "k": 100000, "n": 10001}]
    ops += [{"op": "put", "k": k, "v": k * 3} for k in fresh] + [{"op": "churn", "k": 300000, "n": 9999}, {"op": "dump"}]
    ops += [{"op": "del", "k": fresh[-1]}, {"op": "dump"}] + _sm_gets(fresh + [0, 1, live - 1, 300000])
    ops += [{"op": "put", "k": 777777, "v": 7}, {"op": "dump"}, {"op": "get", "k": 777777}]
    out.append({"kind": "safemap", "ops": ops})
    # (3) the same merge with the newer generation well populated (the pattern the cache's timer index shows after
    #     > 10000 timer removals with 1000 live entries): afterwards the newer keys are still found, replaced, deleted
    many = [400000 + i for i in range(300)]
    ops = [{"op": "put", "k": k, "v": k + 1} for k in range(1000)]
    ops += [{"op": "churn", "k": 100000, "n": 10001}]
    ops += [{"op": "put", "k": k, "v": k * 2} for k in many] + [{"op": "dump"}]
    ops += [{"op": "del", "k": 0}, {"op": "dump"}]                       # 999 old entries left: old merged into new
    ops += _sm_gets(many[:5] + many[-5:] + [1, 500, 999, 0])
    ops += [{"op": "put", "k": many[3], "v": 9}, {"op": "get", "k": many[3]}, {"op": "del", "k": many[4]}, {"op": "get", "k": many[4]},
            {"op": "put", "k": many[4], "v": 4}, {"op": "get", "k": many[4]}, {"op": "del", "k": 500}, {"op": "get", "k": 500}, {"op": "dump"}]
    ops += _sm_gets(many[100:110])
    out.append({"kind": "safemap", "ops": ops})
    for _ in range(3 if tier != "thorough" else 12):
        ops = []
        keys = list(range(8))
        for _ in range(rng.randint(10, 60)):
            r = rng.random()
            k = rng.choice(keys)
            if r < 0.4:
                ops.append({"op": "put", "k": k, "v": rng.randrange(100)})
            elif r < 0.65:
                ops.append({"op": "del", "k": k})
            elif r < 0.95:
                ops.append({"op": "get", "k": k})
            else:
                ops.append({"op": "dump"})
        out.append({"kind": "safemap", "ops": ops})
    return out


def generate(rng, tier, n):
    cases = []
    if tier != "search":
        cases.extend(_safemap_cases(rng, tier))
    if tier != "search":
        cases.append({"kind": "wheel", "interval": 0, "slots": 3, "calls": []})
        cases.append({"kind": "wheel", "interval": 1000, "slots": 0, "calls": []})
        cases.append({"kind": "wheel", "interval": -5, "slots": -1, "calls": []})
    cases += _zero_keys_fixed()      # _many_revolutions_fixed(): the driver runs it in < 1 s, the unary-nat Coq evaluation is too slow (not enabled)
    while len(cases) < n:
        r = rng.random()
        if r < 0.025:
            cases.append(_setrm(rng))
        elif r < 0.05:
            cases.append(_two_wheels(rng))
        elif r < 0.07:
            cases.append(_drain_stop(rng))
        elif r < 0.11:
            cases.append(_reuse(rng))
        elif r < 0.12:
            cases.append(_panic_drain(rng))
        elif r < 0.15:
            cases.append(_panic_exec(rng))
        elif r < 0.2:
            cases.append(_gated_exec(rng))
        elif r < 0.25:
            cases.append(_gated_drain(rng))
        elif r < 0.42:
            cases.append(_directed(rng))
        elif r < 0.96 or tier == "search":
            cases.append(_rand_case(rng, False))
        else:
            cases.append(_rand_case(rng, True))
    return cases


def _risky(c):
    return bool(c.get("panic_exec") or c.get("panic_drain"))


def drive(cases, tier):
    """One test process for everything; if it dies (an unrecovered panic in a callback goroutine kills the whole
    process and leaves no observations) the cases with panicking callbacks are re-run one per process so that the
    culprits are reported as observations ({"crashed": true}) and every other case still yields its own."""
    obs, log = run_driver(GO_PKG, cases, name="C10" + tier[0], timeout=DRIVER_TIMEOUT)
    if obs is not None:
        return obs, log
    risky = [i for i, c in enumerate(cases) if _risky(c)]
    safe = [i for i, c in enumerate(cases) if not _risky(c)]
    if not risky:
        return None, log
    out = [None] * len(cases)
    o, l2 = run_driver(GO_PKG, [cases[i] for i in safe], name="C10" + tier[0] + "s", timeout=DRIVER_TIMEOUT)
    if o is None:
        return None, log + l2
    for i, x in zip(safe, o):
        out[i] = x
    crashed = 0
    for i in risky:
        if crashed >= 4:        # enough culprits: do not pay a process per remaining case
            out[i] = {"skipped": True}
            continue
        o, l2 = run_driver(GO_PKG, [cases[i]], name="C10" + tier[0] + "x", timeout=120)
        if o is None:
            crashed += 1
            tail = [ln for ln in l2.splitlines() if "panic" in ln or "goroutine" in ln][:4]
            out[i] = {"crashed": True, "new_ok": True, "obs": [], "hung": "test process died: " + " | ".join(tail)[:300]}
        else:
            out[i] = o[0]
    return out, log


def search(rng, problems):
    out = []
    for n in (2, 3, 5, 10):
        for phase in range(n):
            for s1, s2 in ((n - 2, 2), (3, n + 7), (n, 1), (1, n), (n + 1, n - 1), (2, 2 * n)):
                if s1 < 1 or s2 < 1:
                    continue
                for op in ("move", "set"):
                    calls = [{"op": "tick"} for _ in range(phase)]
                    calls.append({"op": "set", "key": "k0", "val": 1, "delay": s1 * 1000})
                    c2 = {"op": op, "key": "k0", "delay": s2 * 1000}
                    if op == "set":
                        c2["val"] = 2
                    calls.append(c2)
                    calls.extend({"op": "tick"} for _ in range(3 * n + 2))
                    out.append({"kind": "wheel", "interval": 1000, "slots": n, "calls": calls})
    rng.shuffle(out)
    return out[:300] + [_setrm(rng) for _ in range(20)] + [_two_wheels(rng) for _ in range(20)] + [_drain_stop(rng) for _ in range(15)] + [_reuse(rng) for _ in range(40)] + [_panic_drain(rng) for _ in range(12)] + [_panic_exec(rng) for _ in range(12)] + [_directed(rng) for _ in range(200)] + [_gated_exec(rng) for _ in range(60)] + [_gated_drain(rng) for _ in range(60)]


def _key(k):
    return "None" if k is None else "(Some %s)" % cnat(int(k[1:]))


def _pairs(ps):
    return clist(["(%s, %s)" % (cnat(int(p["k"][1:])), cnat(p["v"])) for p in ps])


def _encode_safemap(case, obs):
    from vlib import cN, copt
    res = list(obs.get("res", []))
    ops = []
    for o in case["ops"]:
        k = o["op"]
        if k == "put":
            ops.append("OPut %s %s" % (cN(o["k"]), cN(o["v"])))
        elif k == "del":
            ops.append("ODel %s" % cN(o["k"]))
        elif k == "churn":
            ops.append("OChurn %s %s" % (cN(o["k"]), cN(o["n"])))
        elif k == "get":
            r = res.pop(0) if res else [-2]
            ops.append("OGet %s %s" % (cN(o["k"]), copt(None if r[0] < 0 else cN(r[0]))))
        else:
            r = res.pop(0) if res else [0, 0, 0, 0, 0]
            ops.append("ODump %s" % " ".join(cN(x) for x in r))
    return "CSM %s" % clist(ops)


def encode(case, obs):
    if case.get("kind") == "safemap":
        return _encode_safemap(case, obs)
    if obs.get("skipped"):      # the driver stopped running cases after too many of them hung
        return "CW (mkcase (1000)%Z (3)%Z [] true [] false)"
    def term(c):
        op = c["op"]
        if op == "set":
            return "XC (CSet %s %s %s)" % (_key(c["key"]), cnat(c["val"]), cZ(c["delay"]))
        if op == "move":
            return "XC (CMove %s %s)" % (_key(c["key"]), cZ(c["delay"]))
        if op == "remove":
            return "XC (CRemove %s)" % _key(c["key"])
        if op == "tick":
            return "XC CTick"
        if op == "ticks":
            return None
        if op == "drain":
            return "XC CDrain"
        if op in GATES:
            return "XGate"
        return "XC CStop"

    ol = obs.get("obs", [])

    def one(which):
        calls, os_ = [], []
        for i, c in enumerate(case["calls"]):
            if c.get("w", 0) != which:
                continue
            if c["op"] == "setrm":      # SetTimer then RemoveTimer straight away: two calls, nothing may fire
                calls += [term(dict(c, op="set")), term(dict(c, op="remove"))]
                if i < len(ol):
                    o = ol[i]
                    os_ += ["mkObs %s %s %s" % (cnat(o["err"]), _pairs(o["fired"]), _pairs(o["drained"])),
                            "mkObs %s [] []" % cnat(o.get("err2", 0))]
                continue
            if c["op"] == "ticks":      # many ticks as one call: the callbacks come with their tick offset
                seen = (ol[i].get("fired_at") or []) if i < len(ol) else []
                calls.append("XTicks %s %s" % (cnat(c["n"]), clist(["(%s, (%s, %s))" % (cnat(t[0]), cnat(int(t[1][1:])), cnat(t[2])) for t in seen])))
                if i < len(ol):
                    os_.append("mkObs %s [] %s" % (cnat(ol[i]["err"]), _pairs(ol[i]["drained"])))
                continue
            calls.append(term(c))
            if i < len(ol):
                o = ol[i]
                os_.append("mkObs %s %s %s" % (cnat(o["err"]), _pairs(o["fired"]), _pairs(o["drained"])))
                for r in o.get("rearmed") or []:     # wheel calls made from inside this call's callbacks: they follow it
                    calls.append(term(r))
                    os_.append("mkObs %s [] []" % cnat(r["err"]))
        short = len(ol) < len(case["calls"])
        return "mkcase %s %s %s %s %s %s" % (cZ(case["interval"]), cZ(case["slots"]), clist(calls), cbool(obs.get("new_ok", False)),
                                             clist(os_), cbool(bool(obs.get("hung")) or short))

    if case.get("wheels", 1) >= 2:
        return "CW2 (%s) (%s)" % (one(0), one(1))
    return "CW (%s)" % one(0)


def _resched(case):
    pend = set()
    hit = False
    for c in case["calls"]:
        if c["op"] == "set" and c.get("key") is not None and c["delay"] > 0:
            hit = hit or c["key"] in pend
            pend.add(c["key"])
        elif c["op"] == "move" and c.get("key") in pend and c["delay"] > 0:
            hit = True
    return hit


def nontrivial(case, obs):
    if case.get("kind") == "safemap":
        return any(o["op"] == "get" for o in case["ops"]) and any(o["op"] in ("del", "churn") for o in case["ops"])
    return not obs.get("skipped") and any(o["fired"] for o in obs.get("obs", [])) and _resched(case)


def bucket(case, obs):
    if case.get("kind") == "safemap":
        big = any(o["op"] == "churn" for o in case["ops"])
        return ["safemap:" + ("compaction" if big else "small")]
    if obs.get("skipped"):
        return ["obs:SKIPPED-after-hung-cases"]
    n = case["slots"]
    out = ["N=%s" % (n if n <= 7 else ("8-16" if n <= 16 else ">16")), "calls=%d" % (len(case["calls"]) // 50 * 50)]
    kinds = {c["op"] for c in case["calls"]}
    out += ["op:" + k for k in sorted(kinds)]
    iv = case["interval"]
    if any(c["op"] in ("set", "move") and 0 < c["delay"] < iv for c in case["calls"]):
        out.append("scope:sub-interval-delay")
    seen_drain = False
    for c in case["calls"]:
        if c["op"] == "drain":
            seen_drain = True
        elif seen_drain and c["op"] not in ("tick", "stop") + GATES:
            out.append("scope:call-after-drain")
            break
    if "hold" in kinds:
        out.append("gate:execute-held-across-ticks")
    if "holddrain" in kinds:
        npend = sum(1 for c in case["calls"] if c["op"] == "set")
        out.append("gate:drain-held-%s-drainWorkers" % ("over" if npend > 8 else "within"))
    if obs.get("late"):
        out.append("obs:callback-after-last-call")
    errs = {o["err"] for o in obs.get("obs", [])}
    out += ["err:%d" % e for e in sorted(errs) if e]
    if "holddrain" in kinds and "stop" in kinds:
        ops_ = [c["op"] for c in case["calls"]]
        if ops_.index("stop") > ops_.index("drain") and ("releasedrain" not in ops_ or ops_.index("stop") < ops_.index("releasedrain")):
            out.append("gate:stop-during-held-drain")
    if "setrm" in kinds:
        out.append("setrm:set-then-remove-back-to-back" + ("(GOMAXPROCS=1)" if case.get("gomaxprocs") == 1 else ""))
    if case.get("wheels", 1) >= 2:
        out.append("two-wheels" + (":A-drain-held" if "holddrain" in kinds else ""))
    if case.get("rearm"):
        out.append("reuse:wheel-call-from-inside-own-callback(%s)" % list(case["rearm"].values())[0]["op"])
    if "hold" in kinds:
        held = {c["key"] for c in case["calls"] if c["op"] == "hold"}
        seen_hold = False
        for c in case["calls"]:
            if c["op"] == "hold":
                seen_hold = True
            elif seen_hold and c["op"] in ("set", "move", "remove") and c.get("key") in held:
                out.append("reuse:%s-of-key-while-its-callback-is-held" % c["op"])
    if case.get("panic_drain"):
        out.append("panic:drain-function(%s pending)" % ("<=20" if sum(1 for c in case["calls"] if c["op"] == "set") <= 20 else ">20"))
    if case.get("panic_exec"):
        out.append("panic:execute-callbacks")
    if obs.get("crashed"):
        out.append("obs:PROCESS-DIED")
    if obs.get("hung"):
        out.append("obs:HUNG")
    if any(o["drained"] for o in obs.get("obs", [])):
        out.append("obs:drained")
    if any(len(o["fired"]) > 1 for o in obs.get("obs", [])):
        out.append("obs:multi-fire-tick")
    return out


def explain(case, obs):
    if case.get("kind") == "safemap":
        return ("a Get (or Size) of the real SafeMap differs from the plain association map after the same Put/Del history "
                "(c10_safemap_refines_map): an entry was lost or resurrected by a generation switch / compaction")
    if obs.get("crashed") or obs.get("hung"):
        return ("the wheel did not survive this history: " + str(obs.get("hung")) + " -- a callback that panics (or is slow) must "
                "not stop the run loop or the process: every pending task is still handed over / fired once and later ticks "
                "are consumed (c10_refines_timer_spec, c10_drain_once_then_silent, c10_runner_no_leak)")
    return ("observed callbacks contradict C10.Exec.spec_ok: replaying the calls on the abstract timer "
            "(key -> (value, due tick = T + floor(delay/interval))) some tick fired a different multiset of (key,value) "
            "than the tasks due at it (c10_refines_timer_spec / c10_exactly_once), a removed or drained task fired, "
            "Drain handed over something else than the pending tasks, or an error code differs (c10_closed, c10_bad_args)")
