"""C13 consistent hash: membership histories x probe keys (reference property module).

Interface used by vlib.check:
  GO_PKG, GEN_SPEC, QUICK_N, THOROUGH_N, RULE, TRUSTED, ASSUMPTIONS
  generate(rng, tier, n) -> cases ; encode(case, obs) -> Coq term of type Exec.case
  nontrivial(case, obs) ; bucket(case, obs) -> labels for the input distribution
  optional: classify, explain, shrink, search, drive
"""
from vlib import cN, cnat, cbool, clist, copt, cpair, run_driver

ID = "C13"
GO_PKG = "./lib/hash"
GO_PKGS = ["./lib/hash", "./lib/store/cache", "./lib/store/kv"]
GEN_SPEC = {"items": [
    {"kind": "const", "file": "lib/hash/consistenthash.go", "name": "minReplicas"},
    {"kind": "const", "file": "lib/hash/consistenthash.go", "name": "TopWeight"},
]}
QUICK_N = 160
THOROUGH_N = 2400
SHARD = 40
RULE = ("membership histories of 3-10 Add/AddWithWeight/AddWithReplicas/Remove ops over node ids 0..7 "
        "(string, struct and Stringer nodes by id mod 3), replicas in {50,100,101,120}, 24 random probe keys "
        "looked up after every op with the default murmur3 hash; non-trivial = at least two different owners "
        "observed and at least one Remove or re-Add of a present node; distinct = distinct canonical case JSON")
TRUSTED = ["murmur3 (hash values tabulated by the driver; the model is parametric in the hash and only uses "
           "order/equality of positions, so the encoder rank-compresses the 64-bit values)",
           "lang.Repr distinct for distinct generated nodes"]
ASSUMPTIONS = ["no ring-position collision between virtual nodes (checked per case: hyp label in input_distribution)",
               "share-proportional-to-weight clause is statistical and is checked as a test in the thorough tier only"]


def _user_cases(rng, tier):
    """cache cluster / kv store dispatch vs a directly built ring, and Hash vs murmur3 on inputs of every length"""
    out = []
    shapes = [[100, 100], [100, 50, 25], [1, 100, 100], [0, 100], [100] * 5, [9] + [100] * 11, [100] * 101,
              [rng.choice([0, 1, 5, 20, 50, 100]) for _ in range(rng.randint(2, 9))]]
    if not any(shapes[-1]):
        shapes[-1][0] = 100
    for pkg in ("cache", "kv"):
        for w in (shapes if tier == "thorough" else rng.sample(shapes, 4) + [[100] * 101]):
            keys = ["user:%d:%d" % (rng.randrange(10 ** 7), i) for i in range(60)]
            out.append({"kind": "dispatch", "pkg": pkg, "weights": w, "keys": keys})
    data = []
    prefix = bytes(rng.randrange(256) for _ in range(80))
    for ln in [0, 1, 7, 8, 15, 16, 17, 31, 32, 33, 63, 64, 65, 100, 127, 128, 129, 300]:
        data.append(bytes(rng.randrange(256) for _ in range(ln)).hex())
    for i in range(12):       # long inputs sharing a long prefix (namespaced keys, long node names)
        data.append((prefix + b"/key/%d" % i).hex())
    out.append({"kind": "hash", "data": data})
    return out


def generate(rng, tier, n):
    cases = _user_cases(rng, tier) if tier != "search" else []
    for _ in range(n):
        custom = rng.random() < 0.7
        replicas = rng.choice([50, 100, 101, 120]) if custom else 0
        nops = rng.randint(3, 10)
        present = set()
        ops = []
        for _ in range(nops):
            r = rng.random()
            node = rng.randrange(8)
            if r < 0.25 and present:
                node = rng.choice(sorted(present)) if rng.random() < 0.85 else node
                ops.append({"op": "remove", "node": node})
                present.discard(node)
                continue
            if present and rng.random() < 0.3:
                node = rng.choice(sorted(present))   # re-add with another weight
            if r < 0.55:
                ops.append({"op": "add", "node": node})
            elif r < 0.8:
                ops.append({"op": "addw", "node": node, "arg": rng.choice([0, 1, 33, 50, 100, 150])})
            else:
                ops.append({"op": "addr", "node": node, "arg": rng.choice([0, 1, 57, 100, 130])})
            present.add(node)
        probes = ["k%d-%d" % (rng.randrange(10 ** 6), i) for i in range(24)]
        cases.append({"replicas": replicas, "custom": custom, "ops": ops, "probes": probes})
    if tier == "thorough":
        # statistical clause, as a TEST: fixed membership configurations (murmur3 is deterministic, so the
        # outcome is too, up to the ~4 % sampling noise of the probe keys); tolerance 50 % of the weight share
        for weights in ([100, 100, 100, 100], [100, 50, 100, 50], [100, 100, 50], [60, 80, 100, 100, 70], [100, 100]):
            ops = [{"op": "addw", "node": i, "arg": w} for i, w in enumerate(weights)]
            probes = ["bal%d-%d" % (rng.randrange(10 ** 9), i) for i in range(3000)]
            cases.append({"replicas": 100, "custom": True, "ops": ops, "probes": probes, "balance_tol": 50})
    return cases


def drive(cases, tier):
    obs = [None] * len(cases)
    logs = []
    groups = {"ring": ("./lib/hash", "^TestVerifDriver$"), "hash": ("./lib/hash", "^TestVerifDriver$"),
              "cache": ("./lib/store/cache", "^TestVerifDriverC13$"), "kv": ("./lib/store/kv", "^TestVerifDriverC13$")}

    def grp(c):
        k = c.get("kind", "ring")
        return c["pkg"] if k == "dispatch" else k
    for g, (pkg, run) in groups.items():
        idx = [i for i, c in enumerate(cases) if grp(c) == g]
        if not idx:
            continue
        o, lg = run_driver(pkg, [cases[i] for i in idx], name="C13%s_%s" % (g, tier[:1]), run=run)
        logs.append(lg[-800:])
        if o is None:
            return None, lg
        for i, x in zip(idx, o):
            obs[i] = x
    return obs, "\n".join(logs)


def _optlist(xs):
    return clist([copt(None if v < 0 else cnat(v)) for v in xs])


def encode(case, obs):
    kind = case.get("kind", "ring")
    if kind == "dispatch":
        return "CX %s %s %s" % (clist([cnat(w) for w in case["weights"]]), _optlist(obs["got"]), _optlist(obs["ref"]))
    if kind == "hash":
        return "CF %s %s" % (clist([cN(x) for x in obs["got"]]), clist([cN(x) for x in obs["ref"]]))
    return "CH (%s)" % _encode_ring(case, obs)


def _encode_ring(case, obs):
    allh = set(obs["phash"])
    for hs in obs["vhash"].values():
        allh.update(hs)
    rank = {h: i + 1 for i, h in enumerate(sorted(allh))}
    ops = []
    for o in case["ops"]:
        k = o["op"]
        if k == "add":
            ops.append("XAdd %s" % cnat(o["node"]))
        elif k == "addw":
            ops.append("XAddW %s %s" % (cnat(o["node"]), cnat(o["arg"])))
        elif k == "addr":
            ops.append("XAddR %s %s" % (cnat(o["node"]), cnat(o["arg"])))
        else:
            ops.append("XRemove %s" % cnat(o["node"]))
    vh = [cpair(cnat(int(n)), clist([cN(rank[h]) for h in hs])) for n, hs in sorted(obs["vhash"].items(), key=lambda kv: int(kv[0]))]
    probes = [cpair(cN(rank[p]), cN(i)) for p, i in zip(obs["phash"], obs["ihash"])]
    rows = [clist([copt(None if v < 0 else cnat(v)) for v in row]) for row in obs["results"]]
    if case.get("balance_tol"):
        # only the final row matters for the balance test; intermediate rows are still checked by spec_rows
        pass
    return "mkcase %s %s %s %s %s %s %s" % (cnat(case["replicas"]), cbool(case["custom"]), clist(ops), clist(vh), clist(probes), clist(rows), cnat(case.get("balance_tol", 0)))


def nontrivial(case, obs):
    if case.get("kind") == "dispatch":
        return len(set(obs["got"])) >= 2
    if case.get("kind") == "hash":
        return len(obs["got"]) > 5
    owners = {v for row in obs["results"] for v in row if v >= 0}
    seen, churn = set(), False
    for o in case["ops"]:
        if o["node"] in seen and o["op"] in ("remove", "add", "addw", "addr"):
            churn = True
        if o["op"] == "remove":
            seen.discard(o["node"])
        else:
            seen.add(o["node"])
    return len(owners) >= 2 and churn


def bucket(case, obs):
    if case.get("kind") == "dispatch":
        return ["dispatch:" + case["pkg"], "nodes=%d" % len(case["weights"])]
    if case.get("kind") == "hash":
        return ["hash-vs-murmur3"]
    out = ["ops=%d" % len(case["ops"])]
    if case.get("balance_tol"):
        out.append("balance-test")
    for o in case["ops"]:
        out.append("op:" + o["op"])
    allh = []
    for hs in obs["vhash"].values():
        allh.extend(hs)
    out.append("hyp:no-collision" if len(set(allh)) == len(allh) else "hyp:COLLISION")
    if any(v == -1 for row in obs["results"] for v in row):
        out.append("obs:absent")
    return out


def explain(case, obs):
    if case.get("kind") == "dispatch":
        return ("the %s built from the configured (address, weight) pairs dispatches some key to another node than the consistent "
                "hash built directly from the same pairs (or reports absence although a node has positive weight)" % case["pkg"])
    if case.get("kind") == "hash":
        return "hash.Hash(data) differs from murmur3.Sum64(data) for some input (the default hash must hash the whole input)"
    return ("observed Get results contradict C13.Exec.spec_ok: an answer differs from the abstract ring's owner "
            "(c13_refines), or a key moved although its owner stayed (c13_remove_monotone / c13_add_monotone), "
            "or a weight-0 / absent node received a key")
