"""C13 consistent hash: membership histories x probe keys (reference property module).

Interface used by vlib.check:
  GO_PKG, GEN_SPEC, QUICK_N, THOROUGH_N, RULE, TRUSTED, ASSUMPTIONS
  generate(rng, tier, n) -> cases ; encode(case, obs) -> Coq term of type Exec.case
  nontrivial(case, obs) ; bucket(case, obs) -> labels for the input distribution
  optional: classify, explain, shrink, search, drive
"""
from vlib import cN, cnat, cbool, clist, copt, cpair, cstr, run_driver

ID = "C13"
GO_PKG = "./lib/hash"
GO_PKGS = ["./lib/hash", "./lib/store/cache", "./lib/store/kv"]
GEN_SPEC = {"items": [
    {"kind": "const", "file": "lib/hash/consistenthash.go", "name": "minReplicas"},
    {"kind": "const", "file": "lib/hash/consistenthash.go", "name": "TopWeight"},
]}
QUICK_N = 160
THOROUGH_N = 2400
SHARD = 40
RULE = ("membership histories of 3-10 Add/AddWithWeight/AddWithReplicas/Remove ops over node ids 0..7, every node of a "
        "random Go TYPE (string, struct value, *Stringer, pointer to a plain struct, plain struct value, *string, int, *int, "
        "value-receiver Stringer by value and by pointer, nil-safe Stringer, map[string]string, pointer to a map, struct holding a map "
        "by value and by pointer; pointer nodes are re-passed as freshly "
        "allocated equal values in 1/3 of the ops), a quarter of the histories end by removing every node; replicas in "
        "{50,100,101,120}; 24 probe keys of random Go types (strings, *string, []byte, ints, bools, struct values and "
        "pointers, Stringers, the nil interface, typed nil pointers, nil-receiver Stringers, and >= 3 keys that are / point to / "
        "hold a map with 4 entries), several of them with EQUAL representations; every key is looked up before every op (index "
        "order) and after it (reverse order, 3 times in a row, map keys 200 times) with the default murmur3 hash; non-trivial = at least two different "
        "owners observed and at least one Remove or re-Add of a present node; distinct = distinct canonical case JSON; 35 % of the histories start with ONE node that is removed / re-weighted / drained before a second node joins; 20 % of the ops are followed by no lookup at all (membership ops back to back); plus, per run: cache / kv configurations loaded from JSON / YAML text with Weight omitted (default 100, 900 keys, equal shares within 60 %), kv multi-key Del of 50 keys over 2 and 3 miniredis shards compared with single-key deletes; 2 forced interleavings of a Get parked inside the hash function while Remove(node) runs (12 random probe keys) and 2 more with 7 probe keys whose hash values are forced to the ring edges (highest position, one below, just above / at the highest surviving position, 2^64-1, 0, lowest position of the removed node; the node owning the highest position is the one removed)")
TRUSTED = ["murmur3 (hash values tabulated by the driver; the model is parametric in the hash and only uses "
           "order/equality of positions, so the encoder rank-compresses the 64-bit values)",
           "strconv / fmt.Sprint texts of scalars and struct values (computed by the generator, compared with the observed "
           "lang.Repr output of every key and node in model_ok); distinct generated nodes have distinct texts"]

NODE_KINDS = ["string", "struct", "stringer", "pstruct", "plain", "pstr", "int", "pint", "vstringer", "pvstringer",
              "safestringer", "map", "pmap", "mapstruct", "pmapstruct"]
POINTER_NODE_KINDS = {"stringer", "pstruct", "pstr", "pint", "pvstringer", "safestringer", "pmap", "pmapstruct"}


def _labels(tag, i):
    """fmt.Sprint of verifLabels(tag, i): maps print in key order"""
    return "map[app:%s env:prod id:%d zone:z%d]" % (tag, i, i % 3)


def _mapsi(sv, iv):
    m = {sv: iv, "b": 2, "a": 1, "c": iv % 7}
    return "map[%s]" % " ".join("%s:%d" % kv for kv in sorted(m.items()))


def node_gval(kind, i):
    """the node value built by verifMakeNode as a C13.Model.gval (text = lang.Repr on the unchanged tree)"""
    return {"string": lambda: "(GVal %s)" % cstr("node-%d" % i),
            "struct": lambda: "(GVal %s)" % cstr("{%d}" % i),
            "stringer": lambda: "(GStringer %s)" % cstr("stringer-%d" % i),
            "pstruct": lambda: "(GPtr (Some %s))" % cstr("{10.0.0.%d:6379 %d}" % (i, i % 3)),
            "plain": lambda: "(GVal %s)" % cstr("{plain-%d:80 %d}" % (i, i)),
            "pstr": lambda: "(GPtr (Some %s))" % cstr("pnode-%d" % i),
            "int": lambda: "(GVal %s)" % cstr("%d" % (1000 + i)),
            "pint": lambda: "(GPtr (Some %s))" % cstr("%d" % (2000 + i)),
            "vstringer": lambda: "(GStringer %s)" % cstr("vs-%d" % i),
            "pvstringer": lambda: "(GStringer %s)" % cstr("vs-%d" % (100 + i)),
            "safestringer": lambda: "(GStringer %s)" % cstr("safe-%d" % i),
            "map": lambda: "(GVal %s)" % cstr(_labels("node", i)),
            "pmap": lambda: "(GPtr (Some %s))" % cstr(_labels("pnode", i)),
            "mapstruct": lambda: "(GVal %s)" % cstr("{ms-%d %s}" % (i, _labels("ms", i))),
            "pmapstruct": lambda: "(GPtr (Some %s))" % cstr("{pms-%d %s}" % (i, _labels("pms", i)))}[kind]()


def key_gval(k):
    """a probe key (JSON string or {"k": kind, "s": .., "i": ..}) as a C13.Model.gval"""
    if isinstance(k, str):
        return "(GVal %s)" % cstr(k)
    kind, sv, iv = k["k"], k.get("s", ""), k.get("i", 0)
    val, ptr, strg = (lambda t: "(GVal %s)" % cstr(t)), (lambda t: "(GPtr (Some %s))" % cstr(t)), (lambda t: "(GStringer %s)" % cstr(t))
    table = {"str": lambda: val(sv), "pstr": lambda: ptr(sv), "bytes": lambda: val(sv),
             "int": lambda: val("%d" % iv), "pint": lambda: ptr("%d" % iv), "i64": lambda: val("%d" % iv), "u32": lambda: val("%d" % iv),
             "bool": lambda: val("true" if iv else "false"), "pbool": lambda: ptr("true" if iv else "false"),
             "nil": lambda: "GNil", "nilpstr": lambda: "(GPtr None)", "nilpint": lambda: "(GPtr None)",
             "nilpstruct": lambda: "(GPtr None)", "nilpstruct2": lambda: "(GPtr None)",
             "struct": lambda: val("{%d}" % iv), "pstruct": lambda: ptr("{%d}" % iv),
             "plain": lambda: val("{%s %d}" % (sv, iv)), "pplain": lambda: ptr("{%s %d}" % (sv, iv)),
             "stringer": lambda: strg("stringer-%d" % iv), "vstringer": lambda: strg("vs-%d" % iv), "pvstringer": lambda: strg("vs-%d" % iv),
             "safestringer": lambda: strg("safe-%d" % iv), "nilsafestringer": lambda: strg("nil-safe"),
             "mapss": lambda: val(_labels(sv, iv)), "pmapss": lambda: ptr(_labels(sv, iv)),
             "mapsi": lambda: val(_mapsi(sv, iv)), "pmapsi": lambda: ptr(_mapsi(sv, iv)),
             "mapstruct": lambda: val("{%s %s}" % (sv, _labels(sv, iv))), "pmapstruct": lambda: ptr("{%s %s}" % (sv, _labels(sv, iv))),
             "nilpmap": lambda: "(GPtr None)", "nilmap": lambda: val("map[]")}
    return table[kind]()


def _gen_keys(rng, n):
    """n probe keys of mixed Go types; about a third of them share their representation with another one"""
    keys = []
    while len(keys) < n:
        r = rng.random()
        tag = "k%d-%d" % (rng.randrange(10 ** 6), len(keys))
        num = rng.randrange(10 ** 6)
        if r < 0.30:
            keys.append(tag)
        elif r < 0.40:     # one text, several Go types
            keys += rng.sample([tag, {"k": "pstr", "s": tag}, {"k": "bytes", "s": tag}, {"k": "str", "s": tag}], 2)
        elif r < 0.50:
            keys += rng.sample([{"k": "int", "i": num}, {"k": "pint", "i": num}, {"k": "i64", "i": num}, {"k": "u32", "i": num},
                                {"k": "str", "s": "%d" % num}], 2)
        elif r < 0.58:     # typed nil pointers, the nil interface and their texts as strings
            keys.append(rng.choice([{"k": "nilpstr"}, {"k": "nilpint"}, {"k": "nilpstruct"}, {"k": "nilpstruct2"}, {"k": "nil"},
                                    {"k": "str", "s": "<nil>"}, {"k": "str", "s": ""}, {"k": "nilsafestringer"},
                                    {"k": "str", "s": "nil-safe"}]))
        elif r < 0.68:
            keys += rng.sample([{"k": "struct", "i": num}, {"k": "pstruct", "i": num}, {"k": "str", "s": "{%d}" % num}], 2)
        elif r < 0.76:
            a = "10.0.%d.%d:6379" % (num % 200, num % 7)
            keys += rng.sample([{"k": "plain", "s": a, "i": num % 5}, {"k": "pplain", "s": a, "i": num % 5},
                                {"k": "str", "s": "{%s %d}" % (a, num % 5)}], 2)
        elif r < 0.88:
            kind = rng.choice(["stringer", "vstringer", "pvstringer", "safestringer"])
            keys.append({"k": kind, "i": num})
            if rng.random() < 0.5:
                keys.append({"k": "str", "s": {"stringer": "stringer-%d", "vstringer": "vs-%d", "pvstringer": "vs-%d",
                                               "safestringer": "safe-%d"}[kind] % num})
        elif r < 0.92:
            keys.append(rng.choice([{"k": "bool", "i": num % 2}, {"k": "pbool", "i": num % 2}]))
        elif r < 0.97:
            keys += _map_keys(rng, num, 2)
        else:
            keys.append(tag)
    rng.shuffle(keys)
    keys = keys[:n - 3] + _map_keys(rng, rng.randrange(10 ** 6), 3)   # every case looks up map-typed keys
    rng.shuffle(keys)
    return keys


def _map_keys(rng, num, cnt):
    """cnt keys that are / point to / contain a map with >= 2 entries (some pairs share their representation)"""
    tag = "lbl%d" % (num % 1000)
    pool = [{"k": "mapss", "s": tag, "i": num}, {"k": "pmapss", "s": tag, "i": num},
            {"k": "mapsi", "s": "k%d" % (num % 50), "i": num}, {"k": "pmapsi", "s": "k%d" % (num % 50), "i": num},
            {"k": "mapstruct", "s": tag, "i": num}, {"k": "pmapstruct", "s": tag, "i": num},
            {"k": "str", "s": _labels(tag, num)}, {"k": "nilpmap"}, {"k": "nilmap"}]
    return rng.sample(pool[:6], min(cnt, 2)) + rng.sample(pool, max(0, cnt - 2))

ASSUMPTIONS = ["no ring-position collision between virtual nodes (checked per case: hyp label in input_distribution)",
               "keys/nodes whose own String/Error method panics (e.g. a nil pointer of a Stringer type whose String "
               "dereferences its receiver or has a value receiver) are caller faults and outside the claim: lang.Repr "
               "propagates that panic; in scope: untyped nil, typed nil pointers of non-Stringer types, nil-safe Stringers "
               "with nil receivers, pointers to values, struct values",
               "share-proportional-to-weight clause is statistical: a test in the thorough tier, and (equal shares within 60 %, "
               "observed worst case 32 % over 60 configurations) on the loaded all-default configurations of every run"]


def _user_cases(rng, tier):
    """cache cluster / kv store dispatch vs a directly built ring, and Hash vs murmur3 on inputs of every length"""
    out = []
    shapes = [[100, 100], [100, 50, 25], [1, 100, 100], [0, 100], [100] * 5, [9] + [100] * 11, [100] * 101,
              [rng.choice([0, 1, 5, 20, 50, 100]) for _ in range(rng.randint(2, 9))]]
    if not any(shapes[-1]):
        shapes[-1][0] = 100
    # drained (weight 0) entries in FRONT of / between several positive nodes of DIFFERENT weights: every positive node
    # must keep ITS weight (always part of the stream, 240 keys so that a 100:50 vs 100:100 mix-up moves some key)
    drained = [[0, 100, 50], [0, 50, 100, 25], [0, 0, 100, 30], [100, 0, 20, 0, 60]]
    for pkg in ("cache", "kv"):
        for w in (shapes if tier == "thorough" else rng.sample(shapes, 4) + [[100] * 101]) + drained:
            keys = ["user:%d:%d" % (rng.randrange(10 ** 7), i) for i in range(240 if w in drained else 60)]
            out.append({"kind": "dispatch", "pkg": pkg, "weights": w, "keys": keys})
    # configurations LOADED through the conf loader (JSON / YAML text) with the node Weight omitted: the default is the
    # documented 100; equally configured nodes get roughly equal shares of 900 keys (60 % of the share, a TEST)
    for pkg in ("cache", "kv"):
        fmts = rng.sample(["json", "yaml"], 2)
        n2 = rng.randint(2, 5)
        mixed = rng.choice([[None, 50, None], [0, None, None], [None, None, 25, 100], [100, None], [None, 0, None, 1]])
        for fmt, written in ((fmts[0], [None] * 3), (fmts[1], [None] * n2), (rng.choice(fmts), mixed)):
            keys = ["acct:%d:%d" % (rng.randrange(10 ** 7), i) for i in range(900)]
            out.append({"kind": "dispatch", "pkg": pkg, "loaded": fmt, "omit": [w is None for w in written],
                        "weights": [100 if w is None else w for w in written], "keys": keys,
                        "balance_tol": 60 if all(w is None for w in written) else 0})
    # kv multi-key Del over 2-3 shards: 50 keys in ONE call (adjacent keys on different shards), 10 keys to keep
    for nodes in (2, 3):
        tag = rng.randrange(10 ** 6)
        out.append({"kind": "kvdel", "nodes": nodes, "keys": ["order:%d:%d" % (tag, i) for i in range(50)],
                    "keep": ["keep:%d:%d" % (tag, i) for i in range(10)]})
    # two cache clusters from the same configuration over the same servers: written through A, read through B
    for w in ([100, 100, 100], rng.choice([[100, 50], [100, 100, 50, 25], [0, 100, 100]])):
        out.append({"kind": "twin", "pkg": "cache", "weights": w,
                    "keys": ["sess:%d:%d" % (rng.randrange(10 ** 7), i) for i in range(60)]})
    # forced interleaving: a Get parked inside the (caller-supplied) hash function while Remove(node) is attempted on a
    # ring of three nodes; half of the probe keys belong to the node being removed
    for _ in range(2):
        out.append({"kind": "race", "replicas": rng.choice([100, 120]), "kinds": [rng.choice(NODE_KINDS) for _ in range(3)],
                    "remove": rng.randrange(3), "probes": _gen_keys(rng, 12)})
    # the same interleaving with probe keys whose hash values are FORCED (through the caller-supplied hash function) to the
    # edges of the ring: the highest position (the node owning it is the one removed), one below it, just above / at the
    # highest surviving position, 2^64-1, 0 and the lowest position of the removed node
    for _ in range(2):
        out.append({"kind": "race", "edge": True, "replicas": rng.choice([50, 100, 120]), "kinds": [rng.choice(NODE_KINDS) for _ in range(3)],
                    "remove": 0, "probes": ["edge:%d" % i for i in range(7)]})
    data = []
    prefix = bytes(rng.randrange(256) for _ in range(80))
    for ln in [0, 1, 7, 8, 15, 16, 17, 31, 32, 33, 63, 64, 65, 100, 127, 128, 129, 300]:
        data.append(bytes(rng.randrange(256) for _ in range(ln)).hex())
    for i in range(12):       # long inputs sharing a long prefix (namespaced keys, long node names)
        data.append((prefix + b"/key/%d" % i).hex())
    out.append({"kind": "hash", "data": data})
    return out


def _add_op(rng, node):
    r = rng.random()
    if r < 0.5:
        return {"op": "add", "node": node}
    if r < 0.8:
        return {"op": "addw", "node": node, "arg": rng.choice([1, 33, 50, 100, 150])}
    return {"op": "addr", "node": node, "arg": rng.choice([1, 57, 100, 130])}


def generate(rng, tier, n):
    cases = _user_cases(rng, tier) if tier != "search" else []
    for _ in range(n):
        custom = rng.random() < 0.7
        replicas = rng.choice([50, 100, 101, 120]) if custom else 0
        nops = rng.randint(3, 10)
        present = set()
        ops = []
        if rng.random() < 0.35:
            # the FIRST node of the empty ring is removed or re-weighted BEFORE a second node joins
            a, b = rng.sample(range(8), 2)
            ops.append(_add_op(rng, a))
            second = rng.choice(["remove", "addw50", "reweigh", "remove", "addw50", "zero"])
            if second == "remove":
                ops.append({"op": "remove", "node": a})
            elif second == "addw50":
                ops.append({"op": "addw", "node": a, "arg": 50})
            elif second == "zero":
                ops.append(rng.choice([{"op": "addw", "node": a, "arg": 0}, {"op": "addr", "node": a, "arg": 0}]))
            else:
                ops.append(_add_op(rng, a))
            if rng.random() < 0.3:      # ... or even twice
                ops.append(rng.choice([{"op": "remove", "node": a}, {"op": "addw", "node": a, "arg": rng.choice([1, 33, 50, 100])}]))
            ops.append(_add_op(rng, b) if rng.random() < 0.7 else {"op": "add", "node": b})
            for o in ops:
                (present.discard if o["op"] == "remove" else present.add)(o["node"])
        for _ in range(nops):
            r = rng.random()
            node = rng.randrange(8)
            if r < 0.25 and present:
                node = rng.choice(sorted(present)) if rng.random() < 0.85 else node
                ops.append({"op": "remove", "node": node})
                present.discard(node)
                continue
            if present and rng.random() < 0.3:
                node = rng.choice(sorted(present))   # re-add with another weight
            if r < 0.55:
                ops.append({"op": "add", "node": node})
            elif r < 0.8:
                ops.append({"op": "addw", "node": node, "arg": rng.choice([0, 1, 33, 50, 100, 150])})
            else:
                ops.append({"op": "addr", "node": node, "arg": rng.choice([0, 1, 57, 100, 130])})
            present.add(node)
        kinds = [rng.choice(NODE_KINDS) for _ in range(8)]
        for o in ops:
            if kinds[o["node"]] in POINTER_NODE_KINDS and rng.random() < 0.33:
                o["fresh"] = True
        for o in ops[:-1]:
            if rng.random() < 0.2:          # membership ops back to back: no lookup before the next op
                o["quiet"] = True
        if present and rng.random() < 0.25:      # removing every node empties the ring
            for node in rng.sample(sorted(present), len(present)):
                o = {"op": "remove", "node": node}
                if kinds[node] in POINTER_NODE_KINDS and rng.random() < 0.33:
                    o["fresh"] = True
                ops.append(o)
        probes = _gen_keys(rng, 24)
        cases.append({"replicas": replicas, "custom": custom, "ops": ops, "probes": probes, "kinds": kinds})
    if tier == "thorough":
        # statistical clause, as a TEST: fixed membership configurations (murmur3 is deterministic, so the
        # outcome is too, up to the ~4 % sampling noise of the probe keys); tolerance 50 % of the weight share
        for weights in ([100, 100, 100, 100], [100, 50, 100, 50], [100, 100, 50], [60, 80, 100, 100, 70], [100, 100]):
            ops = [{"op": "addw", "node": i, "arg": w} for i, w in enumerate(weights)]
            probes = ["bal%d-%d" % (rng.randrange(10 ** 9), i) for i in range(3000)]
            cases.append({"replicas": 100, "custom": True, "ops": ops, "probes": probes, "balance_tol": 50})
    return cases


def drive(cases, tier):
    obs = [None] * len(cases)
    logs = []
    groups = {"ring": ("./lib/hash", "^TestVerifDriver$"), "hash": ("./lib/hash", "^TestVerifDriver$"),
              "race": ("./lib/hash", "^TestVerifDriver$"),
              "cache": ("./lib/store/cache", "^TestVerifDriverC13$"), "kv": ("./lib/store/kv", "^TestVerifDriverC13$")}

    def grp(c):
        k = c.get("kind", "ring")
        return c["pkg"] if k == "dispatch" else ("kv" if k == "kvdel" else ("cache" if k == "twin" else k))
    for g, (pkg, run) in groups.items():
        idx = [i for i, c in enumerate(cases) if grp(c) == g]
        if not idx:
            continue
        o, lg = run_driver(pkg, [cases[i] for i in idx], name="C13%s_%s" % (g, tier[:1]), run=run)
        logs.append(lg[-800:])
        if o is None:
            return None, lg
        for i, x in zip(idx, o):
            obs[i] = x
    return obs, "\n".join(logs)


def _optlist(xs):
    return clist([copt(None if v < 0 else cnat(v)) for v in xs])


def _removed_node(case, obs):
    return obs.get("removed", case["remove"]) if isinstance(obs, dict) else case["remove"]


def encode(case, obs):
    kind = case.get("kind", "ring")
    if kind == "race":
        o3 = lambda v: copt(None if v in (-1, -3) else cnat(9999 if v == -2 else v))
        rows = [cpair(o3(r["pre"]), o3(r["ans"]), o3(r["post"])) for r in obs["rows"]]
        return "CR %s %s %s" % (cnat(_removed_node(case, obs)), clist(rows), cbool(any(r["hung"] for r in obs["rows"])))
    if kind == "kvdel":
        nl = lambda xs: clist([cnat(x) for x in xs])
        return "CD %s %s %s %s %s %s %s %s %s" % (cnat(len(case["keys"])), cnat(obs["count"]), nl(obs["remaining"]), cbool(obs["kept"]),
                                                  cnat(obs["errors"]), cnat(obs["single_count"]), nl(obs["single_remaining"]),
                                                  cbool(obs["single_kept"]), cnat(obs["single_errors"]))
    if kind == "dispatch" and case.get("loaded"):
        written = clist([copt(None if om else cnat(w)) for w, om in zip(case["weights"], case["omit"])])
        return "CL %s %s %s %s %s" % (written, _optlist(obs["got"]), _optlist(obs["ref"]),
                                      clist([cnat(max(w, 0)) for w in (obs.get("loaded_weights") or [])]), cnat(case.get("balance_tol", 0)))
    if kind == "twin" or (kind == "dispatch" and "gotb" in obs):
        return "CT %s %s %s %s %s" % (clist([cnat(w) for w in case["weights"]]), _optlist(obs["got"]), _optlist(obs["gotb"]),
                                      _optlist(obs["ref"]), cnat(obs.get("missing", 0)))
    if kind == "dispatch":
        return "CX %s %s %s" % (clist([cnat(w) for w in case["weights"]]), _optlist(obs["got"]), _optlist(obs["ref"]))
    if kind == "hash":
        return "CF %s %s" % (clist([cN(x) for x in obs["got"]]), clist([cN(x) for x in obs["ref"]]))
    return "CH (%s)" % _encode_ring(case, obs)


def _encode_ring(case, obs):
    allh = set(obs["phash"])
    for hs in obs["vhash"].values():
        allh.update(hs)
    rank = {h: i + 1 for i, h in enumerate(sorted(allh))}
    ops = []
    for o in case["ops"]:
        k = o["op"]
        if k == "add":
            ops.append("XAdd %s" % cnat(o["node"]))
        elif k == "addw":
            ops.append("XAddW %s %s" % (cnat(o["node"]), cnat(o["arg"])))
        elif k == "addr":
            ops.append("XAddR %s %s" % (cnat(o["node"]), cnat(o["arg"])))
        else:
            ops.append("XRemove %s" % cnat(o["node"]))
    vh = [cpair(cnat(int(n)), clist([cN(rank[h]) for h in hs])) for n, hs in sorted(obs["vhash"].items(), key=lambda kv: int(kv[0]))]
    probes = [cpair(cN(rank[p]), cN(i)) for p, i in zip(obs["phash"], obs["ihash"])]
    # -1 absent, -2 a value that was never handed to the ring (encoded as a node id nobody has), -3 Get panicked
    rows = [clist([copt(None if v in (-1, -3) else cnat(9999 if v == -2 else v)) for v in row]) for row in obs["results"]]
    gpanic = [clist([cbool(v == -3) for v in row]) for row in obs["results"]]
    kinds = case.get("kinds") or [["string", "struct", "stringer"][i % 3] for i in range(8)]
    used = sorted({o["node"] for o in case["ops"]})
    ostr = lambda r: copt(None if r is None else cstr(r))
    nrepr_obs = obs.get("nrepr") or {}
    nodes = [cpair(cnat(n), node_gval(kinds[n], n)) for n in used]
    # old replays carry no observed representations: take the expected ones
    nrepr = [cpair(cnat(n), ostr(nrepr_obs[str(n)]) if str(n) in nrepr_obs else "(match repr %s with Ok t => Some t | _ => None end)" % node_gval(kinds[n], n)) for n in used]
    keys = [key_gval(k) for k in case["probes"]]
    if "krepr" in obs:
        krepr = [ostr(r) for r in obs["krepr"]]
    else:
        krepr = ["(match repr %s with Ok t => Some t | _ => None end)" % k for k in keys]
    oppanic = [cbool(b) for b in obs.get("oppanic", [False] * len(case["ops"]))]
    # step -1 (the empty ring before the first op answered something) is reported as op index 9999
    unstable = [cpair(cnat(9999 if st < 0 else st), cnat(i)) for st, i in obs.get("unstable", [])]
    return "mkcase %s %s %s %s %s %s %s %s %s %s %s %s %s %s %s" % (
        cnat(case["replicas"]), cbool(case["custom"]), clist(ops), clist(vh), clist(probes), clist(rows), cnat(case.get("balance_tol", 0)),
        clist(keys), clist(krepr), clist(nodes), clist(nrepr), clist(gpanic), clist(oppanic), cpair(cnat(obs["nkeys"]), cnat(obs["nring"])), clist(unstable))


def nontrivial(case, obs):
    if case.get("kind") == "race":
        rm = _removed_node(case, obs)
        return any(r["pre"] == rm for r in obs["rows"]) and any(r["pre"] != rm for r in obs["rows"])
    if case.get("kind") == "kvdel":
        return any(a != b for a, b in zip(obs["owners"], obs["owners"][1:]))
    if case.get("kind") in ("dispatch", "twin"):
        return len(set(obs["got"])) >= 2
    if case.get("kind") == "hash":
        return len(obs["got"]) > 5
    owners = {v for row in obs["results"] for v in row if v >= 0}
    seen, churn = set(), False
    for o in case["ops"]:
        if o["node"] in seen and o["op"] in ("remove", "add", "addw", "addr"):
            churn = True
        if o["op"] == "remove":
            seen.discard(o["node"])
        else:
            seen.add(o["node"])
    return len(owners) >= 2 and churn


def bucket(case, obs):
    if case.get("kind") == "race":
        return ["get-parked-during-remove" + (":forced-edge-hashes" if case.get("edge") else ""),
                "race:remove-overtook-get" if any(r["overtook"] for r in obs["rows"]) else "race:remove-waited-for-get",
                "race:keys-of-removed-node=%d" % sum(r["pre"] == _removed_node(case, obs) for r in obs["rows"])]
    if case.get("kind") == "kvdel":
        return ["kv-multi-key-del", "shards=%d" % case["nodes"],
                "adjacent-owner-changes=%d" % sum(a != b for a, b in zip(obs["owners"], obs["owners"][1:]))]
    if case.get("kind") == "dispatch" and case.get("loaded"):
        return ["loaded:%s:%s" % (case["pkg"], case["loaded"]), "loaded:weight-omitted=%d/%d" % (sum(case["omit"]), len(case["omit"]))]
    if case.get("kind") == "twin":
        return ["twin-instances:write-A-read-B", "nodes=%d" % len(case["weights"])]
    if case.get("kind") == "dispatch":
        return ["dispatch:" + case["pkg"], "nodes=%d" % len(case["weights"])] + (["dispatch:two-instances"] if "gotb" in obs else [])
    if case.get("kind") == "hash":
        return ["hash-vs-murmur3"]
    out = ["ops=%d" % len(case["ops"])]
    ops_ = case["ops"]
    if len(ops_) >= 3 and ops_[1]["node"] == ops_[0]["node"] and ops_[0]["op"] != "remove":
        out.append("first-node:" + ("removed" if ops_[1]["op"] == "remove" else "reweighted") + "-before-second-joins")
    if any(o.get("quiet") for o in ops_):
        out.append("ops-back-to-back(no lookup between)")
    if case.get("balance_tol"):
        out.append("balance-test")
    for o in case["ops"]:
        out.append("op:" + o["op"])
    allh = []
    for hs in obs["vhash"].values():
        allh.extend(hs)
    out.append("hyp:no-collision" if len(set(allh)) == len(allh) else "hyp:COLLISION")
    if any(v == -1 for row in obs["results"] for v in row):
        out.append("obs:absent")
    kinds = case.get("kinds")
    if kinds:
        for n in {o["node"] for o in case["ops"]}:
            out.append("node:" + kinds[n])
        if any(o.get("fresh") for o in case["ops"]):
            out.append("node:fresh-pointer")
    for k in case["probes"]:
        out.append("key:" + ("str" if isinstance(k, str) else k["k"]))
    texts = [key_gval(k) .replace("GPtr (Some", "GVal").replace("GStringer", "GVal").replace("))", ")") for k in case["probes"]]
    if len(set(texts)) < len(texts):
        out.append("key:equal-representations")
    if case["ops"] and not _final_members(case):
        out.append("final:all-removed")
    if any(v == -3 for row in obs["results"] for v in row) or any(obs.get("oppanic", [])):
        out.append("obs:PANIC")
    if obs.get("unstable"):
        out.append("obs:UNSTABLE-LOOKUP")
    return out


def _final_members(case):
    m = set()
    for o in case["ops"]:
        (m.discard if o["op"] == "remove" else m.add)(o["node"])
    return m


def explain(case, obs):
    if case.get("kind") == "race":
        rm = _removed_node(case, obs)
        bad = [(case["probes"][i], r) for i, r in enumerate(obs["rows"]) if r["hung"] or r["ans"] < 0 or r["ans"] not in (r["pre"], r["post"]) or r["post"] in (rm, -1, -3)]
        return ("a Get parked in the middle of its lookup while Remove(node %d) ran on a ring of 3 nodes%s answered neither the owner before nor "
                "the owner after the removal (-1 = absent although two nodes were present all the time, -3 = panic), or a call hung: %s" % (
                    rm, " (probe keys with hash values forced to the edges of the ring; the removed node owns the highest position)" if case.get("edge") else "", bad[:4]))
    if case.get("kind") == "kvdel":
        return ("kv Store.Del(k1..k50) over %d shards: returned %s (single-key deletes: %s), named keys still present afterwards: %s, "
                "other keys kept: %s, errors: %s -- every named key must be removed from ITS owner shard" % (
                    case["nodes"], obs["count"], obs["single_count"], [case["keys"][i] for i in obs["remaining"]][:8], obs["kept"], obs["errors"]))
    if case.get("kind") == "dispatch" and case.get("loaded"):
        return ("%s configuration loaded from %s text with Weight omitted for nodes %s: loaded weights %s (an omitted Weight means the "
                "documented default 100), or the dispatch differs from a ring built with those weights, or equally configured nodes "
                "do not get roughly equal shares; shares %s" % (
                    case["pkg"], case["loaded"], [i for i, o in enumerate(case["omit"]) if o], obs.get("loaded_weights"),
                    [obs["got"].count(i) for i in range(len(case["weights"]))]))
    if case.get("kind") in ("dispatch", "twin") and "gotb" in obs and (obs["gotb"] != obs["got"] or obs.get("missing")):
        diff = [(k, a, b) for k, a, b in zip(case["keys"], obs["got"], obs["gotb"]) if a != b]
        return ("two cache clusters built from the SAME configuration (two service instances) place keys on different nodes "
                "(key, node in A, node in B): %s; keys written through A that B does not read back: %s -- placement must depend on "
                "the configuration only" % (diff[:6], obs.get("missing", 0)))
    if case.get("kind") in ("dispatch", "twin"):
        return ("the %s built from the configured (address, weight) pairs dispatches some key to another node than the consistent "
                "hash built directly from the same pairs (or reports absence although a node has positive weight)" % case["pkg"])
    if case.get("kind") == "hash":
        return "hash.Hash(data) differs from murmur3.Sum64(data) for some input (the default hash must hash the whole input)"
    if obs.get("unstable"):
        st, i = obs["unstable"][0]
        return ("two lookups of the SAME key under the SAME membership returned different nodes (c13_stable / "
                "c13_lookup_repeatable): probe %s %s; %d such (op, probe) pairs; a lookup made before a membership change "
                "and repeated lookups after it must all give the node that is the owner NOW" % (
                    case["probes"][i], "before the first op (empty ring)" if st < 0 else "around op %d %s" % (st, case["ops"][st]),
                    len(obs["unstable"])))
    if any(v == -3 for row in obs["results"] for v in row) or any(obs.get("oppanic", [])) or \
            any(r is None for r in obs.get("krepr", [])) or any(r is None for r in (obs.get("nrepr") or {}).values()):
        bad = sorted({str(case["probes"][i]) for row in obs["results"] for i, v in enumerate(row) if v == -3})
        return ("ConsistentHash.Get / Add / Remove / lang.Repr PANICKED on a legal Go value (c13_lookup_total_keys: "
                "lookup is total for every key type); panicking keys: %s; panicking ops: %s" % (
                    ", ".join(bad[:6]) or "-", [i for i, b in enumerate(obs.get("oppanic", [])) if b]))
    return ("observed Get results contradict C13.Exec.spec_ok: an answer differs from the abstract ring's owner "
            "(c13_refines), or a key moved although its owner stayed (c13_remove_monotone / c13_add_monotone), "
            "or a weight-0 / removed / absent node received a key (c13_total, c13_remove_all_empties), or two key "
            "values with the same representation got different nodes (c13_lookup_same_text)")
